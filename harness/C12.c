/* C12 - VPS, DVB PDC descriptor and Teletext 8/30 format 1/2 codecs are exact
 * inverses; bad input is rejected with the output untouched.
 *
 * Exhaustive lattice over the value ranges (DESIGN.md C12).  The oracle is an
 * independent statement of the bit layouts (EN 300 231 VPS line, EN 300 468
 * PDC descriptor, EN 300 706 9.8.1/9.8.2) as (byte,bit) placement tables and
 * a reference 8/30 encoder written here; nothing is taken from the library
 * except the Hamming 8/4 forward table through vbi_ham8() (trusted, covered
 * exhaustively by test-hamm).
 */
#include <stdio.h>
#include <stdlib.h>
#include <string.h>
#include <errno.h>
#include <time.h>
#include "mc.h"
#include "src/vps.h"
#include "src/pdc.h"
#include "src/packet-830.h"
#include "src/hamm.h"

/* ---- independent layouts ------------------------------------------------ */

/* VPS sliced buffer (13 bytes = VPS bytes 3..15).  Field bit i (lsb = 0) is at
 * byte pos[i].byte, bit pos[i].bit (lsb = 0). */
struct bitpos { unsigned char byte, bit; };

static const struct bitpos vps_cni_pos[12] = {
        {11,0},{11,1},{11,2},{11,3},{11,4},{11,5},   /* CNI 0..5  : byte 14 low six bits */
        { 8,6},{ 8,7},                               /* CNI 6,7   : byte 11 top two bits */
        {11,6},{11,7},                               /* CNI 8,9   : byte 14 top two bits */
        {10,0},{10,1},                               /* CNI 10,11 : byte 13 low two bits */
};
static const struct bitpos vps_pil_pos[20] = {
        {10,2},{10,3},{10,4},{10,5},{10,6},{10,7},   /* PIL 0..5   */
        { 9,0},{ 9,1},{ 9,2},{ 9,3},{ 9,4},{ 9,5},{ 9,6},{ 9,7}, /* PIL 6..13 */
        { 8,0},{ 8,1},{ 8,2},{ 8,3},{ 8,4},{ 8,5},   /* PIL 14..19 */
};
static const struct bitpos vps_pcs_pos[2] = { {2,6},{2,7} };
static const struct bitpos vps_pty_pos[8] = { {12,0},{12,1},{12,2},{12,3},{12,4},{12,5},{12,6},{12,7} };

static unsigned get_field(const uint8_t *b, const struct bitpos *p, int n)
{
        unsigned v = 0;
        for (int i = 0; i < n; i++) v |= ((b[p[i].byte] >> p[i].bit) & 1u) << i;
        return v;
}
static void put_field(uint8_t *b, const struct bitpos *p, int n, unsigned v)
{
        for (int i = 0; i < n; i++) {
                b[p[i].byte] &= ~(1u << p[i].bit);
                b[p[i].byte] |= ((v >> i) & 1u) << p[i].bit;
        }
}
static void field_mask(uint8_t *m, const struct bitpos *p, int n)
{
        for (int i = 0; i < n; i++) m[p[i].byte] |= 1u << p[i].bit;
}

static unsigned ref_rev8(unsigned c)
{
        unsigned r = 0;
        for (int i = 0; i < 8; i++) if (c & (1u << i)) r |= 0x80u >> i;
        return r;
}

/* expected decode of the VPS CNI, with the documented TR 101 231 exception */
static unsigned ref_vps_cni(const uint8_t *b)
{
        unsigned c = get_field(b, vps_cni_pos, 12);
        if (c == 0xDC3) c = (b[2] & 0x10) ? 0xDC1 : 0xDC2;
        return c;
}

static int pid_is_zero_except(const vbi_program_id *p)
{
        /* all reserved members must be cleared by the decoder */
        vbi_program_id z; memset(&z, 0, sizeof z);
        return !memcmp(p->_reserved2, z._reserved2, sizeof z._reserved2)
            && !memcmp(p->_reserved3, z._reserved3, sizeof z._reserved3);
}

#define FAIL(key, ...) do { mc_violation(key, __VA_ARGS__); return; } while (0)

/* ---- phase: VPS CNI x PIL full product ---------------------------------- */

static int pil_stride;

static void vps_cni_pil_case(uint64_t cni, void *arg)
{
        uint8_t base[2][13];
        memset(base[0], 0x00, 13); memset(base[1], 0xFF, 13);
        uint8_t mask[13] = {0};
        field_mask(mask, vps_cni_pos, 12); field_mask(mask, vps_pil_pos, 20);
        field_mask(mask, vps_pcs_pos, 2); field_mask(mask, vps_pty_pos, 8);
        mc_case("vps cni x pil", "cni=%03x", (unsigned) cni);
        uint64_t n = 0;
        for (unsigned pil = (unsigned)(cni % pil_stride); pil < (1u << 20); pil += pil_stride) {
                const uint8_t *bs = base[(pil ^ cni) & 1];
                uint8_t buf[13], buf2[13]; memcpy(buf, bs, 13);
                vbi_program_id pid, out;
                memset(&pid, 0, sizeof pid);
                pid.cni = cni; pid.pil = pil; pid.pcs_audio = (pil >> 3) & 3; pid.pty = (pil * 7 + cni) & 0xFF;
                if (!vbi_encode_vps_pdc(buf, &pid)) FAIL("vps encode refuses valid", "cni=%03x pil=%05x", (unsigned) cni, pil);
                n++;
                /* independent read back */
                if (get_field(buf, vps_cni_pos, 12) != cni || get_field(buf, vps_pil_pos, 20) != pil
                    || get_field(buf, vps_pcs_pos, 2) != (unsigned) pid.pcs_audio
                    || get_field(buf, vps_pty_pos, 8) != (unsigned) pid.pty)
                        FAIL("vps encode bit layout", "cni=%03x pil=%05x", (unsigned) cni, pil);
                for (int i = 0; i < 13; i++)
                        if ((buf[i] ^ bs[i]) & ~mask[i]) FAIL("vps encode touches foreign bits", "cni=%03x pil=%05x byte=%d", (unsigned) cni, pil, i);
                memset(&out, 0x5A, sizeof out);
                if (!vbi_decode_vps_pdc(&out, buf)) FAIL("vps decode refuses", "cni=%03x pil=%05x", (unsigned) cni, pil);
                unsigned ecni = ref_vps_cni(buf);
                if (out.cni != ecni || out.pil != pil || out.pcs_audio != pid.pcs_audio || out.pty != pid.pty
                    || out.channel != VBI_PID_CHANNEL_VPS || out.cni_type != VBI_CNI_TYPE_VPS || !out.mi
                    || out.luf || out.prf || !pid_is_zero_except(&out))
                        FAIL("vps decode value", "cni=%03x pil=%05x got cni=%03x pil=%05x pcs=%d pty=%d", (unsigned) cni, pil,
                             out.cni, out.pil, out.pcs_audio, out.pty);
                unsigned c2 = 0xFFFFFFFF;
                if (!vbi_decode_vps_cni(&c2, buf) || c2 != ecni) FAIL("vps cni decode value", "cni=%03x got %03x", (unsigned) cni, c2);
                /* re-encode what was decoded: bits must be reproduced, except 0xDC3 */
                memcpy(buf2, bs, 13);
                if (!vbi_encode_vps_pdc(buf2, &out)) FAIL("vps re-encode refuses", "cni=%03x pil=%05x", (unsigned) cni, pil);
                if (cni != 0xDC3) {
                        if (memcmp(buf, buf2, 13)) FAIL("vps re-encode differs", "cni=%03x pil=%05x", (unsigned) cni, pil);
                } else {
                        /* documented exception: decodes to ARD/ZDF by the distinction bit */
                        if (get_field(buf2, vps_cni_pos, 12) != ((bs[2] & 0x10) ? 0xDC1u : 0xDC2u))
                                FAIL("vps 0xDC3 exception", "distinction bit=%d got %03x", !!(bs[2] & 0x10), get_field(buf2, vps_cni_pos, 12));
                        mc_count("dc3_exception_checked", 1);
                }
        }
        mc_count("evaluations", n);
        mc_distinct(0x1000000 + cni);
        if (cni == 0xDC3 || cni == 0x123) mc_sample("vps encode/decode cni=%03x x %llu PILs (stride %d), bases 00/FF", (unsigned) cni, (unsigned long long) n, pil_stride);
}

/* ---- phase: VPS untouched bits / refusal -------------------------------- */

static void vps_untouched_case(uint64_t idx, void *arg)
{
        /* idx: 0 = all zero, 1 = all ones, 2..105 = single bit set, 106..209 = single bit cleared */
        uint8_t bs[13];
        if (idx == 0) memset(bs, 0, 13); else if (idx == 1) memset(bs, 0xFF, 13);
        else if (idx < 106) { memset(bs, 0, 13); bs[(idx - 2) / 8] |= 1u << ((idx - 2) % 8); }
        else { memset(bs, 0xFF, 13); bs[(idx - 106) / 8] &= ~(1u << ((idx - 106) % 8)); }
        mc_case("vps untouched", "base=%llu", (unsigned long long) idx);
        static const unsigned cnis[] = { 0, 0xFFF, 0xDC3, 0xDC1, 0xDC2, 0x555, 0xAAA, 0x0C0, 0x300, 0xC00, 0x03F };
        static const unsigned pils[] = { 0, 0xFFFFF, 0x55555, 0xAAAAA, 0x0003F, 0x03FC0, 0xFC000 };
        uint8_t mcni[13] = {0}, mall[13] = {0};
        field_mask(mcni, vps_cni_pos, 12);
        field_mask(mall, vps_cni_pos, 12); field_mask(mall, vps_pil_pos, 20);
        field_mask(mall, vps_pcs_pos, 2); field_mask(mall, vps_pty_pos, 8);
        uint64_t n = 0;
        for (unsigned a = 0; a < sizeof cnis / sizeof *cnis; a++) {
                uint8_t b[13]; memcpy(b, bs, 13);
                if (!vbi_encode_vps_cni(b, cnis[a])) FAIL("vps cni encode refuses valid", "cni=%03x", cnis[a]);
                for (int i = 0; i < 13; i++) if ((b[i] ^ bs[i]) & ~mcni[i]) FAIL("vps cni encode touches foreign bits", "cni=%03x byte=%d base=%llu", cnis[a], i, (unsigned long long) idx);
                if (get_field(b, vps_cni_pos, 12) != cnis[a]) FAIL("vps cni encode layout", "cni=%03x", cnis[a]);
                n++;
                for (unsigned p = 0; p < sizeof pils / sizeof *pils; p++)
                        for (int pcs = 0; pcs < 4; pcs++)
                                for (int pty = 0; pty < 256; pty += 51) {
                                        vbi_program_id pid; memset(&pid, 0, sizeof pid);
                                        pid.cni = cnis[a]; pid.pil = pils[p]; pid.pcs_audio = pcs; pid.pty = pty;
                                        memcpy(b, bs, 13);
                                        if (!vbi_encode_vps_pdc(b, &pid)) FAIL("vps encode refuses valid", "cni=%03x pil=%05x", cnis[a], pils[p]);
                                        for (int i = 0; i < 13; i++) if ((b[i] ^ bs[i]) & ~mall[i])
                                                FAIL("vps encode touches foreign bits", "cni=%03x pil=%05x byte=%d base=%llu", cnis[a], pils[p], i, (unsigned long long) idx);
                                        n++;
                                }
        }
        /* refusals leave the buffer untouched */
        struct { unsigned cni, pil; int pcs, pty; } bad[] = {
                {0x1000,0,0,0},{0xFFFFFFFF,0,0,0},{0,0x100000,0,0},{0,0xFFFFFFFF,0,0},{0,0,4,0},{0,0,-1,0},{0,0,0,256},{0,0,0,-1},
                {0x1000,0x100000,4,256},
        };
        for (unsigned k = 0; k < sizeof bad / sizeof *bad; k++) {
                vbi_program_id pid; memset(&pid, 0, sizeof pid);
                pid.cni = bad[k].cni; pid.pil = bad[k].pil; pid.pcs_audio = bad[k].pcs; pid.pty = bad[k].pty;
                uint8_t b[13]; memcpy(b, bs, 13);
                if (vbi_encode_vps_pdc(b, &pid)) FAIL("vps encode accepts out of range", "case=%u", k);
                if (memcmp(b, bs, 13)) FAIL("vps encode refusal modified buffer", "case=%u base=%llu", k, (unsigned long long) idx);
                n++;
        }
        uint8_t b[13]; memcpy(b, bs, 13);
        if (vbi_encode_vps_cni(b, 0x1000) || memcmp(b, bs, 13)) FAIL("vps cni encode out of range", "base=%llu", (unsigned long long) idx);
        /* DVB descriptor refusal */
        uint8_t d[5] = { 1, 2, 3, 4, 5 }, d0[5] = { 1, 2, 3, 4, 5 };
        vbi_program_id pid; memset(&pid, 0, sizeof pid); pid.pil = 0x100000;
        if (vbi_encode_dvb_pdc_descriptor(d, &pid) || memcmp(d, d0, 5)) FAIL("dvb pdc encode out of range", "pil=100000");
        mc_count("evaluations", n + 2);
        mc_distinct(0x2000000 + idx);
}

/* ---- phase: DVB PDC descriptor, all 2^20 -------------------------------- */

static void dvb_case(uint64_t chunk, void *arg)
{
        mc_case("dvb pdc descriptor", "chunk=%llu", (unsigned long long) chunk);
        for (unsigned pil = chunk << 12; pil < ((chunk + 1) << 12); pil++) {
                vbi_program_id pid, out; memset(&pid, 0, sizeof pid); pid.pil = pil;
                uint8_t d[5]; memset(d, (pil & 1) ? 0xFF : 0, 5);
                if (!vbi_encode_dvb_pdc_descriptor(d, &pid)) FAIL("dvb pdc encode refuses valid", "pil=%05x", pil);
                if (d[0] != 0x69 || d[1] != 3 || (d[2] >> 4) != 0xF || (((d[2] & 15u) << 16) | (d[3] << 8) | d[4]) != pil)
                        FAIL("dvb pdc encode layout", "pil=%05x", pil);
                memset(&out, 0x5A, sizeof out);
                if (!vbi_decode_dvb_pdc_descriptor(&out, d)) FAIL("dvb pdc decode refuses", "pil=%05x", pil);
                if (out.pil != pil || out.channel != VBI_PID_CHANNEL_PDC_DESCRIPTOR || !out.mi || out.cni || out.luf || out.prf || out.pcs_audio || out.pty)
                        FAIL("dvb pdc decode value", "pil=%05x got %05x", pil, out.pil);
                uint8_t d2[5]; memset(d2, 0, 5);
                if (!vbi_encode_dvb_pdc_descriptor(d2, &out) || memcmp(d, d2, 5)) FAIL("dvb pdc re-encode differs", "pil=%05x", pil);
                /* reserved bits are don't care on input */
                d[2] &= 0x0F; memset(&out, 0x5A, sizeof out);
                if (!vbi_decode_dvb_pdc_descriptor(&out, d) || out.pil != pil) FAIL("dvb pdc decode depends on reserved bits", "pil=%05x", pil);
        }
        /* bad tag / length: refused, untouched */
        for (int t = 0; t < 256; t++) for (int l = 0; l < 8; l++) {
                if (t == 0x69 && l == 3) continue;
                uint8_t d[5] = { t, l, 0x12, 0x34, 0x56 };
                vbi_program_id out, ref; memset(&out, 0x5A, sizeof out); memset(&ref, 0x5A, sizeof ref);
                if (vbi_decode_dvb_pdc_descriptor(&out, d)) FAIL("dvb pdc decode accepts bad tag/length", "tag=%02x len=%d", t, l);
                if (memcmp(&out, &ref, sizeof out)) FAIL("dvb pdc decode refusal modified output", "tag=%02x len=%d", t, l);
        }
        mc_count("evaluations", 4096 + 2047);
        mc_distinct(0x3000000 + chunk);
}

/* ---- 8/30 format 1 ------------------------------------------------------- */

static void ref_8301_base(uint8_t *b)
{
        memset(b, 0x20, 42);
}

static void p8301_cni_case(uint64_t chunk, void *arg)
{
        mc_case("8/30-1 cni", "chunk=%llu", (unsigned long long) chunk);
        for (unsigned cni = chunk << 8; cni < ((chunk + 1) << 8); cni++) {
                uint8_t b[42]; ref_8301_base(b);
                /* 9.8.1: network identification, 16 bits, transmitted msb first (bytes bit reversed) */
                b[9] = ref_rev8(cni >> 8); b[10] = ref_rev8(cni & 0xFF);
                unsigned out = 0xFFFFFFFF;
                if (!vbi_decode_teletext_8301_cni(&out, b) || out != cni) FAIL("8/30-1 cni value", "cni=%04x got %04x", cni, out);
        }
        mc_count("evaluations", 256);
        mc_distinct(0x4000000 + chunk);
}

/* reference: every BCD digit is transmitted incremented by one */
static int ref_digits(unsigned raw, int n, int *d)
{
        for (int i = 0; i < n; i++) {
                int nib = (raw >> (4 * i)) & 15;
                if (nib < 1 || nib > 10) return 0;
                d[i] = nib - 1;
        }
        return 1;
}

static void set_mjd_raw(uint8_t *b, unsigned raw) { b[12] = (b[12] & 0xF0) | ((raw >> 16) & 15); b[13] = raw >> 8; b[14] = raw; }
static void set_utc_raw(uint8_t *b, unsigned raw) { b[15] = raw >> 16; b[16] = raw >> 8; b[17] = raw; }
static unsigned enc_digits(unsigned v, int n) { unsigned r = 0; for (int i = 0; i < n; i++) { r |= ((v % 10) + 1) << (4 * i); v /= 10; } return r; }

/* expected result for (mjd raw, utc raw, lto byte) */
static int ref_8301_time(unsigned mraw, unsigned uraw, unsigned lto, int64_t *t, int *east)
{
        int d[6];
        if (!ref_digits(mraw, 5, d)) return 0;
        int64_t mjd = d[0] + 10 * d[1] + 100 * d[2] + 1000 * d[3] + 10000 * d[4];
        if (!ref_digits(uraw, 6, d)) return 0;
        int s = d[0] + 10 * d[1], m = d[2] + 10 * d[3], h = d[4] + 10 * d[5];
        if (s > 60 || m > 59 || h > 23) return 0;
        *t = (mjd - 40587) * 86400 + h * 3600 + m * 60 + s;
        int off = ((lto >> 1) & 31) * 1800;          /* half hours */
        *east = (lto & 0x40) ? -off : off;
        return 1;
}

static void check_8301(uint8_t *b, unsigned mraw, unsigned uraw, unsigned lto, const char *what)
{
        time_t t = (time_t) 0x5A5A5A5A; int east = 0x5A5A5A5A;
        int64_t et; int eeast;
        int ev = ref_8301_time(mraw, uraw, lto, &et, &eeast);
        int r = vbi_decode_teletext_8301_local_time(&t, &east, b);
        if (!ev) {
                if (r) FAIL("8/30-1 time accepts invalid", "%s mjd=%05x utc=%06x lto=%02x", what, mraw, uraw, lto);
                if (t != (time_t) 0x5A5A5A5A || east != 0x5A5A5A5A) FAIL("8/30-1 time refusal modified output", "%s mjd=%05x utc=%06x", what, mraw, uraw);
        } else {
                if (!r) FAIL("8/30-1 time refuses valid", "%s mjd=%05x utc=%06x lto=%02x", what, mraw, uraw, lto);
                if ((int64_t) t != et || east != eeast) FAIL("8/30-1 time value", "%s mjd=%05x utc=%06x lto=%02x got t=%lld east=%d want %lld %d", what, mraw, uraw, lto, (long long) t, east, (long long) et, eeast);
        }
}

static void p8301_mjd_case(uint64_t chunk, void *arg)
{
        mc_case("8/30-1 mjd", "chunk=%llu", (unsigned long long) chunk);
        static const unsigned utcs[] = { 0x111111 /*00:00:00*/, 0x346A6A /*23:59:59*/, 0x346A71 /*23:59:60*/ };
        for (unsigned raw = chunk << 10; raw < ((chunk + 1) << 10); raw++) {
                uint8_t b[42]; ref_8301_base(b);
                b[12] = (raw & 1) ? 0xF0 : 0x00;         /* upper nibble of byte 12 is not part of the MJD */
                set_mjd_raw(b, raw);
                for (int u = 0; u < 3; u++) {
                        set_utc_raw(b, utcs[u]); b[11] = (raw & 0x7F) ^ (u << 3);
                        check_8301(b, raw, utcs[u], b[11], "mjd sweep");
                }
        }
        mc_count("evaluations", 3 << 10);
        mc_distinct(0x5000000 + chunk);
}

static void p8301_utc_case(uint64_t chunk, void *arg)
{
        mc_case("8/30-1 utc", "chunk=%llu", (unsigned long long) chunk);
        static const unsigned mjds[] = { 40587 /*1970-01-01*/, 51544 /*2000-01-01*/, 0, 99999 };
        for (unsigned raw = chunk << 14; raw < ((chunk + 1) << 14); raw++) {
                uint8_t b[42]; ref_8301_base(b);
                unsigned m = enc_digits(mjds[raw & 3], 5);
                set_mjd_raw(b, m); set_utc_raw(b, raw); b[11] = raw & 0xFF;
                check_8301(b, m, raw, b[11], "utc sweep");
        }
        mc_count("evaluations", 1 << 14);
        mc_distinct(0x6000000 + chunk);
}

static void p8301_lto_case(uint64_t lto, void *arg)
{
        mc_case("8/30-1 lto", "lto=%02x", (unsigned) lto);
        /* all 256 values of the LTO byte (only bits 1..6 are significant), all valid MJD x edge times */
        for (unsigned mjd = 0; mjd < 100000; mjd += 1) {
                uint8_t b[42]; ref_8301_base(b);
                unsigned m = enc_digits(mjd, 5), u = enc_digits((mjd % 24) * 10000 + (mjd % 60) * 100 + (mjd * 7 % 61), 6);
                set_mjd_raw(b, m); set_utc_raw(b, u); b[11] = lto;
                check_8301(b, m, u, lto, "lto sweep");
        }
        mc_count("evaluations", 100000);
        mc_distinct(0x7000000 + lto);
        if (lto == 0x42) mc_sample("8/30-1 lto byte=0x42 (-30 min) x all 100000 MJDs");
}

/* ---- 8/30 format 2 ------------------------------------------------------- */

struct f2 { unsigned lci, luf, prf, pcs, mi, cni, pil, pty, resv; };

/* reference encoder, EN 300 706 9.8.2 / EN 300 231: 13 data bytes D6..D12 split
 * into nibbles, each nibble transmitted Hamming 8/4 coded, bits reversed. */
static void ref_8302_encode(uint8_t *buf, const struct f2 *f)
{
        unsigned B[13];
        memset(buf, 0x15, 42);
        B[6]  = (f->lci << 2) | (f->luf << 1) | f->prf;
        B[7]  = (f->pcs << 6) | (f->mi << 5) | (f->resv << 4) | ((f->cni >> 12) & 15);
        B[8]  = (((f->cni >> 6) & 3) << 6) | ((f->pil >> 14) & 0x3F);
        B[9]  = (f->pil >> 6) & 0xFF;
        B[10] = ((f->pil & 0x3F) << 2) | ((f->cni >> 10) & 3);
        B[11] = (((f->cni >> 8) & 3) << 6) | (f->cni & 0x3F);
        B[12] = f->pty;
        buf[9] = vbi_ham8(ref_rev8(B[6] << 4) & 15);
        for (int i = 7; i <= 12; i++) {
                unsigned r = ref_rev8(B[i]);
                buf[2 * i - 4] = vbi_ham8(r & 15);
                buf[2 * i - 3] = vbi_ham8(r >> 4);
        }
}

static int check_8302(const uint8_t *buf, const struct f2 *f, const char *what)
{
        vbi_program_id out; memset(&out, 0x5A, sizeof out);
        if (!vbi_decode_teletext_8302_pdc(&out, buf)) { mc_violation("8/30-2 decode refuses valid", "%s cni=%04x pil=%05x", what, f->cni, f->pil); return 0; }
        if (out.channel != VBI_PID_CHANNEL_LCI_0 + f->lci || out.cni_type != VBI_CNI_TYPE_8302 || out.cni != f->cni || out.pil != f->pil
            || out.luf != (int) f->luf || out.mi != (int) f->mi || out.prf != (int) f->prf || out.pcs_audio != (int) f->pcs || out.pty != f->pty
            || !pid_is_zero_except(&out)) {
                mc_violation("8/30-2 decode value", "%s want lci=%u luf=%u prf=%u pcs=%u mi=%u cni=%04x pil=%05x pty=%02x got ch=%d luf=%d prf=%d pcs=%d mi=%d cni=%04x pil=%05x pty=%02x",
                        what, f->lci, f->luf, f->prf, f->pcs, f->mi, f->cni, f->pil, f->pty,
                        out.channel, out.luf, out.prf, out.pcs_audio, out.mi, out.cni, out.pil, out.pty);
                return 0;
        }
        unsigned c = 0xFFFFFFFF;
        if (!vbi_decode_teletext_8302_cni(&c, buf) || c != f->cni) { mc_violation("8/30-2 cni value", "%s cni=%04x got %04x", what, f->cni, c); return 0; }
        return 1;
}

static void p8302_pil_case(uint64_t chunk, void *arg)
{
        mc_case("8/30-2 pil x cni", "chunk=%llu", (unsigned long long) chunk);
        static const unsigned cnis[16] = { 0, 0xFFFF, 0x0DC3, 0x1234, 0x8000, 0x0001, 0x5555, 0xAAAA, 0x00C0, 0x0300, 0x0C00, 0xF000, 0x003F, 0x0F0F, 0xF0F0, 0x7FFE };
        for (unsigned pil = chunk << 10; pil < ((chunk + 1) << 10); pil++)
                for (int c = 0; c < 16; c++) {
                        struct f2 f = { (pil >> 2) & 3, (pil >> 4) & 1, pil & 1, (pil >> 7) & 3, (pil >> 9) & 1, cnis[c], pil, (pil * 13 + c) & 0xFF, c & 1 };
                        uint8_t b[42]; ref_8302_encode(b, &f);
                        if (!check_8302(b, &f, "pil x cni")) return;
                }
        mc_count("evaluations", 16 << 10);
        mc_distinct(0x8000000 + chunk);
}

static void p8302_cni_case(uint64_t chunk, void *arg)
{
        mc_case("8/30-2 all cni", "chunk=%llu", (unsigned long long) chunk);
        for (unsigned cni = chunk << 8; cni < ((chunk + 1) << 8); cni++)
                for (int k = 0; k < 2; k++) {
                        struct f2 f = { k ? 3 : 0, k, k, k ? 3 : 0, k, cni, k ? 0xFFFFF : 0, k ? 0xFF : 0, k };
                        uint8_t b[42]; ref_8302_encode(b, &f);
                        if (!check_8302(b, &f, "all cni")) return;
                }
        mc_count("evaluations", 512);
        mc_distinct(0x9000000 + chunk);
}

static void p8302_fields_case(uint64_t idx, void *arg)
{
        /* every value of every small field, others at all-zero / all-one; idx = pty */
        mc_case("8/30-2 fields", "pty=%llu", (unsigned long long) idx);
        uint64_t n = 0;
        for (int k = 0; k < 2; k++)
                for (unsigned lci = 0; lci < 4; lci++) for (unsigned fl = 0; fl < 8; fl++) for (unsigned pcs = 0; pcs < 4; pcs++) for (unsigned rv = 0; rv < 2; rv++) {
                        struct f2 f = { lci, fl & 1, (fl >> 1) & 1, pcs, (fl >> 2) & 1, k ? 0xFFFF : 0, k ? 0xFFFFF : 0, (unsigned) idx, rv };
                        uint8_t b[42]; ref_8302_encode(b, &f);
                        if (!check_8302(b, &f, "fields")) return;
                        n++;
                }
        mc_count("evaluations", n);
        mc_distinct(0xA000000 + idx);
}

static void p8302_biterr_case(uint64_t idx, void *arg)
{
        /* idx selects a base packet; every single bit error in the 13 Hamming bytes
         * decodes identically; every double error inside one byte is refused, output untouched */
        static const struct f2 bases[] = {
                { 0,0,0,0,0, 0x0000, 0x00000, 0x00, 0 }, { 3,1,1,3,1, 0xFFFF, 0xFFFFF, 0xFF, 1 },
                { 1,0,1,2,0, 0x1DC3, 0x5A5A5, 0x3C, 0 }, { 2,1,0,1,1, 0xA5A5, 0x12345, 0x81, 1 },
        };
        const struct f2 *f = &bases[idx % 4];
        mc_case("8/30-2 bit errors", "base=%llu", (unsigned long long) idx);
        uint8_t b[42]; ref_8302_encode(b, f);
        uint64_t n = 0;
        for (int byte = 9; byte <= 21; byte++) {
                for (int bit = 0; bit < 8; bit++) {
                        uint8_t e[42]; memcpy(e, b, 42); e[byte] ^= 1u << bit;
                        if (!check_8302(e, f, "single bit error")) return;
                        n++;
                        for (int bit2 = bit + 1; bit2 < 8; bit2++) {
                                memcpy(e, b, 42); e[byte] ^= (1u << bit) | (1u << bit2);
                                vbi_program_id out, ref; memset(&out, 0x5A, sizeof out); memset(&ref, 0x5A, sizeof ref);
                                if (vbi_decode_teletext_8302_pdc(&out, e)) FAIL("8/30-2 accepts double error", "byte=%d bits=%d,%d", byte, bit, bit2);
                                if (memcmp(&out, &ref, sizeof out)) FAIL("8/30-2 refusal modified output", "byte=%d bits=%d,%d", byte, bit, bit2);
                                /* the CNI only decoder looks at bytes 10..13 and 16..19 */
                                unsigned c = 0x5A5A5A5A;
                                int r = vbi_decode_teletext_8302_cni(&c, e);
                                int in_cni = (byte >= 10 && byte <= 13) || (byte >= 16 && byte <= 19);
                                if (in_cni) { if (r || c != 0x5A5A5A5A) FAIL("8/30-2 cni accepts double error", "byte=%d bits=%d,%d", byte, bit, bit2); }
                                else if (!r || c != f->cni) FAIL("8/30-2 cni damaged by foreign byte", "byte=%d", byte);
                                n++;
                        }
                }
        }
        /* bytes outside 9..21 are not part of the PDC data */
        for (int byte = 0; byte < 42; byte++) {
                if (byte >= 9 && byte <= 21) continue;
                uint8_t e[42]; memcpy(e, b, 42); e[byte] ^= 0xFF;
                if (!check_8302(e, f, "foreign byte inverted")) return;
                n++;
        }
        mc_count("evaluations", n);
        mc_distinct(0xB000000 + idx);
        if (idx == 2) mc_sample("8/30-2 base{lci=1,cni=1DC3,pil=5A5A5}: 104 single-bit + 364 double-bit errors in bytes 9..21");
}

int main(int argc, char **argv)
{
        mc_init(argc, argv, "C12");
        mc_set_budget(300, 1200);
        mc_meta("level", "exploration");
        mc_meta("technique", "bounded-exhaustive enumeration of codec value ranges against an independent bit-layout model");
        mc_meta("rule", "every (CNI,PIL) pair / raw BCD field / Hamming error pattern in the stated range is encoded or built by the reference, decoded by the library and compared; a case is non-trivial when it reaches the codec (all do); distinct counts work units (one CNI, one 1024/4096 value chunk, one base), each covering its whole sub-range");
        mc_meta("assume", "vbi_ham8() forward table is correct (test-hamm covers it exhaustively)");
        mc_meta("assume", "quick tier visits every 8th PIL per CNI (phase rotated by CNI) in the VPS product; thorough visits all 2^32 pairs");
        pil_stride = mc_tier == MC_THOROUGH ? 1 : 8;
        mc_meta("bound", "VPS 4096 CNI x 2^20/%d PIL; DVB all 2^20 PIL; 8/30-1 all 2^16 CNI, all 2^20 raw MJD x 3 times, all 2^24 raw UTC, 256 LTO x 10^5 MJD; 8/30-2 all 2^20 PIL x 16 CNI, all 2^16 CNI, all field values, all single/double bit errors in 13 Hamming bytes", pil_stride);
        mc_pool("vps-cni-pil", 4096, vps_cni_pil_case, NULL, 120);
        mc_pool("vps-untouched", 210, vps_untouched_case, NULL, 20);
        mc_pool("dvb-pdc", 256, dvb_case, NULL, 20);
        mc_pool("8301-cni", 256, p8301_cni_case, NULL, 20);
        mc_pool("8301-mjd", 1024, p8301_mjd_case, NULL, 20);
        mc_pool("8301-utc", 1024, p8301_utc_case, NULL, 20);
        mc_pool("8301-lto", 256, p8301_lto_case, NULL, 20);
        mc_pool("8302-pil-cni", 1024, p8302_pil_case, NULL, 20);
        mc_pool("8302-cni", 256, p8302_cni_case, NULL, 20);
        mc_pool("8302-fields", 256, p8302_fields_case, NULL, 20);
        mc_pool("8302-biterr", 4, p8302_biterr_case, NULL, 20);
        return mc_finish();
}
