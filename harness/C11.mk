# C11: the harness and src/vbi.c (the only code that allocates, frees and walks the
# event handler records) are built with ASan+UBSan; the rest of the library comes from the
# uninstrumented `fast' variant: constructing a fresh vbi_decoder per explored transition
# is 2x cheaper that way and C11 makes no claim about memory safety outside the registry.
# malloc/calloc/free are wrapped by the harness only to recycle the two big per-decoder
# blocks (see the header comment of C11.c); handler records stay ordinary ASan allocations.
HDEPS_C11 := $(B)/fast/libzvbi.a
HLINK_C11 := $(B)/asan/lib/vbi.o $(B)/fast/libzvbi.a -Wl,--wrap=malloc,--wrap=calloc,--wrap=free
