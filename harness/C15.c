/* C15 - IDL format A and Page Format Clear demultiplexers deliver the sent data
 * in order and flag loss.
 *
 * Oracle = sender models written here (EN 300 708 section 6.5 IDL format A packets,
 * section 4 Page Format - Clear pages), the real vbi_idl_demux_feed() /
 * vbi_pfc_demux_feed() as receivers, callback arguments compared with what the
 * sender put in.  Nothing of the library is used by the sender except the
 * Hamming 8/4 forward table vbi_ham8() (trusted: test-hamm covers it); the IDL
 * CRC is an independent bit serial LFSR for x^16+x^9+x^7+x^4+1, LSB first.
 *
 * Enumeration (DESIGN.md C15), flat products in pool cases, fault positions with
 * the E1 explorer (mc_explore, deviation = one dropped/damaged packet or one
 * inserted foreign packet):
 *   idl-runs    FT options 8 x SPA length 0..6 x run value {00,FF} x dummy value x
 *               (data length full/short) x run length x every offset, + two runs
 *   idl-dl      every DL value 0..63 x options x SPA length x payload class
 *   idl-filter  every other channel / designation / format / SPA nibble, every
 *               single and double bit error of every Hamming byte of the header
 *   idl-crc     every single and adjacent double bit error of the CRC covered bytes
 *   idl-loss    5 user packets (repeated 0/1/2 times with RI), each transmission
 *               ok / dropped / CRC damaged / Hamming damaged, <= B faults
 *   idl-init    first delivery on a context whose memory was 00 / FF filled
 *   pfc-size    first block at every BP column x size 0..2047 x filler run x 2nd
 *               block size x payload class x packets per page
 *   pfc-fill    filler runs 0..40 before 2nd and 3rd block x sizes near a packet
 *   pfc-mix     foreign packets (other magazine rows and headers, rows 26..31,
 *               other page / other stream of the magazine) inserted, <= B
 *   pfc-loss    every packet ok / dropped / each Hamming byte class damaged, whole
 *               page dropped (continuity index skipped), <= B faults
 *   pfc-exact   exactly sized 42 byte packet buffers (over-read = ASan abort) and the
 *               same stream through vbi_pfc_demux_feed_frame() with sliced.data[42]
 *               = 0x00 against = filler
 *
 * Deviations from DESIGN.md, forced by the code / the standard's text not being at hand:
 *  - The bulk PFC phases feed packets from a 43 byte buffer whose byte 42 is a
 *    Hamming coded filler: _vbi_pfc_demux_decode() reads buffer[42] when a block ends
 *    in the last byte of a packet; with exact buffers every such case would kill its
 *    worker and hide everything behind it.  pfc-exact shows the over-read itself.
 *  - IDL dummy bytes: the run is counted over the bytes of the user data group of one
 *    packet (dummy bytes included); continuity indicator values 0x00/0xFF directly in
 *    front of an equal run are not compared (the library counts the CI byte - even an
 *    implicit one, even with DL in between - as first byte of the run; whether
 *    EN 300 708 6.5.7.1 does could not be checked) - they are only recorded as outcome.
 *  - DL counts the bytes of the user data group including dummy bytes (library reading);
 *    DL larger than the room in the packet is malformed: only memory safety is demanded.
 *  - RI: bit 7 "will be repeated", bits 0-3 repeat number, all transmissions of a packet
 *    carry the same CI (library reading of 6.5.4).  Demanded: a packet is delivered if its
 *    first transmission arrives intact, or if transmissions 0..k-1 arrive CRC-damaged and
 *    k arrives intact; never twice.
 *  - PFC loss: "discards the damaged block only" is checked in two strengths with
 *    different keys: (lax) nothing but sent blocks is ever delivered; blocks received
 *    completely before the first fault are delivered; blocks are delivered that start in
 *    a page whose header and everything up to the block's end arrived intact and into
 *    which no damaged block reaches (any receiver that resynchronises at page headers
 *    does that); (strict, C15_STRICT_PFC_RESYNC) every block is delivered whose page
 *    header and own packets all arrived intact, i.e. also blocks that follow the damaged
 *    one in the same page.  A key of the lax clauses names the minimal fault pattern
 *    (classes of the faults), the strict clause has one key.  Drop patterns no receiver
 *    can notice when the next packet arrives (it has exactly the expected row number /
 *    continuity index) are skipped and counted.
 *  - Library variant asanx (ASan without UBSan): vbi_unham16p() and the SPA loop of
 *    idl_a_demux_feed() shift -1 to the left on uncorrectable bytes; that is C01's
 *    business and would otherwise abort every Hamming fault case.
 *  - pfc-size / pfc-fill build the context with _vbi_pfc_demux_init() (what
 *    vbi_pfc_demux_new() calls) on a static, 0xBE filled object: a 2 KB malloc per
 *    evaluation drags gigabytes through ASan's quarantine.  All other phases use the
 *    public constructors.
 *  - Zero length PFC blocks may be delivered or skipped.
 */
#include <stdio.h>
#include <stdlib.h>
#include <string.h>
#include <stdint.h>
#include <stdarg.h>
#include "mc.h"
#include "src/hamm.h"
#include "src/idl_demux.h"
#include "src/pfc_demux.h"

static int g_bad;               /* a violation was recorded in the current evaluation */

/* Violations of one evaluation are collected first: the E1 phases drop those that a
 * sub-pattern with one fault less already shows (so that a key names the minimal
 * pattern), and a worker stops writing a key it has written 5 times. */
struct viol { char key[200], det[760]; };
static struct viol pend[6];
static int npend;

static void viol_add(const char *key, const char *fmt, ...) __attribute__((format(printf, 2, 3)));
static void viol_add(const char *key, const char *fmt, ...)
{
        g_bad = 1;
        for (int i = 0; i < npend; i++) if (!strcmp(pend[i].key, key)) return;
        if (npend >= 6) return;
        snprintf(pend[npend].key, sizeof pend[npend].key, "%s", key);
        va_list ap; va_start(ap, fmt); vsnprintf(pend[npend].det, sizeof pend[npend].det, fmt, ap); va_end(ap);
        npend++;
}
#define VIOL(key, ...) viol_add(key, __VA_ARGS__)

static void viol_reset(void) { npend = 0; g_bad = 0; }

static void viol_emit_one(const struct viol *v)
{
        static struct { char key[200]; int n; } seen[64]; static int nseen;
        int i;
        for (i = 0; i < nseen; i++) if (!strcmp(seen[i].key, v->key)) break;
        if (i == nseen) { if (nseen < 64) { strcpy(seen[nseen].key, v->key); seen[nseen].n = 0; nseen++; } else i = 63; }
        if (!mc_replaying && seen[i].n >= 5) { mc_count("violation_reports_suppressed_after_5_per_worker_and_key", 1); return; }
        seen[i].n++;
        mc_violation(v->key, "%s", v->det);
}
static void viol_emit(void)
{
        for (int i = 0; i < npend; i++) viol_emit_one(&pend[i]);
        npend = 0;
}

static void harness_error(const char *what)
{
        fprintf(stderr, "C15 harness self check failed: %s\n", what);
        exit(2);
}

/* exactly sized packet buffer: ASan red zone right after byte 41 */
static uint8_t *exact42;
static const uint8_t *X42(const uint8_t *p)
{
        if (!exact42) exact42 = malloc(42);
        memcpy(exact42, p, 42);
        return exact42;
}

/* two bit errors in a Hamming 8/4 byte: uncorrectable (checked at start) */
static uint8_t ham_double(uint8_t code, unsigned sel)
{
        unsigned b1 = sel % 8, b2 = (b1 + 1 + (sel / 8) % 7) % 8;
        return code ^ (1u << b1) ^ (1u << b2);
}

static void self_check_hamming(void)
{
        for (unsigned v = 0; v < 16; v++) {
                uint8_t c = vbi_ham8(v);
                if (vbi_unham8(c) != (int) v) harness_error("ham8/unham8 round trip");
                for (unsigned b = 0; b < 8; b++)
                        if (vbi_unham8(c ^ (1u << b)) != (int) v) harness_error("single bit error not corrected");
                for (unsigned s = 0; s < 56; s++)
                        if (vbi_unham8(ham_double(c, s)) >= 0) harness_error("double bit error not detected");
        }
}

/* ======================================================================== IDL */

/* ---- reference CRC: x^16 + x^9 + x^7 + x^4 + 1, bits in transmission order (LSB first) */
static unsigned ref_poly;
static uint16_t crc_inv[65536];         /* final register -> the two bytes (lo | hi<<8) that produce it from 0 */

static unsigned ref_crc(unsigned crc, unsigned byte)
{
        for (int j = 0; j < 8; j++) {
                unsigned fb = (crc ^ (byte >> j)) & 1;
                crc >>= 1;
                if (fb) crc ^= ref_poly;
        }
        return crc;
}

static void ref_crc_init(void)
{
        static const int exps[] = { 0, 4, 7, 9 };       /* x^16 is the register length */
        ref_poly = 0;
        for (unsigned i = 0; i < sizeof exps / sizeof *exps; i++) ref_poly |= 1u << (15 - exps[i]);
        static uint8_t seen[65536];
        memset(seen, 0, sizeof seen);
        for (unsigned c = 0; c < 65536; c++) {
                unsigned r = ref_crc(ref_crc(0, c & 0xFF), c >> 8);
                if (seen[r]) harness_error("CRC of two bytes is not a bijection");
                seen[r] = 1; crc_inv[r] = c;
        }
}

enum { O_RI = 1, O_CI = 2, O_DL = 4 };
struct icfg { int chan, opt, spalen; unsigned spa; int dep; };

static int icfg_hdr(const struct icfg *c) { return c->spalen + !!(c->opt & O_RI) + !!(c->opt & O_CI) + !!(c->opt & O_DL); }
static int icfg_cap(const struct icfg *c) { return 36 - icfg_hdr(c); }
static int icfg_crc_start(const struct icfg *c) { return 4 + c->spalen + !!(c->opt & O_RI); }
static const char *opt_name(int opt)
{
        static const char *n[8] = { "none", "RI", "CI", "RI+CI", "DL", "RI+DL", "CI+DL", "RI+CI+DL" };
        return n[opt & 7];
}

/* reference receiver side check: does the packet pass its CRC; which CI does it carry */
static int ref_crc_ok(const uint8_t p[42], const struct icfg *c, unsigned *ci)
{
        unsigned r = 0;
        for (int j = icfg_crc_start(c); j < 42; j++) r = ref_crc(r, p[j]);
        if (c->opt & O_CI) { *ci = p[icfg_crc_start(c)]; return r == 0; }
        *ci = r & 0xFF;
        return (r >> 8) == (r & 0xFF);
}

/* area: the icfg_cap() bytes of the user data group (stuffed data, then padding) */
static void idl_build(uint8_t p[42], const struct icfg *c, unsigned ri, unsigned ci, unsigned dlbyte, const uint8_t *area)
{
        p[0] = vbi_ham8(c->chan);               /* magazine + lsb of the packet number = data channel */
        p[1] = vbi_ham8(15);                    /* packet 30 / 31 */
        p[2] = vbi_ham8(((c->opt & O_RI) ? 2 : 0) | ((c->opt & O_CI) ? 4 : 0) | ((c->opt & O_DL) ? 8 : 0)); /* FT, bit 0 = 0: format A */
        p[3] = vbi_ham8(c->spalen | (c->dep ? 8 : 0));  /* IAL */
        for (int i = 0; i < c->spalen; i++) p[4 + i] = vbi_ham8((c->spa >> (4 * i)) & 15);
        int k = 4 + c->spalen;
        if (c->opt & O_RI) p[k++] = ri;
        int s = k;
        if (c->opt & O_CI) p[k++] = ci;
        if (c->opt & O_DL) p[k++] = dlbyte;
        memcpy(p + k, area, 40 - k);
        unsigned r = 0;
        for (int j = s; j < 40; j++) r = ref_crc(r, p[j]);
        unsigned r00 = ref_crc(ref_crc(r, 0), 0);
        unsigned target = (c->opt & O_CI) ? 0 : (ci & 0xFF) * 0x0101u;   /* implicit CI: both check bytes equal CI */
        unsigned cc = crc_inv[target ^ r00];
        p[40] = cc & 0xFF; p[41] = cc >> 8;
        unsigned chk;
        if (!ref_crc_ok(p, c, &chk) || chk != (ci & 0xFF)) harness_error("IDL sender CRC");
}

/* 6.5.7.1: after 8 consecutive bytes 0x00 or 0xFF the sender inserts a dummy byte.
 * Copies user bytes u[0..nu) into area[0..limit); returns the number of user bytes
 * placed, *used = area bytes used.  dmode 0: dummy 0xAA, 1: complement of the run. */
static int idl_stuff(uint8_t *area, int limit, const uint8_t *u, int nu, int dmode, int *used, int *ndummy)
{
        int pos = 0, k = 0, run = 0, last = -1;
        *ndummy = 0;
        while (pos < limit && k < nu) {
                uint8_t b = u[k++];
                area[pos++] = b;
                if (b == last) run++; else { last = b; run = 1; }
                if ((b == 0x00 || b == 0xFF) && run == 8 && pos < limit) {
                        uint8_t d = dmode ? (uint8_t) ~b : 0xAA;
                        area[pos++] = d; last = d; run = 1; (*ndummy)++;
                }
        }
        *used = pos;
        return k;
}

struct irec { int n, overflow; struct { uint8_t b[48]; unsigned nb, flags; } d[40]; };

static vbi_bool idl_cb(vbi_idl_demux *dx, const uint8_t *buf, unsigned n, unsigned flags, void *ud)
{
        struct irec *r = ud;
        if (r->n >= 40 || n > 48) { r->overflow = 1; return 1; }
        memcpy(r->d[r->n].b, buf, n);
        r->d[r->n].nb = n; r->d[r->n].flags = flags;
        r->n++;
        return 1;
}

enum { IK_OK, IK_CRC, IK_HAM, IK_FOREIGN, IK_MALFORMED };
struct itx { uint8_t p[42]; int kind, logical, rep, drop, nexp; uint8_t exp[40]; const char *note; };

static const char *ik_name(const struct itx *t)
{
        static const char *n[] = { "ok", "crc", "ham", "foreign", "malformed" };
        return t->drop ? "drop" : n[t->kind];
}

static void itx_describe(const struct itx *tx, int ntx, char *out, size_t len)
{
        size_t o = 0; out[0] = 0;
        for (int t = 0; t < ntx && o + 24 < len; t++) {
                if (tx[t].kind == IK_FOREIGN) o += snprintf(out + o, len - o, "f ");
                else o += snprintf(out + o, len - o, "%d.%d:%s ", tx[t].logical, tx[t].rep, ik_name(&tx[t]));
        }
}

static void hex(const uint8_t *b, int n, char *out, size_t len)
{
        size_t o = 0; out[0] = 0;
        for (int i = 0; i < n && o + 4 < len; i++) o += snprintf(out + o, len - o, "%02x", b[i]);
}

/* Feeds the transmissions to a fresh demultiplexer and audits every call.
 * ctx names the input class (part of the key), init_fill >= 0 builds the context with
 * _vbi_idl_demux_init() on memory filled with that byte instead of the public constructor. */
static void idl_eval(const struct icfg *c, const struct itx *tx, int ntx, const char *ctx, const char *desc, int init_fill)
{
        char key[200], seq[400], h1[100], h2[100];
        struct irec rec; memset(&rec, 0, sizeof rec);
        int deliv_of[64];                       /* logical -> index of its delivery, -1 */
        int dlog[40], dflags[40], ndel = 0;     /* delivery -> logical, flags */
        int first_delivery_after_loss = 0, selected_fed = 0;
        for (int i = 0; i < 64; i++) deliv_of[i] = -1;
        vbi_idl_demux *dx;
        if (init_fill >= 0) {
                dx = malloc(sizeof *dx);
                memset(dx, init_fill, sizeof *dx);
                if (!_vbi_idl_demux_init(dx, _VBI_IDL_FORMAT_A, c->chan, c->spa, idl_cb, &rec)) harness_error("_vbi_idl_demux_init");
        } else {
                dx = vbi_idl_a_demux_new(c->chan, c->spa, idl_cb, &rec);
                if (!dx) harness_error("vbi_idl_a_demux_new");
        }
        itx_describe(tx, ntx, seq, sizeof seq);
        for (int t = 0; t < ntx; t++) {
                const struct itx *x = &tx[t];
                if (x->drop) continue;
                int before = rec.n;
                vbi_bool ret = vbi_idl_demux_feed(dx, X42(x->p));
                int calls = rec.n - before;
                if (rec.overflow) { VIOL("idl callback with more than 48 bytes", "%s %s [%s]", ctx, desc, seq); break; }
                switch (x->kind) {
                case IK_FOREIGN:
                        if (calls) VIOL("idl delivery from a packet of another channel/address/format", "%s: %s; %s [%s] tx=%d", ctx, x->note ? x->note : "", desc, seq, t);
                        else if (!ret) VIOL("idl feed() FALSE for an intact foreign packet", "%s: %s; %s [%s] tx=%d", ctx, x->note ? x->note : "", desc, seq, t);
                        break;
                case IK_CRC:
                        selected_fed++;
                        if (calls) VIOL("idl delivery from a packet failing its CRC", "%s %s [%s] tx=%d", ctx, desc, seq, t);
                        else if (ret) VIOL("idl feed() TRUE for a packet failing its CRC", "%s %s [%s] tx=%d", ctx, desc, seq, t);
                        break;
                case IK_HAM:
                        selected_fed++;
                        if (calls) VIOL("idl delivery from a packet failing its Hamming check", "%s: %s; %s [%s] tx=%d", ctx, x->note ? x->note : "", desc, seq, t);
                        else if (ret) VIOL("idl feed() TRUE for a packet failing its Hamming check", "%s: %s; %s [%s] tx=%d", ctx, x->note ? x->note : "", desc, seq, t);
                        break;
                case IK_MALFORMED:              /* memory safety only */
                        break;
                case IK_OK:
                        if (calls > 1) { VIOL("idl more than one delivery from one packet", "%s %s [%s] tx=%d", ctx, desc, seq, t); break; }
                        if (!ret) VIOL("idl feed() FALSE for an intact packet", "%s %s [%s] tx=%d", ctx, desc, seq, t);
                        if (calls == 1) {
                                if (rec.d[before].nb != (unsigned) x->nexp || memcmp(rec.d[before].b, x->exp, x->nexp)) {
                                        hex(x->exp, x->nexp, h1, sizeof h1); hex(rec.d[before].b, rec.d[before].nb, h2, sizeof h2);
                                        snprintf(key, sizeof key, "idl delivered bytes differ from the sent user data [%s]", ctx);
                                        VIOL(key, "%s: sent %d bytes %s, delivered %u bytes %s", desc, x->nexp, h1, rec.d[before].nb, h2);
                                }
                                if (deliv_of[x->logical] >= 0)
                                        VIOL("idl repeated packet delivered twice", "%s %s [%s] tx=%d is repeat %d of user packet %d, delivered before", ctx, desc, seq, t, x->rep, x->logical);
                                if (ndel == 0 && selected_fed > 0) first_delivery_after_loss = 1;
                                deliv_of[x->logical] = ndel; dflags[ndel] = rec.d[before].flags; dlog[ndel++] = x->logical;
                                mc_count("idl_packets_delivered", 1);
                        }
                        selected_fed++;
                        break;
                }
                if (g_bad) break;
        }
        if (!g_bad) {
                /* packets that must have been delivered */
                int nlog = 0;
                for (int t = 0; t < ntx; t++) if (tx[t].kind != IK_FOREIGN && tx[t].kind != IK_MALFORMED && tx[t].logical + 1 > nlog) nlog = tx[t].logical + 1;
                for (int l = 0; l < nlog && !g_bad; l++) {
                        int must = 0;
                        for (int t = 0; t < ntx; t++) {
                                if (tx[t].kind == IK_FOREIGN || tx[t].kind == IK_MALFORMED || tx[t].logical != l) continue;
                                if (!tx[t].drop && tx[t].kind == IK_OK) { must = 1; break; }
                                if (!tx[t].drop && tx[t].kind == IK_CRC) continue;     /* the receiver waits for the repeat */
                                break;
                        }
                        if (must && deliv_of[l] < 0) {
                                snprintf(key, sizeof key, "idl intact packet not delivered [%s]", ctx);
                                VIOL(key, "%s [%s] user packet %d", desc, seq, l);
                        }
                }
                /* the data-lost flag */
                for (int i = 0; i < ndel && !g_bad; i++) {
                        int flagged = !!(dflags[i] & VBI_IDL_DATA_LOST);
                        if (i == 0) {
                                if (flagged && !first_delivery_after_loss)
                                        VIOL("idl VBI_IDL_DATA_LOST on the very first packet", "%s %s [%s] flags=%#x%s", ctx, desc, seq, dflags[i],
                                             init_fill >= 0 ? " (context memory pre-filled, dx->flags is never initialised)" : "");
                                continue;
                        }
                        int gap = dlog[i] != dlog[i - 1] + 1;
                        if (gap && !flagged)
                                VIOL("idl continuity gap not flagged with VBI_IDL_DATA_LOST", "%s %s [%s]: delivery of user packet %d follows delivery of %d, flags=%#x", ctx, desc, seq, dlog[i], dlog[i - 1], dflags[i]);
                        else if (!gap && flagged) {
                                /* cause class from the sender side alone: the recorded finding needs a repeated transmission (RI) in the stream */
                                int any_rep = 0; for (int t = 0; t < ntx; t++) if (tx[t].rep > 0) any_rep = 1;
                                VIOL(any_rep ? "idl VBI_IDL_DATA_LOST without a continuity gap" : "idl VBI_IDL_DATA_LOST without a continuity gap [no repeated transmission in the stream]",
                                     "%s %s [%s]: delivery of user packet %d directly follows %d, flags=%#x", ctx, desc, seq, dlog[i], dlog[i - 1], dflags[i]);
                        }
                }
                if (ndel > 0) mc_outcome("idl flags: DATA_LOST %s, bits outside DATA_LOST|DEPENDENT %s",
                        (dflags[ndel - 1] & VBI_IDL_DATA_LOST) ? "set" : "clear",
                        (dflags[ndel - 1] & ~(VBI_IDL_DATA_LOST | VBI_IDL_DEPENDENT)) ? "set (garbage)" : "clear");
        }
        if (init_fill >= 0) { _vbi_idl_demux_destroy(dx); free(dx); } else vbi_idl_demux_delete(dx);
}

/* non run byte pattern: never 0x00/0xFF, neighbours differ */
static uint8_t pat(int j, int salt) { return 0x21 + (uint8_t)((j * 5 + salt * 17) % 0x5B); }

/* builds one ordinary, intact transmission of user packet `logical' */
static void itx_plain(struct itx *x, const struct icfg *c, int logical, int rep, int nrep, unsigned ci, int len)
{
        uint8_t area[40], u[40]; int used, nd;
        int cap = icfg_cap(c);
        memset(x, 0, sizeof *x);
        if (!(c->opt & O_DL) || len > cap) len = cap;
        for (int j = 0; j < len; j++) u[j] = pat(j, logical * 3 + 1);
        memset(area, 0x55, sizeof area);
        idl_stuff(area, len, u, len, 0, &used, &nd);
        idl_build(x->p, c, (rep & 15) | (rep < nrep ? 0x80 : 0), ci, used, area);
        x->kind = IK_OK; x->logical = logical; x->rep = rep;
        x->nexp = len; memcpy(x->exp, u, len);
}

/* ---- phase idl-runs ------------------------------------------------------ */

static void idl_run_scenario(const struct icfg *c, const uint8_t *u, int limit, int dmode, const char *ctx, const char *desc)
{
        struct itx tx[3];
        uint8_t area[40]; int used, nd;
        unsigned ci0 = 0x20;
        itx_plain(&tx[0], c, 0, 0, 0, ci0, 36);
        memset(&tx[1], 0, sizeof tx[1]);
        memset(area, 0x55, sizeof area);
        int k = idl_stuff(area, limit, u, 48, dmode, &used, &nd);
        idl_build(tx[1].p, c, 0, ci0 + 1, used, area);
        tx[1].kind = IK_OK; tx[1].logical = 1; tx[1].nexp = k; memcpy(tx[1].exp, u, k);
        itx_plain(&tx[2], c, 2, 0, 0, ci0 + 2, 36);
        viol_reset();
        idl_eval(c, tx, 3, ctx, desc, -1);
        viol_emit();
        mc_count("evaluations", 1);
        if (nd) mc_count("idl_packets_with_dummy_byte", 1);
        if (nd && used == limit && area[limit - 1] != 0x00 && area[limit - 1] != 0xFF && (area[limit - 2] == 0x00 || area[limit - 2] == 0xFF))
                mc_count("idl_dummy_byte_is_last_byte_of_group", 1);
}

static void idl_runs_case(uint64_t idx, void *arg)
{
        struct icfg c; memset(&c, 0, sizeof c);
        c.opt = idx & 7; c.spalen = (idx >> 3) % 7;
        int v = ((idx / 56) & 1) ? 0xFF : 0x00, dmode = (idx / 112) & 1;
        c.chan = 5; c.spa = 0xA5C3E7u & ((1u << (4 * c.spalen)) - 1); c.dep = c.spalen & 1;
        int cap = icfg_cap(&c);
        int limits[4], nl = 0;
        limits[nl++] = cap;
        if (c.opt & O_DL) { limits[nl++] = cap - 3; limits[nl++] = 9; limits[nl++] = 8; }
        char desc[200];
        mc_case("idl dummy byte runs", "opt=%s spalen=%d run=%02x dummy=%s", opt_name(c.opt), c.spalen, v, dmode ? "complement" : "AA");
        for (int li = 0; li < nl; li++) {
                int L = limits[li];
                /* one run of k bytes at offset o */
                for (int k = 1; k <= L; k++)
                        for (int o = 0; o + k <= L; o++) {
                                uint8_t u[48];
                                for (int j = 0; j < 48; j++) u[j] = (j >= o && j < o + k) ? v : pat(j, 0);
                                snprintf(desc, sizeof desc, "opt=%s spalen=%d group=%d bytes: %d x %02x at offset %d, dummy %s", opt_name(c.opt), c.spalen, L, k, v, o, dmode ? "complement" : "AA");
                                idl_run_scenario(&c, u, L, dmode, "dummy byte after 8 equal bytes", desc);
                               
                        }
                /* two runs: k1 bytes v, gap, k2 bytes v2 */
                static const int k1s[] = { 7, 8, 9, 15, 16, 17, 24 }, k2s[] = { 1, 7, 8, 9 };
                for (unsigned a = 0; a < 7; a++) for (unsigned b = 0; b < 4; b++) for (int gap = 0; gap < 3; gap++) for (int same = 0; same < 2; same++) {
                        int k1 = k1s[a], k2 = k2s[b], v2 = same ? v : (v ^ 0xFF);
                        if (gap == 0 && same) continue;        /* that is one run */
                        for (int o = 0; o + k1 + gap + k2 <= L; o++) {
                                uint8_t u[48];
                                for (int j = 0; j < 48; j++) u[j] = pat(j, 1);
                                memset(u + o, v, k1); memset(u + o + k1 + gap, v2, k2);
                                snprintf(desc, sizeof desc, "opt=%s spalen=%d group=%d bytes: %d x %02x at %d, gap %d, %d x %02x, dummy %s", opt_name(c.opt), c.spalen, L, k1, v, o, gap, k2, v2, dmode ? "complement" : "AA");
                                idl_run_scenario(&c, u, L, dmode, "dummy byte after 8 equal bytes", desc);
                               
                        }
                }
        }
        mc_distinct(0x15000000u + idx);
        if (idx == 0x2A) mc_sample("idl-runs case: opt=%s spalen=%d: every run length 1..%d of %02x at every offset of the %d byte user data group, P(plain) P(run) P(plain)", opt_name(c.opt), c.spalen, cap, v, cap);
}

/* ---- phase idl-dl -------------------------------------------------------- */

static void idl_dl_case(uint64_t idx, void *arg)
{
        struct icfg c; memset(&c, 0, sizeof c);
        c.opt = O_DL | (idx & 3); c.spalen = (idx >> 2) % 7;
        c.chan = 9; c.spa = 0x1B2D4Fu & ((1u << (4 * c.spalen)) - 1);
        int cap = icfg_cap(&c);
        char desc[200];
        mc_case("idl data length option", "opt=%s spalen=%d", opt_name(c.opt), c.spalen);
        for (int dl = 0; dl < 64; dl++)
                for (int cls = 0; cls < 3; cls++) for (int resv = 0; resv < 2; resv++) {
                        struct itx tx[3]; uint8_t u[48], area[40]; int used, nd;
                        for (int j = 0; j < 48; j++) u[j] = cls == 0 ? pat(j, dl) : cls == 1 ? 0x00 : 0xFF;
                        itx_plain(&tx[0], &c, 0, 0, 0, 0x31, 36);
                        memset(&tx[1], 0, sizeof tx[1]);
                        memset(area, cls == 1 ? 0x00 : 0x55, sizeof area);      /* padding behind the DL bytes */
                        int L = dl < cap ? dl : cap;
                        int k = idl_stuff(area, L, u, 48, 0, &used, &nd);
                        /* the two upper bits of the DL byte are not part of the 6 bit length */
                        idl_build(tx[1].p, &c, 0, 0x32, (dl <= cap ? used : dl) | (resv ? 0xC0 : 0), area);
                        tx[1].kind = dl <= cap ? IK_OK : IK_MALFORMED; tx[1].logical = 1; tx[1].nexp = k; memcpy(tx[1].exp, u, k);
                        itx_plain(&tx[2], &c, 2, 0, 0, 0x33, 36);
                        snprintf(desc, sizeof desc, "opt=%s spalen=%d DL=%d (room %d) payload class %d reserved bits %d", opt_name(c.opt), c.spalen, dl, cap, cls, resv);
                        viol_reset();
                        if (dl > cap) {
                                /* malformed: later packets are not compared either (what was delivered is undefined) */
                                tx[2].kind = IK_MALFORMED;
                                mc_count("idl_dl_beyond_packet", 1);
                        }
                        idl_eval(&c, tx, 3, "data length option", desc, -1);
                        viol_emit();
                        mc_count("evaluations", 1);
                       
                }
        mc_distinct(0x15100000u + idx);
}

/* ---- phase idl-filter ---------------------------------------------------- */

static void idl_filter_eval(const struct icfg *c, struct itx *mid, const char *ctx, const char *desc)
{
        struct itx tx[3];
        int mine = mid->kind != IK_FOREIGN;
        itx_plain(&tx[0], c, 0, 0, 0, 0x41, 36);
        tx[1] = *mid;
        itx_plain(&tx[2], c, mine ? 2 : 1, 0, 0, mine ? 0x43 : 0x42, 36);
        viol_reset();
        idl_eval(c, tx, 3, ctx, desc, -1);
        viol_emit();
        mc_count("evaluations", 1);
}

static void idl_filter_case(uint64_t idx, void *arg)
{
        struct icfg c; memset(&c, 0, sizeof c);
        c.opt = idx & 7; c.spalen = (idx >> 3) % 7; c.chan = (idx * 5 + 3) & 15;
        c.spa = 0xA5C3E7u & ((1u << (4 * c.spalen)) - 1); c.dep = (idx >> 1) & 1;
        char desc[200]; struct itx m;
        mc_case("idl packet filter", "opt=%s spalen=%d chan=%d", opt_name(c.opt), c.spalen, c.chan);
        /* other channels */
        for (int ch = 0; ch < 16; ch++) {
                if (ch == c.chan) continue;
                struct icfg f = c; f.chan = ch;
                itx_plain(&m, &f, 1, 0, 0, 0x42, 36); m.kind = IK_FOREIGN; m.note = "other data channel";
                snprintf(desc, sizeof desc, "opt=%s spalen=%d chan=%d, packet on channel %d", opt_name(c.opt), c.spalen, c.chan, ch);
                idl_filter_eval(&c, &m, "filter", desc);
        }
        /* ordinary Teletext rows of the same magazine */
        for (int des = 0; des < 15; des++) {
                itx_plain(&m, &c, 1, 0, 0, 0x42, 36); m.p[1] = vbi_ham8(des); m.kind = IK_FOREIGN; m.note = "not packet 30/31";
                snprintf(desc, sizeof desc, "opt=%s spalen=%d: packet number high bits %d", opt_name(c.opt), c.spalen, des);
                idl_filter_eval(&c, &m, "filter", desc);
        }
        /* format B */
        for (int ft = 1; ft < 16; ft += 2) {
                itx_plain(&m, &c, 1, 0, 0, 0x42, 36); m.p[2] = vbi_ham8(ft); m.kind = IK_FOREIGN; m.note = "format type bit 0 set (not format A)";
                snprintf(desc, sizeof desc, "opt=%s spalen=%d: FT=%d", opt_name(c.opt), c.spalen, ft);
                idl_filter_eval(&c, &m, "filter", desc);
        }
        /* reserved address length 7 */
        itx_plain(&m, &c, 1, 0, 0, 0x42, 36); m.p[3] = vbi_ham8(7 | (c.dep ? 8 : 0)); m.kind = IK_FOREIGN; m.note = "address length 7 (reserved)";
        snprintf(desc, sizeof desc, "opt=%s spalen=%d: IAL=7", opt_name(c.opt), c.spalen);
        idl_filter_eval(&c, &m, "filter", desc);
        /* other addresses of the same length */
        for (int nib = 0; nib < c.spalen; nib++) for (int x = 1; x < 16; x++) {
                struct icfg f = c; f.spa = c.spa ^ ((unsigned) x << (4 * nib));
                itx_plain(&m, &f, 1, 0, 0, 0x42, 36); m.kind = IK_FOREIGN; m.note = "other service packet address";
                snprintf(desc, sizeof desc, "opt=%s spalen=%d address %x, packet for %x", opt_name(c.opt), c.spalen, c.spa, f.spa);
                idl_filter_eval(&c, &m, "filter", desc);
        }
        /* longer address with a non zero extra nibble */
        if (c.spalen < 6) for (int x = 1; x < 16; x++) {
                struct icfg f = c; f.spalen = c.spalen + 1; f.spa = c.spa | ((unsigned) x << (4 * c.spalen));
                itx_plain(&m, &f, 1, 0, 0, 0x42, 36); m.kind = IK_FOREIGN; m.note = "longer service packet address";
                snprintf(desc, sizeof desc, "opt=%s spalen=%d address %x, packet for %x (length %d)", opt_name(c.opt), c.spalen, c.spa, f.spa, f.spalen);
                idl_filter_eval(&c, &m, "filter", desc);
        }
        /* Hamming protected header bytes: one bit error is corrected, two are not */
        int nh = 4 + c.spalen;
        for (int byte = 0; byte < nh; byte++) {
                for (int bit = 0; bit < 8; bit++) {
                        itx_plain(&m, &c, 1, 0, 0, 0x42, 36); m.p[byte] ^= 1u << bit;
                        snprintf(desc, sizeof desc, "opt=%s spalen=%d: one bit error, byte %d bit %d", opt_name(c.opt), c.spalen, byte, bit);
                        idl_filter_eval(&c, &m, "single bit error in a Hamming byte", desc);
                }
                for (unsigned s = 0; s < 56; s++) {
                        itx_plain(&m, &c, 1, 0, 0, 0x42, 36); m.p[byte] = ham_double(m.p[byte], s); m.kind = IK_HAM;
                        m.note = byte == 0 ? "channel byte" : byte == 1 ? "packet number byte" : byte == 2 ? "FT byte" : byte == 3 ? "IAL byte" : "SPA byte";
                        snprintf(desc, sizeof desc, "opt=%s spalen=%d: two bit errors in byte %d (pattern %u)", opt_name(c.opt), c.spalen, byte, s);
                        idl_filter_eval(&c, &m, "filter", desc);
                }
        }
        mc_distinct(0x15200000u + idx);
}

/* ---- phase idl-crc ------------------------------------------------------- */

static void idl_crc_case(uint64_t idx, void *arg)
{
        struct icfg c; memset(&c, 0, sizeof c);
        c.opt = idx & 7; c.spalen = ((idx >> 3) % 3) * 3; c.chan = 2;
        c.spa = 0x7E1D39u & ((1u << (4 * c.spalen)) - 1);
        int s = icfg_crc_start(&c), nbits = (42 - s) * 8;
        char desc[200];
        mc_case("idl CRC damage", "opt=%s spalen=%d", opt_name(c.opt), c.spalen);
        for (int two = 0; two < 2; two++)
                for (int b = 0; b + two < nbits; b++) {
                        struct itx tx[3]; unsigned ci;
                        itx_plain(&tx[0], &c, 0, 0, 0, 0xFE, 36);
                        itx_plain(&tx[1], &c, 1, 0, 0, 0xFF, 36);
                        itx_plain(&tx[2], &c, 2, 0, 0, 0x00, 36);       /* CI wraps */
                        tx[1].p[s + b / 8] ^= 1u << (b % 8);
                        if (two) tx[1].p[s + (b + 1) / 8] ^= 1u << ((b + 1) % 8);
                        if (ref_crc_ok(tx[1].p, &c, &ci)) {
                                /* implicit CI: the damaged packet still has two equal check bytes - no receiver can tell */
                                mc_count("idl_damage_passing_implicit_ci_check_skipped", 1);
                                continue;
                        }
                        tx[1].kind = IK_CRC;
                        snprintf(desc, sizeof desc, "opt=%s spalen=%d: bit %d%s of the CRC covered bytes (byte %d) inverted", opt_name(c.opt), c.spalen, b, two ? " and the next" : "", s + b / 8);
                        viol_reset();
                        idl_eval(&c, tx, 3, "crc", desc, -1);
                        viol_emit();
                        mc_count("evaluations", 1);
                       
                }
        mc_distinct(0x15300000u + idx);
}

/* ---- phase idl-loss (E1) -------------------------------------------------- */

struct loss_arg { struct icfg c; unsigned ci0; };

/* fv[k]: fault of the k-th transmission (0 ok, 1 dropped, 2 CRC damaged, 3 Hamming damaged) */
static int idl_loss_build(const struct loss_arg *a, const int *fv, struct itx *tx)
{
        const struct icfg *c = &a->c;
        static const int reps[5] = { 0, 1, 2, 1, 0 };
        int n = 0, sel = 0;
        for (int l = 0; l < 5; l++) {
                int r = (c->opt & O_RI) ? reps[l] : 0;
                for (int t = 0; t <= r; t++, sel++) {
                        struct itx *x = &tx[n++];
                        itx_plain(x, c, l, t, r, a->ci0 + l, 36 - 2 * l);
                        int f = fv[sel];
                        if (f == 1) x->drop = 1;
                        else if (f == 2) {
                                int s = icfg_crc_start(c), nbits = (42 - s) * 8; unsigned ci;
                                for (int b = (sel * 53 + 7) % nbits;; b = (b + 1) % nbits) {
                                        x->p[s + b / 8] ^= 1u << (b % 8);
                                        if (!ref_crc_ok(x->p, c, &ci)) break;
                                        x->p[s + b / 8] ^= 1u << (b % 8);
                                }
                                x->kind = IK_CRC;
                        } else if (f == 3) {
                                int byte = sel % (4 + c->spalen);
                                x->p[byte] = ham_double(x->p[byte], sel * 11 + 3);
                                x->kind = IK_HAM; x->note = "header byte";
                        }
                }
                /* unrelated packets in between */
                struct icfg f = *c; struct itx *x = &tx[n++];
                switch (l % 4) {
                case 0: f.chan = (c->chan + 1) & 15; itx_plain(x, &f, 60, 0, 0, a->ci0 + l, 36); x->note = "other data channel"; break;
                case 1: if (c->spalen) f.spa ^= 1; else { f.spalen = 1; f.spa = 9; }
                        itx_plain(x, &f, 60, 0, 0, a->ci0 + l + 1, 36); x->note = "other service packet address"; break;
                case 2: itx_plain(x, c, 60, 0, 0, a->ci0 + l + 1, 36); x->p[1] = vbi_ham8(l); x->note = "not packet 30/31"; break;
                default: itx_plain(x, c, 60, 0, 0, a->ci0 + l + 1, 36); x->p[2] = vbi_ham8(1); x->note = "format B"; break;
                }
                x->kind = IK_FOREIGN;
        }
        return n;
}

static void idl_loss_eval(const struct loss_arg *a, const int *fv)
{
        struct itx tx[32]; char desc[160];
        int n = idl_loss_build(a, fv, tx);
        snprintf(desc, sizeof desc, "opt=%s spalen=%d first CI %02x, 5 user packets%s", opt_name(a->c.opt), a->c.spalen, a->ci0, (a->c.opt & O_RI) ? " sent 1,2,3,2,1 times" : "");
        viol_reset();
        idl_eval(&a->c, tx, n, "loss", desc, -1);
}

static void idl_loss_body(void *argp)
{
        const struct loss_arg *a = argp;
        int fv[16], nsel = (a->c.opt & O_RI) ? 9 : 5, nf = 0;
        for (int k = 0; k < nsel; k++) { fv[k] = mc_choose(4); nf += fv[k] != 0; }
        idl_loss_eval(a, fv);
        mc_count("evaluations", 1);
        if (nf <= 3) {
                mc_hash h; mc_hash_init(&h);
                mc_hash_add(&h, fv, nsel * sizeof fv[0]);
                mc_hash_u64(&h, a->c.opt * 100 + a->c.spalen); mc_hash_u64(&h, a->ci0);
                mc_distinct(h.a);
        } else mc_count("idl_loss_patterns_with_more_than_3_faults", 1);
        if (npend && nf >= 2) {
                /* report only if no pattern with one fault less shows the same key */
                struct viol mine[6]; int nm = npend, keep[6];
                memcpy(mine, pend, sizeof mine);
                for (int i = 0; i < nm; i++) keep[i] = 1;
                for (int k = 0; k < nsel; k++) {
                        if (!fv[k]) continue;
                        int sv = fv[k]; fv[k] = 0;
                        idl_loss_eval(a, fv);
                        for (int i = 0; i < nm; i++) for (int j = 0; j < npend; j++) if (!strcmp(mine[i].key, pend[j].key)) keep[i] = 0;
                        fv[k] = sv;
                }
                npend = 0;
                for (int i = 0; i < nm; i++) if (keep[i]) viol_emit_one(&mine[i]); else mc_count("violations_subsumed_by_smaller_pattern", 1);
        } else viol_emit();
}

static int idl_loss_bound;

static void idl_loss_case(uint64_t idx, void *arg)
{
        static const int spalens[3] = { 0, 2, 6 };
        struct loss_arg a; memset(&a, 0, sizeof a);
        int shard = idx % 4; idx /= 4;
        a.c.opt = idx & 7; a.c.spalen = spalens[(idx >> 3) % 3]; a.c.chan = 12;
        a.c.spa = 0xC0FFEEu & ((1u << (4 * a.c.spalen)) - 1);
        a.ci0 = (idx / 24) ? 0xFD : 0x20;
        mc_case("idl loss patterns", "opt=%s spalen=%d ci0=%02x", opt_name(a.c.opt), a.c.spalen, a.ci0);
        mc_explore_shard(idl_loss_body, &a, idl_loss_bound, shard, 4);
        if (idx == 3 && shard == 0) mc_sample("idl-loss: opt=RI+CI, 5 user packets sent 1,2,3,2,1 times, each of the 9 transmissions ok/dropped/CRC damaged/Hamming damaged, <= %d faults, foreign packets in between", idl_loss_bound);
}

/* ---- phase idl-dropout: long reception gaps -------------------------------- */

/* Two packets, a dropout of g user packets (nothing of the channel is received, the sender's continuity index goes
 * on), three more packets.  Every received packet is intact, so every one must be delivered with its own bytes; the
 * first one after the dropout carries VBI_IDL_DATA_LOST whenever the continuity index shows the gap (g not a
 * multiple of 256), the others never.  g sweeps the values around the wrap of the 8 bit index: 255 lost packets make
 * the next index EQUAL to the last delivered one, 256 hide the gap completely. */
static const int DROPOUTS[] = { 1, 2, 3, 15, 16, 17, 127, 128, 129, 253, 254, 255, 256, 257, 258, 509, 510, 511, 512, 513, 767, 768 };
#define NDROPOUTS ((int)(sizeof DROPOUTS / sizeof *DROPOUTS))
static void idl_dropout_case(uint64_t idx, void *arg)
{
        static const unsigned ci0s[4] = { 0x00, 0x20, 0xFE, 0xFF };
        struct icfg c; memset(&c, 0, sizeof c);
        c.opt = idx & 7; c.spalen = 2; c.spa = 0xA5; c.chan = 5;
        unsigned ci0 = ci0s[(idx >> 3) & 3];
        uint64_t ev = 0;
        for (int gi = 0; gi < NDROPOUTS; gi++) {
                int g = DROPOUTS[gi];
                struct irec rec; memset(&rec, 0, sizeof rec);
                char desc[160]; snprintf(desc, sizeof desc, "opt=%s first CI %02x: user packets 0,1 received, %d packets lost, the next 3 received", opt_name(c.opt), ci0, g);
                mc_case("idl long dropout", "%s", desc);
                viol_reset();
                vbi_idl_demux *dx = vbi_idl_a_demux_new(c.chan, c.spa, idl_cb, &rec);
                if (!dx) harness_error("vbi_idl_a_demux_new");
                for (int k = 0; k < 5 && !g_bad; k++) {
                        int logical = k < 2 ? k : k + g;
                        struct itx x; itx_plain(&x, &c, logical & 63, 0, 0, (ci0 + logical) & 0xFF, 36);
                        int before = rec.n;
                        vbi_bool ret = vbi_idl_demux_feed(dx, X42(x.p));
                        ev++;
                        if (!ret) VIOL("idl feed() FALSE for an intact packet", "long dropout: %s; packet %d", desc, k);
                        if (rec.n != before + 1) { VIOL("idl intact packet not delivered [long dropout]", "%s; received packet %d (user packet %d, CI %02x): %d deliveries", desc, k, logical, (ci0 + logical) & 0xFF, rec.n - before); break; }
                        if (rec.d[before].nb != (unsigned) x.nexp || memcmp(rec.d[before].b, x.exp, x.nexp)) { VIOL("idl delivered bytes differ from the sent user data [long dropout]", "%s; received packet %d", desc, k); break; }
                        int flagged = !!(rec.d[before].flags & VBI_IDL_DATA_LOST);
                        if (k == 2 && (g % 256) && !flagged) VIOL("idl continuity gap not flagged with VBI_IDL_DATA_LOST", "long dropout: %s; flags=%#x", desc, rec.d[before].flags);
                        if (k != 2 && k != 0 && flagged) VIOL("idl VBI_IDL_DATA_LOST without a continuity gap [no repeated transmission in the stream]", "long dropout: %s; received packet %d flags=%#x", desc, k, rec.d[before].flags);
                }
                vbi_idl_demux_delete(dx);
                viol_emit();
                mc_distinct(0x15500000u + idx * 64 + gi);
        }
        mc_count("evaluations", ev);
        if (idx == 9) mc_sample("idl-dropout: opt=%s, first CI %02x, dropouts of %d..%d user packets (22 lengths around the multiples of 256)", opt_name(c.opt), ci0, DROPOUTS[0], DROPOUTS[NDROPOUTS - 1]);
}

/* ---- phase idl-init ------------------------------------------------------- */

static void idl_init_case(uint64_t idx, void *arg)
{
        struct icfg c; memset(&c, 0, sizeof c);
        c.opt = idx & 7; c.spalen = 3; c.spa = 0x123; c.chan = 1; c.dep = (idx >> 3) & 1;
        int fill = (idx >> 4) ? 0xFF : 0x00;
        struct itx tx[2]; char desc[120];
        itx_plain(&tx[0], &c, 0, 0, 0, 0x50, 36);
        itx_plain(&tx[1], &c, 1, 0, 0, 0x51, 36);
        snprintf(desc, sizeof desc, "opt=%s: two consecutive packets into a context built on memory filled with %02x", opt_name(c.opt), fill);
        mc_case("idl fresh context", "%s", desc);
        viol_reset();
        idl_eval(&c, tx, 2, "fresh context", desc, fill);
        viol_emit();
        mc_count("evaluations", 1);
        mc_distinct(0x15400000u + idx);
}

/* ---- phase idl-ci-run: observation only (see the header comment) ---------- */

static void idl_ci_run_case(uint64_t idx, void *arg)
{
        struct icfg c; memset(&c, 0, sizeof c);
        c.opt = idx & 7; c.spalen = 2; c.spa = 0x5A; c.chan = 3;
        unsigned ci = (idx >> 3) ? 0xFF : 0x00;
        uint8_t area[40]; struct itx x; struct irec rec; memset(&rec, 0, sizeof rec);
        int cap = icfg_cap(&c);
        mc_case("idl CI adjacent run (observation)", "opt=%s ci=%02x", opt_name(c.opt), ci);
        for (int j = 0; j < 40; j++) area[j] = j < 7 ? ci : pat(j, 2);  /* 7 bytes equal to the CI, then ordinary data: no dummy byte if the CI does not count */
        memset(&x, 0, sizeof x);
        idl_build(x.p, &c, 0, ci, cap, area);
        vbi_idl_demux *dx = vbi_idl_a_demux_new(c.chan, c.spa, idl_cb, &rec);
        vbi_idl_demux_feed(dx, X42(x.p));
        if (rec.n == 1)
                mc_outcome("idl CI %s%s = run value, 7 equal data bytes follow: library %s the CI as first byte of the run",
                           (c.opt & O_CI) ? "explicit" : "implicit", (c.opt & O_DL) ? " (DL byte in between)" : "",
                           rec.d[0].nb == (unsigned) cap ? "does not count" : "counts (drops the 8th data byte as dummy)");
        vbi_idl_demux_delete(dx);
        mc_count("evaluations", 1);
}

/* ======================================================================== PFC */

enum { SY_NONE = 0, SY_FILL, SY_BS, SY_SH0, SY_SH1, SY_SH2, SY_SH3, SY_DATA };
#define PF_MAXPK  400
#define PF_MAXBLK 6
#define PFC_BS    0x0C
#define PFC_FILL  0x03

/* 1: also demand that blocks which follow the damaged one in the same page are delivered
 * (literal reading of "discards the damaged block only"); 0: only the lax clauses */
#ifndef C15_STRICT_PFC_RESYNC
#define C15_STRICT_PFC_RESYNC 1
#endif
#define STRICT_KEY "pfc undamaged block discarded together with the damaged one (receiver waits for the next page header)"
static int is_strict_key(const char *k) { return !strncmp(k, STRICT_KEY, 40); }

struct pblk { int app, size, cls, prefill, bs_pk, bs_col, last_pk; uint8_t data[2048]; };
struct ppkt { uint8_t b[42]; short page, num, first_bs; short blk[42]; uint8_t sym[42]; };
struct pstream {
        int pgno, stream, mag, ci0, npkmode, nblk, npk, npages;
        struct pblk blk[PF_MAXBLK];
        struct ppkt pk[PF_MAXPK];
};

static int page_len(int mode, int page)
{
        static const int cyc[3] = { 1, 3, 2 };
        switch (mode) { case 0: return 1; case 1: return 2; case 2: return 3; case 3: return 25; default: return cyc[page % 3]; }
}

static void pblk_fill(struct pblk *b, int app, int size, int cls, int prefill, int salt)
{
        b->app = app; b->size = size; b->cls = cls; b->prefill = prefill;
        for (int j = 0; j < size; j++)
                b->data[j] = cls == 0 ? (uint8_t)(salt * 29 + j * 7 + (j >> 8) + 1)
                           : cls == 1 ? vbi_ham8(PFC_BS)       /* every byte looks like a block separator */
                           :            vbi_ham8(PFC_FILL);    /* every byte looks like a filler */
}

struct lay { struct pstream *s; int cur, col, page, num; };

static struct ppkt *pf_new_packet(struct pstream *s, int page, int num)
{
        if (s->npk >= PF_MAXPK) harness_error("PFC stream too long");
        struct ppkt *p = &s->pk[s->npk++];
        memset(p, 0, sizeof *p);
        p->page = page; p->num = num; p->first_bs = -1;
        for (int c = 0; c < 42; c++) p->blk[c] = -1;
        return p;
}

static void pf_header(struct pstream *s, int page)
{
        struct ppkt *p = pf_new_packet(s, page, 0);
        int n = page_len(s->npkmode, page), ci = (s->ci0 + page) & 15;
        p->b[0] = vbi_ham8(s->mag & 7); p->b[1] = vbi_ham8(0);                  /* magazine, packet 0 */
        p->b[2] = vbi_ham8(s->pgno & 15); p->b[3] = vbi_ham8((s->pgno >> 4) & 15);
        p->b[4] = vbi_ham8(ci);                 /* S1: continuity index */
        p->b[5] = vbi_ham8(n & 7);              /* S2: number of packets, low 3 bits (C4 = 0) */
        p->b[6] = vbi_ham8(s->stream);          /* S3: stream */
        p->b[7] = vbi_ham8((n >> 3) & 3);       /* S4: number of packets, high 2 bits (C5 = C6 = 0) */
        p->b[8] = vbi_ham8(0); p->b[9] = vbi_ham8(0);   /* C7..C14: C11 = 0, parallel magazine mode */
        memset(p->b + 10, 0x20, 32);
}

static void pf_row(struct lay *L)
{
        struct pstream *s = L->s;
        if (L->num == page_len(s->npkmode, L->page)) { L->page++; pf_header(s, L->page); L->num = 0; }
        L->num++;
        struct ppkt *p = pf_new_packet(s, L->page, L->num);
        L->cur = s->npk - 1;
        p->b[0] = vbi_ham8((s->mag & 7) | ((L->num & 1) << 3)); p->b[1] = vbi_ham8(L->num >> 1);
        L->col = 3;
}

static void pf_put(struct lay *L, uint8_t byte, int sym, int blk)
{
        if (L->col == 42) pf_row(L);
        struct ppkt *p = &L->s->pk[L->cur];
        p->b[L->col] = byte; p->sym[L->col] = sym; p->blk[L->col] = blk; L->col++;
}

/* EN 300 708 4: the stream of filler bytes, block separators, structure headers and block
 * data is cut into 39 byte pieces; BP = (column of the first block separator - 3) / 3, so
 * the first separator of a packet is aligned with fillers; 0xD = no block starts here. */
static void pf_layout(struct pstream *s)
{
        struct lay L; memset(&L, 0, sizeof L);
        L.s = s; s->npk = 0;
        s->mag = (s->pgno >> 8) & 7;
        pf_header(s, 0);
        pf_row(&L);
        for (int b = 0; b < s->nblk; b++) {
                struct pblk *k = &s->blk[b];
                for (int f = 0; f < k->prefill; f++) pf_put(&L, vbi_ham8(PFC_FILL), SY_FILL, -1);
                for (;;) {
                        if (L.col == 42) pf_row(&L);
                        if (s->pk[L.cur].first_bs >= 0 || (L.col - 3) % 3 == 0) break;
                        pf_put(&L, vbi_ham8(PFC_FILL), SY_FILL, -1);
                }
                if (s->pk[L.cur].first_bs < 0) s->pk[L.cur].first_bs = L.col;
                k->bs_pk = L.cur; k->bs_col = L.col;
                pf_put(&L, vbi_ham8(PFC_BS), SY_BS, b);
                unsigned sh = (unsigned) k->app | ((unsigned) k->size << 5);
                for (int n = 0; n < 4; n++) pf_put(&L, vbi_ham8((sh >> (4 * n)) & 15), SY_SH0 + n, b);
                for (int j = 0; j < k->size; j++) pf_put(&L, k->data[j], SY_DATA, b);
                k->last_pk = L.cur;
        }
        while (L.col < 42) pf_put(&L, vbi_ham8(PFC_FILL), SY_FILL, -1);
        while (L.num < page_len(s->npkmode, L.page)) {
                pf_row(&L);
                while (L.col < 42) pf_put(&L, vbi_ham8(PFC_FILL), SY_FILL, -1);
        }
        for (int i = 0; i < s->npk; i++)
                if (s->pk[i].num) s->pk[i].b[2] = vbi_ham8(s->pk[i].first_bs < 0 ? 13 : (s->pk[i].first_bs - 3) / 3);
        s->npages = L.page + 1;
}

/* ---- foreign packets ---- */
enum { FK_NONE = 0, FK_MAGROW, FK_ROW26, FK_MAGHDR, FK_PAGE, FK_STREAM, FK_N };
static const char *fk_name[FK_N] = { "", "row of another magazine", "row 26..31 of the magazine", "page header of another magazine",
                                     "other page of the magazine", "other stream of the page" };

static void pf_tempting_row(uint8_t *b, int mag, int num, int salt)
{
        b[0] = vbi_ham8((mag & 7) | ((num & 1) << 3)); b[1] = vbi_ham8(num >> 1);
        b[2] = vbi_ham8(0); b[3] = vbi_ham8(PFC_BS);
        unsigned sh = 9 | (5u << 5);
        for (int n = 0; n < 4; n++) b[4 + n] = vbi_ham8((sh >> (4 * n)) & 15);
        for (int j = 8; j < 13; j++) b[j] = 0xE0 + salt + j;
        for (int j = 13; j < 42; j++) b[j] = vbi_ham8(PFC_FILL);
}

static int pf_foreign(const struct pstream *s, int kind, int salt, uint8_t out[2][42])
{
        int omag = (s->mag + 1 + salt % 7) & 7;
        if (omag == s->mag) omag = (omag + 1) & 7;
        switch (kind) {
        case FK_MAGROW: pf_tempting_row(out[0], omag, 1 + salt % 25, salt); return 1;
        case FK_ROW26:  pf_tempting_row(out[0], s->mag, 26 + salt % 6, salt); return 1;
        case FK_MAGHDR: case FK_PAGE: case FK_STREAM: {
                int mag = kind == FK_MAGHDR ? omag : s->mag;
                int pg = kind == FK_PAGE ? ((s->pgno & 0xFF) ^ 0x10) : (s->pgno & 0xFF);
                int st = kind == FK_STREAM ? (s->stream ^ 1) : s->stream;
                uint8_t *b = out[0];
                b[0] = vbi_ham8(mag); b[1] = vbi_ham8(0);
                b[2] = vbi_ham8(pg & 15); b[3] = vbi_ham8(pg >> 4);
                b[4] = vbi_ham8(salt & 15); b[5] = vbi_ham8(1); b[6] = vbi_ham8(st); b[7] = vbi_ham8(0);
                b[8] = vbi_ham8(0); b[9] = vbi_ham8(0); memset(b + 10, 0x20, 32);
                if (kind == FK_MAGHDR) return 1;
                pf_tempting_row(out[1], s->mag, 1, salt);       /* the row of that other page / stream */
                return 2;
        }
        }
        return 0;
}

/* ---- receiver side ---- */
struct pdel { int app, size, at; uint8_t data[2048]; };
static struct pdel pdel[24];
static int npdel, pdel_over, pdel_badid, pdel_at;
static const struct pstream *pdel_s;

static vbi_bool pfc_cb(vbi_pfc_demux *dx, void *ud, const vbi_pfc_block *blk)
{
        if (blk->pgno != pdel_s->pgno || blk->stream != (unsigned) pdel_s->stream) pdel_badid = 1;
        if (npdel >= 24 || blk->block_size > 2048) { pdel_over = 1; return 1; }
        pdel[npdel].app = blk->application_id; pdel[npdel].size = blk->block_size; pdel[npdel].at = pdel_at;
        memcpy(pdel[npdel].data, blk->block, blk->block_size);
        npdel++;
        return 1;
}

/* fault codes per packet of the stream: 0 ok, 1 dropped, 2+k uncorrectable Hamming byte:
 * rows   k = 0,1 address bytes, 2 BP, 3 first block separator, 4..7 first structure header byte 0..3
 * header k = 0,1 address bytes, 2,3 page number, 4..7 sub-code (S1 CI, S2 count, S3 stream, S4 count) */
#define PF_NFAULT 10
static const char *pf_fault_class(const struct pstream *s, int i, int f)
{
        static char b[64];
        const struct ppkt *p = &s->pk[i];
        const char *role = p->num == 0 ? "page header" : p->num == page_len(s->npkmode, p->page) ? "last row of page" : "row";
        static const char *rk[8] = { "address(row)", "address(row)", "BP", "BS", "SH byte 0/1", "SH byte 0/1", "SH byte 2/3", "SH byte 2/3" };
        static const char *hk[8] = { "address(page header)", "address(page header)", "page number", "page number", "sub-code byte 0/1", "sub-code byte 0/1", "sub-code byte 2/3", "sub-code byte 2/3" };
        if (f == 1) snprintf(b, sizeof b, "drop(%s)", role);
        else snprintf(b, sizeof b, "ham-%s", p->num ? rk[f - 2] : hk[f - 2]);
        return b;
}

/* column of the byte that fault f hits in packet i, -1 if the packet has no such byte */
static int pf_fault_col(const struct pstream *s, int i, int f)
{
        const struct ppkt *p = &s->pk[i];
        if (f < 2) return 0;
        int k = f - 2;
        if (p->num == 0 || k <= 2) return k;
        int want = k == 3 ? SY_BS : SY_SH0 + (k - 4);
        for (int c = 3; c < 42; c++) if (p->sym[c] == want) return c;
        return -1;
}

enum { PM_GUARD = 0, PM_EXACT, PM_FRAME00, PM_FRAMEFILL };
enum { PC_SOUND = 1, PC_LAX = 2, PC_STRICT = 4 };

static uint8_t *guard43;
static int pf_static_ctx;

static vbi_bool pfc_feed(vbi_pfc_demux *dx, const uint8_t *p, int mode)
{
        if (mode == PM_EXACT) return vbi_pfc_demux_feed(dx, X42(p));
        if (mode == PM_GUARD) {
                if (!guard43) { guard43 = malloc(43); guard43[42] = vbi_ham8(PFC_FILL); }
                memcpy(guard43, p, 42);
                return vbi_pfc_demux_feed(dx, guard43);
        }
        vbi_sliced sl; memset(&sl, 0, sizeof sl);
        sl.id = VBI_SLICED_TELETEXT_B; sl.line = 7;
        memset(sl.data, mode == PM_FRAME00 ? 0x00 : vbi_ham8(PFC_FILL), sizeof sl.data);
        memcpy(sl.data, p, 42);
        return vbi_pfc_demux_feed_frame(dx, &sl, 1);
}

static void pf_describe(const struct pstream *s, const uint8_t *fault, const uint8_t *ins, char *out, size_t len)
{
        size_t o = 0;
        o += snprintf(out + o, len - o, "page %x stream %d, rows/page mode %d, blocks", s->pgno, s->stream, s->npkmode);
        for (int b = 0; b < s->nblk && o + 60 < len; b++)
                o += snprintf(out + o, len - o, " [%d fill, BS at row %d.%d col %d, app %d, %d bytes class %d]", s->blk[b].prefill,
                              s->pk[s->blk[b].bs_pk].page, s->pk[s->blk[b].bs_pk].num, s->blk[b].bs_col, s->blk[b].app, s->blk[b].size, s->blk[b].cls);
        for (int i = 0; i <= s->npk && o + 70 < len; i++) {
                if (ins && ins[i]) o += snprintf(out + o, len - o, "; before packet %d: %s", i, fk_name[ins[i]]);
                if (fault && i < s->npk && fault[i]) o += snprintf(out + o, len - o, "; packet %d (page %d row %d): %s", i, s->pk[i].page, s->pk[i].num, pf_fault_class(s, i, fault[i]));
        }
}

/* Would no receiver notice the loss when the next packet arrives?  lost[i]: packet never
 * seen as ours (dropped / address unreadable); bad[i]: seen, but with an unreadable byte:
 * 1 = before any block data is used (header fields, BP), 2 = somewhere in the block data
 * (a row that has the expected number is first used up to that byte). */
static int pf_undetectable(const struct pstream *s, const uint8_t *lost, const uint8_t *bad)
{
        int synced = 0, gap = 0, epage = 0, enum_ = 0;  /* expectation: row enum_ of page epage, enum_ == 0: header of page epage */
        for (int i = 0; i < s->npk; i++) {
                const struct ppkt *x = &s->pk[i];
                if (lost[i]) { gap = 1; continue; }
                if (bad[i] == 1) { synced = 0; gap = 0; continue; }
                if (synced) {
                        int match = enum_ ? (x->num == enum_) : (x->num == 0 && ((x->page - epage) & 15) == 0);
                        if (match && gap) return 1;
                        if (!match && x->num) { synced = 0; gap = 0; continue; }
                } else if (x->num) { gap = 0; continue; }
                if (bad[i]) { synced = 0; gap = 0; continue; }
                /* x is accepted (header or expected row): what comes next */
                synced = 1; gap = 0;
                if (x->num < page_len(s->npkmode, x->page)) { epage = x->page; enum_ = x->num + 1; }
                else { epage = x->page + 1; enum_ = 0; }
        }
        return 0;
}

/* Feeds the stream (with faults and inserted foreign packets) to a fresh demultiplexer and
 * judges the deliveries.  Returns 0 when the pattern was skipped. */
static int pfc_eval(const struct pstream *s, const uint8_t *fault, const uint8_t *ins, int mode, const char *ctx, unsigned clauses)
{
        static const uint8_t zero[PF_MAXPK + 1];
        char key[200], desc[600];
        uint8_t lost[PF_MAXPK], bad[PF_MAXPK]; short lostcol[PF_MAXPK];
        int anyfault = 0, firstfault = s->npk;
        if (!fault) fault = zero;
        if (!ins) ins = zero;
        for (int i = 0; i < s->npk; i++) {
                lost[i] = bad[i] = 0; lostcol[i] = 42;
                if (!fault[i]) continue;
                int c = pf_fault_col(s, i, fault[i]);
                if (c < 0) return 0;            /* no such byte in this packet: same as no fault, explored elsewhere */
                anyfault = 1; if (i < firstfault) firstfault = i;
                if (fault[i] == 1 || c < 2) lost[i] = 1; else bad[i] = (s->pk[i].num && c > 2) ? 2 : 1;
                lostcol[i] = c < 3 ? 0 : c;
        }
        if (anyfault && pf_undetectable(s, lost, bad)) { mc_count("pfc_undetectable_loss_patterns_skipped", 1); return 0; }

        /* bulk phases: the context lives in a static object built by the constructor's own
         * _vbi_pfc_demux_init() on 0xBE filled memory (ASan's malloc pattern); a malloc per
         * evaluation pushes gigabytes through ASan's quarantine */
        static vbi_pfc_demux static_dx;
        vbi_pfc_demux *dx;
        if (pf_static_ctx) {
                dx = &static_dx; memset(dx, 0xBE, sizeof *dx);
                if (!_vbi_pfc_demux_init(dx, s->pgno, s->stream, pfc_cb, NULL)) harness_error("_vbi_pfc_demux_init");
        } else {
                dx = vbi_pfc_demux_new(s->pgno, s->stream, pfc_cb, NULL);
                if (!dx) harness_error("vbi_pfc_demux_new");
        }
        npdel = pdel_over = pdel_badid = 0; pdel_s = s;
        int false_on_intact = -1, true_on_noaddr = -1, false_on_foreign = -1;
        for (int i = 0; i <= s->npk; i++) {
                if (ins[i]) {
                        uint8_t fp[2][42];
                        int n = pf_foreign(s, ins[i], i, fp);
                        pdel_at = -1;
                        for (int k = 0; k < n; k++) if (!pfc_feed(dx, fp[k], mode) && false_on_foreign < 0) false_on_foreign = i;
                }
                if (i == s->npk || fault[i] == 1) continue;
                uint8_t p[42]; memcpy(p, s->pk[i].b, 42);
                if (fault[i] >= 2) { int c = pf_fault_col(s, i, fault[i]); p[c] = ham_double(p[c], i * 7 + fault[i]); }
                pdel_at = i;
                vbi_bool r = pfc_feed(dx, p, mode);
                if (!anyfault && !r && false_on_intact < 0) false_on_intact = i;
                if (fault[i] >= 2 && lost[i] && r && true_on_noaddr < 0) true_on_noaddr = i;
        }
        if (pf_static_ctx) _vbi_pfc_demux_destroy(dx); else vbi_pfc_demux_delete(dx);
        mc_count("evaluations", 1);

        int desc_done = 0;
#define DESC (desc_done ? desc : (pf_describe(s, fault, ins, desc, sizeof desc), desc_done = 1, desc))
        if (pdel_over) VIOL("pfc callback overflow (more than 24 deliveries or block_size > 2048)", "%s: %s", ctx, DESC);
        if (pdel_badid) VIOL("pfc callback with a pgno/stream other than the requested", "%s: %s", ctx, DESC);
        if (false_on_intact >= 0 && (clauses & PC_SOUND)) { snprintf(key, sizeof key, "pfc feed() FALSE on a fault free stream [%s]", ctx); VIOL(key, "packet %d; %s", false_on_intact, DESC); }
        if (false_on_foreign >= 0 && (clauses & PC_SOUND)) { snprintf(key, sizeof key, "pfc feed() FALSE for an intact foreign packet [%s]", ctx); VIOL(key, "before packet %d; %s", false_on_foreign, DESC); }
        if (true_on_noaddr >= 0 && (clauses & PC_SOUND)) VIOL("pfc feed() TRUE for a packet with an uncorrectable address byte", "packet %d; %s", true_on_noaddr, DESC);

        /* soundness: the deliveries are a subsequence of the sent blocks */
        int got[PF_MAXBLK] = { 0 }, next = 0, unsound = 0;
        for (int d = 0; d < npdel; d++) {
                int k;
                for (k = next; k < s->nblk; k++)
                        if (pdel[d].app == s->blk[k].app && pdel[d].size == s->blk[k].size && !memcmp(pdel[d].data, s->blk[k].data, s->blk[k].size)) break;
                if (k == s->nblk) {
                        if (clauses & PC_SOUND) {
                                int diff = -1, kk = next < s->nblk ? next : s->nblk - 1;
                                for (int j = 0; j < pdel[d].size && j < s->blk[kk].size; j++) if (pdel[d].data[j] != s->blk[kk].data[j]) { diff = j; break; }
                                snprintf(key, sizeof key, "pfc delivered block equals no sent block [%s]", ctx);
                                VIOL(key, "delivery %d during packet %d: app %d, %d bytes (next expected block %d: app %d, %d bytes, first differing byte %d); %s",
                                     d, pdel[d].at, pdel[d].app, pdel[d].size, kk, s->blk[kk].app, s->blk[kk].size, diff, DESC);
                        }
                        unsound = 1; break;
                }
                got[k] = 1; next = k + 1;
        }
        mc_count("pfc_blocks_delivered", npdel);
        if (unsound) { mc_outcome("pfc %s: a block that was never sent is delivered", anyfault ? "with faults" : "fault free"); return 1; }
        for (int b = 0; b < s->nblk; b++) if (s->blk[b].size == 0) mc_outcome("pfc zero length block %s", got[b] ? "delivered" : "skipped");
        {
                int miss = 0; for (int b = 0; b < s->nblk; b++) if (s->blk[b].size && !got[b]) miss++;
                mc_outcome("pfc %s: %s", anyfault ? "with faults" : "fault free", miss == 0 ? "all blocks delivered" : miss == s->nblk ? "no block delivered" : "some blocks missing");
        }
        /* completeness */
        int damaged[PF_MAXBLK], hdr_bad[PF_MAXBLK], hdr_of[PF_MAXBLK];
        for (int b = 0; b < s->nblk; b++) {
                const struct pblk *k = &s->blk[b];
                int h0 = k->bs_pk;
                while (s->pk[h0].num) h0--;
                hdr_of[b] = h0; damaged[b] = hdr_bad[b] = 0;
                for (int i = h0; i <= k->last_pk; i++) {
                        if (!fault[i]) continue;
                        if (s->pk[i].num == 0) { hdr_bad[b] = 1; continue; }
                        if (i < k->bs_pk) continue;
                        for (int c = lostcol[i] < 3 ? 3 : lostcol[i]; c < 42; c++) if (s->pk[i].blk[c] == b) { damaged[b] = 1; break; }
                }
        }
        for (int b = 0; b < s->nblk; b++) {
                const struct pblk *k = &s->blk[b];
                if (got[b] || k->size == 0 || damaged[b] || hdr_bad[b]) continue;
                int h0 = hdr_of[b], clean_from_header = 1;
                for (int i = h0; i <= k->last_pk; i++) if (fault[i]) clean_from_header = 0;
                /* a damaged block that reaches into this page: the receiver notices when that block ends */
                for (int d = 0; d < s->nblk; d++) if ((damaged[d] || hdr_bad[d]) && s->blk[d].bs_pk < h0 && s->blk[d].last_pk > h0) clean_from_header = 0;
                if (k->last_pk < firstfault) {
                        if (clauses & PC_LAX) {
                                snprintf(key, sizeof key, anyfault ? "pfc block received completely before the fault not delivered [%s]" : "pfc block not delivered [%s]", ctx);
                                VIOL(key, "block %d (app %d, %d bytes) missing, %d deliveries; %s", b, k->app, k->size, npdel, DESC);
                        }
                } else if (clean_from_header) {
                        if (clauses & PC_LAX) {
                                snprintf(key, sizeof key, "pfc block starting in a page whose header follows the fault not delivered [%s]", ctx);
                                VIOL(key, "block %d (app %d, %d bytes) missing, %d deliveries; %s", b, k->app, k->size, npdel, DESC);
                        }
                } else if ((clauses & PC_STRICT) && C15_STRICT_PFC_RESYNC)
                        VIOL(STRICT_KEY,
                             "block %d (app %d, %d bytes): its page header and all its packets arrived intact, an earlier packet of the page (or a damaged block reaching into the page) did not; %s", b, k->app, k->size, DESC);
        }
        return 1;
}
#undef DESC

/* ---- phase pfc-size: block size x alignment -------------------------------- */

static struct pstream PS;      /* one per process */
static int *size_list, n_sizes;

static void pfc_size_case(uint64_t idx, void *arg)
{
        static const int bsz_q[4] = { 0, 1, 7, 40 }, bfill_q[7] = { 0, 1, 2, 3, 38, 39, 40 }, modes[3] = { 0, 1, 3 };
        static const int bsz_t[13] = { 0, 1, 2, 3, 7, 35, 36, 37, 38, 39, 40, 41, 78 };
        static const int bfill_t[11] = { 0, 1, 2, 3, 4, 5, 36, 37, 38, 39, 40 };
        const int *bsz = mc_tier == MC_THOROUGH ? bsz_t : bsz_q, *bfill = mc_tier == MC_THOROUGH ? bfill_t : bfill_q;
        int nbsz = mc_tier == MC_THOROUGH ? 13 : 4, nbfill = mc_tier == MC_THOROUGH ? 11 : 7;
        static const int pgnos[3] = { 0x1DF, 0x8A0, 0x7FE };
        int chunk = idx % ((n_sizes + 31) / 32); uint64_t r = idx / ((n_sizes + 31) / 32);
        int k0 = r % 13, cls = (r / 13) % 3, mode = modes[(r / 39) % 3];
        struct pstream *s = &PS;
        s->pgno = pgnos[cls]; s->stream = (k0 + cls) & 15; s->ci0 = k0; s->npkmode = mode; s->nblk = 3;
        pf_static_ctx = 1;
        mc_case("pfc block size x alignment", "first BS column %d, payload class %d, mode %d, sizes chunk %d", 3 + 3 * k0, cls, mode, chunk);
        for (int ai = chunk * 32; ai < chunk * 32 + 32 && ai < n_sizes; ai++) {
                int a = size_list[ai];
                pblk_fill(&s->blk[0], 1 + (a & 15), a, cls, 3 * k0, a);
                { mc_hash h; mc_hash_init(&h); int v[4] = { a, k0, cls, mode }; mc_hash_add(&h, v, sizeof v); mc_distinct(h.a); }
                for (int bi = 0; bi < nbsz; bi++) for (int fi = 0; fi < nbfill; fi++) {
                        pblk_fill(&s->blk[1], 17 + bi, bsz[bi], cls, bfill[fi], a + 1);
                        pblk_fill(&s->blk[2], 31, 3, 0, (a + bi) % 3, a + 2);
                        pf_layout(s);
                        viol_reset();
                        pfc_eval(s, NULL, NULL, PM_GUARD, "block size x alignment", PC_SOUND | PC_LAX | PC_STRICT);
                        viol_emit();
                        /* coverage accounting: where did the 2nd block's separator and header fall */
                        if (s->blk[1].bs_col == 41) mc_count("pfc_bs_in_last_byte_of_packet", 1);
                        if (s->blk[1].bs_col >= 38) mc_count("pfc_structure_header_split_across_packets", 1);
                        if (s->blk[1].bs_col >= 38 && s->pk[s->blk[1].bs_pk].num == page_len(mode, s->pk[s->blk[1].bs_pk].page)) mc_count("pfc_structure_header_split_across_pages", 1);
                        if (a > 0 && s->pk[s->blk[0].last_pk].sym[41] == SY_DATA && s->pk[s->blk[0].last_pk].blk[41] == 0) mc_count("pfc_block_ends_in_last_byte_of_packet", 1);
                }
        }
        if (idx == 5) mc_sample("pfc-size: first separator at column %d, A = each size of the chunk, B in {0,1,7,40,..} after {0,1,2,3,38,39,40,..} fillers, C = 3 bytes; e.g. BS of B at row %d col %d", 3 + 3 * k0, s->pk[s->blk[1].bs_pk].num, s->blk[1].bs_col);
}

/* ---- phase pfc-fill: filler runs ------------------------------------------- */

static int fill_k0s[13], n_fill_k0, fill_modes[3], n_fill_modes;

static void pfc_fill_case(uint64_t idx, void *arg)
{
        static const int sz[13] = { 0, 1, 33, 34, 35, 36, 37, 38, 39, 40, 72, 73, 74 };
        int f2 = idx % 41; uint64_t r = idx / 41;
        int k0 = fill_k0s[r % n_fill_k0], mode = fill_modes[(r / n_fill_k0) % n_fill_modes];
        struct pstream *s = &PS;
        s->pgno = 0x2C7; s->stream = 5; s->ci0 = 14; s->npkmode = mode; s->nblk = 3;
        pf_static_ctx = 1;
        mc_case("pfc filler runs", "first BS column %d, %d fillers before the 2nd block, mode %d", 3 + 3 * k0, f2, mode);
        for (int f3 = 0; f3 <= 40; f3++) for (int ai = 0; ai < 13; ai++) for (int bi = 0; bi < 13; bi++) {
                pblk_fill(&s->blk[0], 2, sz[ai], (ai + bi) % 3, 3 * k0, 1);
                pblk_fill(&s->blk[1], 3, sz[bi], 0, f2, 2);
                pblk_fill(&s->blk[2], 4, 9, 0, f3, 3);
                pf_layout(s);
                viol_reset();
                pfc_eval(s, NULL, NULL, PM_GUARD, "filler runs", PC_SOUND | PC_LAX | PC_STRICT);
                viol_emit();
        }
        mc_distinct(0x15500000u + idx);
}

/* ---- scenarios for the fault / foreign packet phases ------------------------ */

static void pfc_scenario(struct pstream *s, int sc)
{
        static const int sizes[8][5] = {
                { 50, 0, 10, 120, 6 },          /* spans rows, empty block, two in one row, spans pages */
                { 34, 34, 5, 30, 30 },          /* ends in the last byte of a row; header split */
                { 100, 7, 7, 7, 7 },            /* many small blocks in one page */
                { 300, 3, 40, 1, 2 },
                { 30, 30, 30, 30, 30 },
                { 5, 70, 5, 70, 5 },
                { 36, 1, 37, 2, 38 },
                { 200, 200, 0, 1, 8 },
        };
        static const int fills[8][5] = { { 0, 2, 5, 1, 0 }, { 0, 0, 0, 3, 1 }, { 6, 0, 1, 0, 2 }, { 3, 0, 0, 0, 0 }, { 0, 3, 3, 3, 3 }, { 9, 1, 0, 40, 0 }, { 0, 0, 0, 0, 0 }, { 12, 0, 0, 0, 7 } };
        static const int modes[5] = { 2, 0, 1, 4, 3 };
        int sp = sc % 8, mode = modes[(sc / 8) % 5];
        s->pgno = (sc & 1) ? 0x1DF : 0x8B3; s->stream = sc % 16; s->ci0 = 13 + sc; s->npkmode = mode; s->nblk = 5;
        for (int b = 0; b < 5; b++) pblk_fill(&s->blk[b], 1 + b * 6 + (sc & 1), sizes[sp][b], (sc >= 40 && b < 2) ? 1 + b : 0, fills[sp][b], sc * 5 + b);
        pf_layout(s);
}

static const char *sorted_classes(const char **cls, int n, char *out, size_t len)
{
        const char *c[8]; if (n > 8) n = 8;
        for (int i = 0; i < n; i++) c[i] = cls[i];
        for (int i = 0; i < n; i++) for (int j = i + 1; j < n; j++) if (strcmp(c[j], c[i]) < 0) { const char *t = c[i]; c[i] = c[j]; c[j] = t; }
        size_t o = 0; out[0] = 0;
        for (int i = 0; i < n; i++) { if (i && !strcmp(c[i], c[i - 1])) continue; o += snprintf(out + o, len - o, "%s%s", o ? " + " : "", c[i]); }
        return out;
}

/* appends the fault classes to the keys of the pending violations (not to the strict clause: one key) */
static void pend_add_classes(const char *classes)
{
        for (int i = 0; i < npend; i++) {
                if (is_strict_key(pend[i].key)) continue;
                size_t o = strlen(pend[i].key);
                snprintf(pend[i].key + o, sizeof pend[i].key - o, " after %s", classes);
        }
}

/* E1 bookkeeping shared by pfc-loss and pfc-mix: vec[] holds the non default choices */
struct pfx { int sc, bound; };
static int pf_baseline_bad;     /* the scenario fails without any fault / insertion: reported once, not per pattern */

static int pfc_loss_eval(const struct pstream *s, const uint8_t *fault)
{
        viol_reset();
        return pfc_eval(s, fault, NULL, PM_GUARD, "loss", PC_SOUND | PC_LAX | PC_STRICT);
}

struct pf_event { int at, f; };         /* f == PF_NFAULT: the whole page starting with header `at' */

static void pf_events_to_faults(const struct pstream *s, const struct pf_event *ev, int nev, int skip, uint8_t *fault)
{
        memset(fault, 0, s->npk);
        for (int k = 0; k < nev; k++) {
                if (k == skip) continue;
                if (ev[k].f == PF_NFAULT) { for (int j = ev[k].at; j < s->npk && s->pk[j].page == s->pk[ev[k].at].page; j++) fault[j] = 1; }
                else fault[ev[k].at] = ev[k].f;
        }
}

static void pfc_loss_body(void *argp)
{
        const struct pfx *a = argp;
        struct pstream *s = &PS;
        uint8_t fault[PF_MAXPK]; struct pf_event ev[8]; int nev = 0, skip_to = -1;
        for (int i = 0; i < s->npk; i++) {
                if (i <= skip_to) continue;              /* inside a dropped page */
                int f = mc_choose(s->pk[i].num == 0 ? PF_NFAULT + 1 : PF_NFAULT);
                if (!f) continue;
                if (f == PF_NFAULT) { skip_to = i; while (skip_to + 1 < s->npk && s->pk[skip_to + 1].page == s->pk[i].page) skip_to++; }
                if (nev < 8) { ev[nev].at = i; ev[nev].f = f; nev++; }
        }
        pf_events_to_faults(s, ev, nev, -1, fault);
        if (!pfc_loss_eval(s, fault)) return;
        if (nev <= 2) { mc_hash h; mc_hash_init(&h); mc_hash_add(&h, fault, s->npk); mc_hash_u64(&h, a->sc); mc_distinct(h.a); }
        else mc_count("pfc_loss_patterns_with_3_faults", 1);
        if (!npend) return;
        if (nev == 0) { pf_baseline_bad = 1; viol_emit(); return; }
        if (pf_baseline_bad) {          /* keep only the strict clause, everything else is explained by the fault free failure */
                int n = 0;
                for (int i = 0; i < npend; i++) if (is_strict_key(pend[i].key)) pend[n++] = pend[i]; else mc_count("violations_subsumed_by_smaller_pattern", 1);
                npend = n; viol_emit(); return;
        }
        const char *cls[8]; char cbuf[8][64], classes[300];
        for (int k = 0; k < nev; k++) {
                snprintf(cbuf[k], sizeof cbuf[k], "%s", ev[k].f == PF_NFAULT ? "drop(whole page)" : pf_fault_class(s, ev[k].at, ev[k].f));
                cls[k] = cbuf[k];
        }
        /* consecutive dropped rows are one loss: named after the last of the run */
        for (int k = nev - 2; k >= 0; k--)
                if (ev[k].f == 1 && ev[k + 1].f == 1 && s->pk[ev[k].at].num && ev[k + 1].at == ev[k].at + 1 && s->pk[ev[k + 1].at].num)
                        cls[k] = cls[k + 1];
        struct viol mine[6]; int nm = npend, keep[6];
        memcpy(mine, pend, sizeof mine);
        for (int i = 0; i < nm; i++) keep[i] = 1;
        if (nev >= 2)           /* report only if no pattern with one fault less shows the same failure */
                for (int k = 0; k < nev; k++) {
                        uint8_t sub[PF_MAXPK];
                        pf_events_to_faults(s, ev, nev, k, sub);
                        if (!pfc_loss_eval(s, sub)) continue;
                        /* a smaller pattern that already delivers wrongly / misses blocks explains this one */
                        for (int y = 0; y < npend; y++) if (!is_strict_key(pend[y].key))
                                for (int x = 0; x < nm; x++) if (!is_strict_key(mine[x].key)) keep[x] = 0;
                }
        memcpy(pend, mine, sizeof mine); npend = nm;
        pend_add_classes(sorted_classes(cls, nev, classes, sizeof classes));
        for (int x = 0; x < nm; x++) if (keep[x]) viol_emit_one(&pend[x]); else mc_count("violations_subsumed_by_smaller_pattern", 1);
        npend = 0;
}

static int pfc_loss_bound, pfc_n_scen;

static void pfc_loss_case(uint64_t idx, void *arg)
{
        struct pfx a = { (int) (idx / 8), pfc_loss_bound };
        pfc_scenario(&PS, a.sc);
        mc_case("pfc loss patterns", "scenario %d shard %d", a.sc, (int) (idx % 8));
        pf_baseline_bad = 0;
        mc_explore_shard(pfc_loss_body, &a, a.bound, (int) (idx % 8), 8);
        if (idx == 8) { char d[500]; pf_describe(&PS, NULL, NULL, d, sizeof d); mc_sample("pfc-loss scenario 1 (%d packets): %s; every packet ok/dropped/8 Hamming byte classes, whole page dropped, <= %d faults", PS.npk, d, a.bound); }
}

/* ---- phase pfc-mix: foreign packets ----------------------------------------- */

static int pfc_mix_eval(const struct pstream *s, const uint8_t *ins)
{
        viol_reset();
        return pfc_eval(s, NULL, ins, PM_GUARD, "foreign packets", PC_SOUND | PC_LAX | PC_STRICT);
}

static void pfc_mix_body(void *argp)
{
        const struct pfx *a = argp;
        struct pstream *s = &PS;
        uint8_t ins[PF_MAXPK + 1]; int pos[8], nf = 0;
        memset(ins, 0, s->npk + 1);
        for (int i = 0; i <= s->npk; i++) {
                /* other pages / streams of the magazine can only come between two pages (a header of the magazine ends the page) */
                int boundary = i == s->npk || s->pk[i].num == 0;
                int f = mc_choose(boundary ? FK_N : FK_PAGE);
                if (!f) continue;
                ins[i] = f; if (nf < 8) pos[nf] = i; nf++;
        }
        pfc_mix_eval(s, ins);
        if (nf <= 2) { mc_hash h; mc_hash_init(&h); mc_hash_add(&h, ins, s->npk + 1); mc_hash_u64(&h, a->sc + 1000); mc_distinct(h.a); }
        else mc_count("pfc_mix_patterns_with_3_insertions", 1);
        if (!npend) return;
        if (nf == 0) { pf_baseline_bad = 1; viol_emit(); return; }
        if (pf_baseline_bad) { mc_count("violations_subsumed_by_smaller_pattern", npend); npend = 0; return; }
        struct viol first = pend[0];
        if (nf >= 2)            /* minimal sets of inserted packets only */
                for (int k = 0; k < nf && k < 8; k++) {
                        uint8_t sub[PF_MAXPK + 1]; memcpy(sub, ins, s->npk + 1); sub[pos[k]] = 0;
                        pfc_mix_eval(s, sub);
                        if (npend) { npend = 0; mc_count("violations_subsumed_by_smaller_pattern", 1); return; }
                }
        const char *cls[8]; char classes[300]; struct viol v;
        for (int k = 0; k < nf && k < 8; k++) cls[k] = fk_name[ins[pos[k]]];
        snprintf(v.key, sizeof v.key, "pfc inserted foreign packets change what is delivered: %s", sorted_classes(cls, nf < 8 ? nf : 8, classes, sizeof classes));
        snprintf(v.det, sizeof v.det, "first symptom: %.150s: %.560s", first.key, first.det);
        npend = 0;
        viol_emit_one(&v);
}

static int pfc_mix_bound;

static void pfc_mix_case(uint64_t idx, void *arg)
{
        struct pfx a = { (int) (idx / 4), pfc_mix_bound };
        pfc_scenario(&PS, a.sc);
        mc_case("pfc foreign packets", "scenario %d shard %d", a.sc, (int) (idx % 4));
        pf_baseline_bad = 0;
        mc_explore_shard(pfc_mix_body, &a, a.bound, (int) (idx % 4), 4);
}

/* ---- phase pfc-exact / pfc-frame --------------------------------------------- */

static void pfc_exact_case(uint64_t idx, void *arg)
{
        int k0 = idx % 13, a = idx / 13, mode = (intptr_t) arg;
        struct pstream *s = &PS;
        s->pgno = 0x3E1; s->stream = 2; s->ci0 = 3; s->npkmode = 1; s->nblk = 2;
        pblk_fill(&s->blk[0], 5, a, 0, 3 * k0, a);
        pblk_fill(&s->blk[1], 6, 12, 0, 0, a + 1);
        pf_layout(s);
        int ends_last = 0;
        for (int i = 0; i < s->npk; i++) if (s->pk[i].num && (s->pk[i].sym[41] == SY_DATA || (s->pk[i].sym[41] == SY_SH3 && s->blk[s->pk[i].blk[41]].size == 0))) ends_last = 1;
        if (mode == PM_EXACT) {
                mc_case(ends_last ? "pfc exactly sized packet buffer, block ends in the last byte of a packet" : "pfc exactly sized packet buffer",
                        "first BS column %d, block of %d bytes, then a block of 12 bytes", 3 + 3 * k0, a);
                viol_reset();
                pfc_eval(s, NULL, NULL, PM_EXACT, "exact buffer", PC_SOUND | PC_LAX | PC_STRICT);
                viol_emit();
        } else {
                mc_case("pfc feed_frame", "first BS column %d, block of %d bytes, then a block of 12 bytes", 3 + 3 * k0, a);
                viol_reset();
                pfc_eval(s, NULL, NULL, PM_FRAMEFILL, "feed_frame, sliced.data[42..] = filler", PC_SOUND | PC_LAX | PC_STRICT);
                viol_emit();
                viol_reset();
                pfc_eval(s, NULL, NULL, PM_FRAME00, "feed_frame", PC_SOUND | PC_LAX | PC_STRICT);
                if (npend) {
                        /* vbi_sliced.data has 56 bytes, a Teletext packet 42: the rest is none of the demultiplexer's business */
                        struct viol v, first = pend[0];
                        snprintf(v.key, sizeof v.key, "pfc feed_frame: deliveries depend on vbi_sliced.data[42] (zero instead of filler)%s", ends_last ? ", block ends in the last byte of a packet" : "");
                        snprintf(v.det, sizeof v.det, "first symptom: %.150s: %.560s", first.key, first.det);
                        npend = 0;
                        viol_emit_one(&v);
                }
        }
        if (ends_last) mc_count("pfc_block_ends_in_last_byte_of_packet", 1);
        mc_distinct(0x15600000u + idx * 4 + mode);
}

/* ======================================================================== main */

int main(int argc, char **argv)
{
        mc_init(argc, argv, "C15");
        mc_set_budget(300, 1500);
        self_check_hamming();
        ref_crc_init();
        mc_meta("level", "model_checking");
        mc_meta("technique", "bounded-exhaustive enumeration of sender configurations, block sizes x alignments and loss patterns (E1 deviation bounded) through the real demultiplexers; sender models and independent CRC as oracle");
        mc_meta("rule", "a case is one packet sequence built by the sender model from (options, address length, run length x offset | block sizes x start column x filler runs x packets per page | fault vector); every sequence is fed to a fresh demultiplexer and every callback audited; distinct counts the parameter tuples (pfc-size: one per first-block size x start column x class x rows per page, standing for its whole inner product; fault phases: one per fault vector with <= 2 (IDL <= 3) faults)");
        mc_meta("assume", "vbi_ham8() forward table correct (test-hamm); IDL CRC polynomial x^16+x^9+x^7+x^4+1 LSB first, implicit CI = both check bytes (EN 300 708 6.5.7.2 as read by the library)");
        mc_meta("assume", "IDL: RI layout, DL counting dummy bytes, run counting per packet as described in the harness header; CI values 00/FF in front of an equal run only observed");
        mc_meta("assume", "PFC: drop patterns after which the next packet is exactly the expected one are undetectable and skipped");
        idl_loss_bound = mc_tier == MC_THOROUGH ? 9 : 3;
        mc_meta("bound", "IDL: 8 options x SPA length 0..6, runs 1..36 x all offsets, DL 0..63, all header bit errors (1 and 2 bits), all CRC bit errors (1 and adjacent 2), loss <= %d faults over 5..9 transmissions", idl_loss_bound);

        pfc_loss_bound = mc_tier == MC_THOROUGH ? 3 : 2; pfc_mix_bound = mc_tier == MC_THOROUGH ? 3 : 2;
        pfc_n_scen = 80;
        {       /* block sizes of pfc-size */
                static int all[2048 + 8]; int n = 0;
                if (mc_tier == MC_THOROUGH) for (int a = 0; a < 2048; a++) all[n++] = a;
                else {
                        for (int a = 0; a < 256; a++) all[n++] = a;
                        for (int a = 256; a < 2040; a += 7) all[n++] = a;
                        for (int a = 2040; a < 2048; a++) all[n++] = a;
                }
                size_list = all; n_sizes = n;
                if (mc_tier == MC_THOROUGH) { for (int k = 0; k < 13; k++) fill_k0s[k] = k; n_fill_k0 = 13; fill_modes[0] = 0; fill_modes[1] = 1; fill_modes[2] = 3; n_fill_modes = 3; }
                else { fill_k0s[0] = 0; fill_k0s[1] = 5; fill_k0s[2] = 12; n_fill_k0 = 3; fill_modes[0] = 1; n_fill_modes = 1; }
        }
        mc_meta("bound", "PFC: first separator at each of the 13 BP columns x %d block sizes in 0..2047 x 2nd block (%d sizes) after %d filler runs x 3 payload classes x {1,2,25} rows per page; filler runs 0..40 x 0..40 x 13x13 sizes x %d start columns; %d five-block scenarios x (<= %d faults | <= %d inserted foreign packets)",
                n_sizes, mc_tier == MC_THOROUGH ? 13 : 4, mc_tier == MC_THOROUGH ? 11 : 7, n_fill_k0, pfc_n_scen, pfc_loss_bound, pfc_mix_bound);

        mc_pool("idl-runs", 224, idl_runs_case, NULL, 60);
        mc_pool("idl-dl", 28, idl_dl_case, NULL, 60);
        mc_pool("idl-filter", 56, idl_filter_case, NULL, 60);
        mc_pool("idl-crc", 24, idl_crc_case, NULL, 60);
        mc_pool("idl-loss", 48 * 4, idl_loss_case, NULL, 300);
        mc_pool("idl-dropout", 32, idl_dropout_case, NULL, 30);
        mc_pool("idl-init", 32, idl_init_case, NULL, 30);
        mc_pool("idl-ci-run", 16, idl_ci_run_case, NULL, 30);
        mc_pool("pfc-size", (uint64_t) ((n_sizes + 31) / 32) * 13 * 3 * 3, pfc_size_case, NULL, 120);
        mc_pool("pfc-fill", (uint64_t) 41 * n_fill_k0 * n_fill_modes, pfc_fill_case, NULL, 120);
        mc_pool("pfc-mix", (uint64_t) pfc_n_scen * 4, pfc_mix_case, NULL, 300);
        mc_pool("pfc-loss", (uint64_t) pfc_n_scen * 8, pfc_loss_case, NULL, 300);
        mc_pool("pfc-frame", 13 * 46, pfc_exact_case, (void *) (intptr_t) PM_FRAME00, 30);
        mc_pool("pfc-exact", 13 * 46, pfc_exact_case, (void *) (intptr_t) PM_EXACT, 30);
        return mc_finish();
}
