/* C20 - documented cross-thread use of the service decoder and the raw decoder
 * is race-free: no deadlock, no torn result, no data race.
 *
 * E3 (engine/mc_sched.c): real pthreads under a baton; scheduling points are the
 * library's own pthread_mutex_lock/trylock/unlock calls (link time --wrap); every
 * schedule with <= P preemptions is run to completion (mc_explore).
 *
 * Harness A (service decoder): T1 feeds a caption stream through vbi_decode(), with a
 *   VBI_EVENT_CAPTION handler that itself calls vbi_fetch_cc_page (documented as safe);
 *   T2 fetches CC page 1 k times; T3 calls vbi_channel_switched() once.
 *   Oracle: no deadlock (scheduler), and SNAPSHOT SET: for the frame p at which the
 *   reset was executed (observed by T1), every page T2 fetched must be one of the
 *   pages T1's *sequential* execution with the reset at p shows at its observation
 *   points (after each vbi_decode, inside each caption event callback, right after the
 *   reset), and the fetched sequence must be monotone in T1's progress.
 * Harness T (service decoder, Teletext feed; added for seed C20 round 5): the same three
 *   threads and the same oracles as harness A, but every frame T1 feeds carries a
 *   Teletext packet besides the caption byte pair, with a VBI_EVENT_TTX_PAGE handler
 *   registered, so that vbi_decode() also completes and stores Teletext pages
 *   (store_lop() in packet.c: the third user of the channel switch countdown and its
 *   mutex, besides vbi_decode() and vbi_channel_switched()).  Input alphabet, enumerated
 *   completely (NTV configurations, each explored under the scheduler):
 *     header class of the two pages completed after the reference header was stored:
 *       equal header | different header, same magazine | different header, other magazine
 *       | parity error in the header | header without page number
 *       (store_lop's outcomes "same network", "channel switch", and the three
 *       reachable flavours of "inconclusive"; the date transition flavour is not
 *       reachable with in-bounds data: same_header() looks for the date 64 bytes into
 *       the 40 byte header);
 *     timing: all timestamps regular, or exactly one irregular step - late (+0.5 s) or
 *       early (+0.01 s) - at any frame but the first: frame dropping arms the automatic
 *       40 frame countdown and discards the page in progress, so the later pages are
 *       completed while the countdown runs, or not, depending on where it happened.
 *   The seed kept chswcd_mutex locked on the return "inconclusive header while the
 *   countdown runs": the next vbi_decode() and every vbi_channel_switched() then block,
 *   which the scheduler reports as deadlock (no enabled thread).  With regular timestamps
 *   the same return needs T3's request to arrive between vbi_decode()'s countdown check
 *   and store_lop(): one preemption.  The sequential reference runs also execute under
 *   the scheduler (one thread), so that a self-deadlock of the plain feed is a deadlock
 *   verdict at once instead of a watchdog case.
 * Harness B (raw decoder): T1 vbi_raw_decode x3; T2 remove/add/check services; T3
 *   add/remove services.  Every operation is one critical section of rd->mutex, so the
 *   lock acquisition order is the linearization: the same operations replayed
 *   sequentially in that order on a fresh decoder must give identical return values
 *   and identical decode output (= "one consistent service set").
 * Race oracle: the same bodies, free running (no scheduler), built with
 *   -fsanitize=thread (bin/C20_tsan), many repetitions; any TSan report is a violation.
 *   Harness T's configurations are all run once there, too.
 *   Pass S (added for seed C20 round 6): T's configurations with an irregular timestamp once
 *   more, the third thread calling vbi_channel_switched() continuously while the feed runs
 *   (see A_t3_many).  The seed tested the countdown in vbi_decode()'s frame dropping branch
 *   before locking chswcd_mutex: an unlocked read racing with the requests' store, visible to
 *   a happens-before detector only when a request falls between two critical sections of the
 *   feeding thread around the one irregular frame.
 * Countdown step oracle (A, T, every schedule; added for seed C20 round 6): see cd_on_op().
 *   The scheduling point at pthread_mutex_lock lies between the seed's unlocked test and its
 *   store, so the schedule "T1 up to the lock of an irregular frame, T3's request, T1 stores
 *   40" (one preemption, within T's bound) shows the lost request.
 *   A serialising scheduler's hand-offs are happens-before edges that blind a race
 *   detector, hence the separate pass; it is a sample of schedules, not exhaustive.
 */
#include <stdio.h>
#include <stdlib.h>
#include <string.h>
#include <unistd.h>
#include <fcntl.h>
#include <sys/wait.h>
#include <signal.h>
#include <pthread.h>
#include "mc.h"
#include "mc_sched.h"
#include "src/vbi.h"
#include "src/hamm.h"
#include "src/decoder.h"
#include "src/io-sim.h"
#include "src/cache-priv.h"

/* ------------------------------------------------------------------ harness A */

struct frame { int line; uint8_t b0, b1; };
/* variant 0: captions on field 1 */
static const struct frame stream0[] = {
        {21,0x14,0x25},{21,0x14,0x25},        /* RU2 (doubled control code) */
        {21,0x14,0x70},{21,0x14,0x70},        /* PAC row 15 */
        {21,'A','B'}, {21,'C',' '},
        {21,0x14,0x2D},{21,0x14,0x2D},        /* CR: roll up */
        {21,'D','E'}, {21,'F',' '},
        {21,0x14,0x20},{21,0x14,0x20},        /* RCL: pop-on */
        {21,0x14,0x50},{21,0x14,0x50},        /* PAC row 11 */
        {21,'G','H'}, {21,'I',' '},
        {21,0x14,0x2F},{21,0x14,0x2F},        /* EOC: flip */
        {21,0x14,0x2C},{21,0x14,0x2C},        /* EDM */
};
/* variant 1: XDS network name on field 2, twice "AB" (identifies the network), twice
 * "XY" (a changed name: xds_decoder() calls vbi_chsw_reset() while vbi_decode_caption
 * holds cc.mutex), with some roll-up text on field 1 in between.  Checksums: the
 * seven bit sum of all bytes of a packet including 0x0F is zero. */
#define XDS_NAME(c, d) {284,0x05,0x01},{284,(c),(d)},{284,0x0F,(uint8_t)((256 - (0x05 + 0x01 + (c) + (d) + 0x0F)) & 0x7F)}
static const struct frame stream1[] = {
        {21,0x14,0x25},{21,0x14,0x25},{21,0x14,0x70},{21,0x14,0x70},{21,'a','b'},{21,'c',' '},
        XDS_NAME('A','B'), XDS_NAME('A','B'),
        {21,'d','e'},{21,'f',' '},
        XDS_NAME('X','Y'), XDS_NAME('X','Y'),
        {21,0x14,0x2D},{21,0x14,0x2D},{21,'g','h'},{21,'i',' '},
};
#define N0 ((int)(sizeof stream0 / sizeof stream0[0]))
#define N1 ((int)(sizeof stream1 / sizeof stream1[0]))
#define MAXFRAMES 32
static const struct frame *cc_stream = stream0;
static int NFRAMES = N0, VARIANT = 0;
#define MAXOBS 256

/* ---- harness T: variants 2 ... NV-1 (seed C20 round 5), see the head comment.
 * Each frame = one Teletext packet (magazine serial mode: every header ends the page in
 * progress) + one caption byte pair (roll-up text, so that the fetch oracles of harness A
 * have something to look at).  Pages by ordinal: 0, 1 = pages 100, 101 with header A
 * (page 100 completed at frame 2 becomes the reference header); 2, 3 = the two pages of
 * the header class, completed at frames 6 and 8; 4 = page 104, header A, never completed. */
enum { TK_NONE, TK_HDR, TK_ROW };
static const struct tframe { int kind, ord; uint8_t b0, b1; } T_frames[] = {
        {TK_HDR,0, 0x14,0x25}, {TK_ROW,0, 0x14,0x25},       /* RU2 */
        {TK_HDR,1, 0x14,0x70}, {TK_ROW,1, 0x14,0x70},       /* PAC row 15 */
        {TK_HDR,2, 'A','B'},   {TK_ROW,2, 'C',' '},
        {TK_HDR,3, 0x14,0x2D}, {TK_ROW,3, 0x14,0x2D},       /* CR: roll up */
        {TK_HDR,4, 'D','E'},   {TK_NONE,0, 'F',' '},
};
#define NT_FRAMES ((int)(sizeof T_frames / sizeof T_frames[0]))
enum { HC_EQUAL, HC_DIFF_SAME_MAG, HC_DIFF_OTHER_MAG, HC_PARITY, HC_NO_PGNO, NHC };
static const char *const HC_name[NHC] = { "equal", "different same-magazine", "different other-magazine", "parity-error", "no-page-number" };
#define NTM (1 + 2 * (NT_FRAMES - 1))   /* timing: regular | (late, early) x frames 1 ... NT_FRAMES-1 */
#define NTV (NHC * NTM)
#define NV  (2 + NTV)
static int T_hc, T_irr_frame = -1, T_irr_early;       /* of the selected variant */
static double T_cum[MAXFRAMES], T_span;              /* timestamps relative to the first frame */
/*                                0123456789012345678901234567890 1 */
static const char T_text_a[33] = "    ZVBI-ONE  News      12:00:00";
static const char T_text_b[33] = "    SPORTS  all scores  12:00:00";

static int T_pgno(int ord)
{
        static const int plain[5] = { 0x100, 0x101, 0x102, 0x103, 0x104 };
        if (T_hc == HC_DIFF_OTHER_MAG && (ord == 2 || ord == 3)) return 0x200 + ord - 2;
        return plain[ord];
}
static void T_line(vbi_sliced *s, const struct tframe *f)
{
        int pgno = T_pgno(f->ord), mag = (pgno >> 8) & 7, packet = f->kind == TK_HDR ? 0 : 1;
        int classed = f->ord == 2 || f->ord == 3;
        memset(s, 0, sizeof *s);
        s->id = VBI_SLICED_TELETEXT_B; s->line = 7;
        s->data[0] = vbi_ham8(mag | (packet & 1) << 3); s->data[1] = vbi_ham8(packet >> 1);
        if (f->kind == TK_ROW) { for (int i = 0; i < 40; i++) s->data[2 + i] = vbi_par8('a' + f->ord); return; }
        s->data[2] = vbi_ham8(pgno & 15); s->data[3] = vbi_ham8(pgno >> 4 & 15);
        for (int i = 4; i < 9; i++) s->data[i] = vbi_ham8(0);      /* subcode 0, no C4 ... C10 */
        s->data[9] = vbi_ham8(1);                                   /* C11 magazine serial */
        const char *text = classed && (T_hc == HC_DIFF_SAME_MAG || T_hc == HC_DIFF_OTHER_MAG) ? T_text_b : T_text_a;
        for (int i = 0; i < 32; i++) s->data[10 + i] = vbi_par8(text[i]);
        if (!(classed && T_hc == HC_NO_PGNO)) {
                s->data[10] = vbi_par8('0' + (pgno >> 8)); s->data[11] = vbi_par8('0' + (pgno >> 4 & 15)); s->data[12] = vbi_par8('0' + (pgno & 15));
        }
        if (classed && T_hc == HC_PARITY) s->data[10 + 16] ^= 0x80;
}
static const char *variant_name(void)
{
        static char b[100];
        if (VARIANT < 2) snprintf(b, sizeof b, "A%d", VARIANT);
        else if (T_irr_frame < 0) snprintf(b, sizeof b, "T[%s header, regular timestamps]", HC_name[T_hc]);
        else snprintf(b, sizeof b, "T[%s header, %s frame %d]", HC_name[T_hc], T_irr_early ? "early" : "late", T_irr_frame);
        return b;
}

static vbi_decoder *V;
static int A_loops = 1;                 /* stream repetitions (free running mode) */
static int A_fetches = 3;

static uint64_t page_hash(const vbi_page *pg)
{
        mc_hash h; mc_hash_init(&h);
        mc_hash_u64(&h, pg->rows); mc_hash_u64(&h, pg->columns);
        for (int i = 0; i < pg->rows * pg->columns; i++) {
                const vbi_char *c = &pg->text[i];
                uint32_t v[4] = { c->unicode, c->foreground, c->background, (uint32_t)(c->opacity | c->underline << 4 | c->italic << 5 | c->flash << 6) };
                mc_hash_add(&h, v, sizeof v);
        }
        return h.a ^ h.b;
}

/* observation log of the sequential reference / of T1's own callbacks */
struct obslog { uint64_t h[MAXOBS]; int n; };
static struct obslog *cur_obs;          /* where the event handler records (reference runs) */
static int handler_fetch_failed;

static void obs_add(struct obslog *o, uint64_t h) { if (o && o->n < MAXOBS) o->h[o->n++] = h; }

static void cc_handler(vbi_event *ev, void *user)
{
        vbi_page pg;
        (void) user;
        if (ev->type != VBI_EVENT_CAPTION) return;
        /* documented: the mutex is dropped around callbacks so a handler may fetch */
        if (!vbi_fetch_cc_page(V, &pg, 1, TRUE)) { handler_fetch_failed = 1; return; }
        obs_add(cur_obs, page_hash(&pg));
}

static int ttx_pages_announced;          /* harness T: TTX_PAGE events, in the feeding thread */
static void ttx_handler(vbi_event *ev, void *user)
{
        (void) user;
        if (ev->type == VBI_EVENT_TTX_PAGE) ttx_pages_announced++;
}

static double frame_time(int l, int i)
{
        if (VARIANT < 2) return 1.0 + (l * NFRAMES + i) / 30.0;
        return 1.0 + l * T_span + T_cum[i];
}
static void feed_frame(int i, double t)
{
        vbi_sliced s[2]; int n = 0;
        memset(s, 0, sizeof s);
        if (VARIANT < 2) {
                s[0].id = VBI_SLICED_CAPTION_525; s[0].line = cc_stream[i].line;
                s[0].data[0] = vbi_par8(cc_stream[i].b0); s[0].data[1] = vbi_par8(cc_stream[i].b1);
                n = 1;
        } else {
                if (T_frames[i].kind != TK_NONE) T_line(&s[n++], &T_frames[i]);
                s[n].id = VBI_SLICED_CAPTION_525; s[n].line = 21;
                s[n].data[0] = vbi_par8(T_frames[i].b0); s[n].data[1] = vbi_par8(T_frames[i].b1);
                n++;
        }
        vbi_decode(V, s, n, t);
}

static vbi_decoder *new_decoder(void)
{
        vbi_decoder *v = vbi_decoder_new();
        if (!v) { fprintf(stderr, "vbi_decoder_new failed\n"); _exit(42); }
        vbi_event_handler_register(v, VBI_EVENT_CAPTION, cc_handler, NULL);
        if (VARIANT >= 2) vbi_event_handler_register(v, VBI_EVENT_TTX_PAGE, ttx_handler, NULL);
        ttx_pages_announced = 0;
        return v;
}

/* reference: sequential run with T3's reset executed at the start of frame p (p < 0:
 * never).  trips = set of frames during which a reset ran (T3's and, in variant 1, the
 * one the XDS packet causes; in harness T the ones store_lop() decides on): that is all
 * T1 can observe of where the reset happened.
 * The run executes as the only thread of the scheduler: a mutex the feed leaves locked
 * makes its next acquisition a deadlock verdict (no enabled thread) instead of a hang. */
static struct obslog ref_obs[NV][MAXFRAMES + 2];
static uint32_t      ref_trips[NV][MAXFRAMES + 2];
static int ref_ready[NV];
static void select_variant(int v)
{
        VARIANT = v;
        if (v < 2) { cc_stream = v ? stream1 : stream0; NFRAMES = v ? N1 : N0; return; }
        int tm = (v - 2) % NTM;
        T_hc = (v - 2) / NTM; NFRAMES = NT_FRAMES;
        T_irr_frame = tm ? 1 + (tm - 1) / 2 : -1; T_irr_early = tm ? (tm - 1) & 1 : 0;
        T_cum[0] = 0;
        for (int i = 1; i < NT_FRAMES; i++)
                T_cum[i] = T_cum[i - 1] + (i != T_irr_frame ? 1 / 30.0 : T_irr_early ? 0.01 : 0.5);
        T_span = T_cum[NT_FRAMES - 1] + 1 / 30.0;
}
static int ref_p; static uint32_t ref_trips_out;
static void ref_thread(void *arg)
{
        struct obslog *o = arg;
        int p = ref_p;
        uint32_t trips = 0;
        vbi_page pg;
        vbi_fetch_cc_page(V, &pg, 1, TRUE); obs_add(o, page_hash(&pg));     /* initial */
        uint64_t blank = o->h[0];
        for (int i = 0; i < NFRAMES; i++) {
                if (i == p) vbi_channel_switched(V, 0);
                int n0 = o->n;
                V->wss_rep_ct = 77;
                feed_frame(i, frame_time(0, i));
                if (V->wss_rep_ct != 77) {
                        trips |= 1u << i;
                        /* the reset runs inside vbi_decode before the caption line is decoded
                         * (A: the request is executed first thing; T: also when a Teletext page
                         * is completed, and the Teletext packet comes first); a concurrent reader
                         * may look right after it: blank pages.  Not for the reset the XDS packet
                         * of variant 1 causes: that one runs with cc.mutex held. */
                        if ((i == p || VARIANT >= 2) && o->n < MAXOBS) {
                                memmove(&o->h[n0 + 1], &o->h[n0], (o->n - n0) * sizeof o->h[0]);
                                o->h[n0] = blank; o->n++;
                        }
                }
                vbi_fetch_cc_page(V, &pg, 1, TRUE); obs_add(o, page_hash(&pg));
        }
        ref_trips_out = trips;
}
static void build_reference(int v)
{
        select_variant(v);
        if (ref_ready[v]) return;
        for (int p = -1; p < NFRAMES; p++) {
                struct obslog *o = &ref_obs[v][p + 1]; o->n = 0;
                sc_thread_fn fn[1] = { ref_thread }; void *args[1] = { o };
                V = new_decoder(); cur_obs = o; ref_p = p;
                sc_run(1, fn, args, 20000);
                ref_trips[v][p + 1] = ref_trips_out;
                cur_obs = NULL;
                vbi_decoder_delete(V); V = NULL;
        }
        ref_ready[v] = 1;
}

/* concurrent run state */
static uint32_t  trips;                 /* frames during which T1 saw a reset run */
static uint64_t  fetched[16]; static int nfetched;
static int       t2_fetch_failed;
/* harness T, non-vacuity: T1's acquisitions of chswcd_mutex in the current frame, how many
 * pages were completed while the countdown was running, the countdown when T1 finished */
static int       t1_cd_acq, t1_pages_in_countdown, t1_end_chswcd;

static int t1_done;                      /* free running pass S: the switcher stops with the feed */
static void A_t1(void *arg)
{
        (void) arg;
        for (int l = 0; l < A_loops; l++)
                for (int i = 0; i < NFRAMES; i++) {
                        /* sentinel: only vbi_chsw_reset() (which runs in this thread) and the WSS
                         * decoder (not fed here) write wss_rep_ct; the network pointer cannot be
                         * used because the cache recycles the network object at the same address */
                        V->wss_rep_ct = 77;
                        t1_cd_acq = 0;
                        feed_frame(i, frame_time(l, i));
                        if (V->wss_rep_ct != 77 && l == 0) trips |= 1u << i;
                }
        if (sc_self() >= 0) t1_end_chswcd = V->chswcd;       /* scheduled runs only: unlocked read */
        __atomic_store_n(&t1_done, 1, __ATOMIC_RELEASE);
}
static void A_t2(void *arg)
{
        (void) arg;
        for (int j = 0; j < A_fetches; j++) {
                vbi_page pg;
                if (!vbi_fetch_cc_page(V, &pg, 1, TRUE)) { t2_fetch_failed = 1; continue; }
                if (nfetched < 16) fetched[nfetched++] = page_hash(&pg);
        }
}
static void A_t3(void *arg)
{
        (void) arg;
        vbi_channel_switched(V, 0);
}
/* free running pass S (seed C20 round 6): requests for as long as the feed runs, so that some
 * fall between the feeding thread's critical sections of every frame - a happens-before
 * detector only sees an unlocked access to the countdown if a request is written between the
 * feeding thread's previous unlock and its next lock of chswcd_mutex, which one request per
 * 60 frames (passes A, T) almost never does for the one irregular frame of a configuration. */
static void A_t3_many(void *arg)
{
        (void) arg;
        for (long n = 0; n < 20000000 && !__atomic_load_n(&t1_done, __ATOMIC_ACQUIRE); n++)
                vbi_channel_switched(V, 0);
}

/* LINEARIZATION POINT ORACLE (scheduled runs only).  Under the baton the harness knows the
 * decoder's state at the instant T2 acquires cc.mutex: no other thread is inside a critical
 * section of that mutex, so the page displayed on channel 1 at that instant - read here
 * from the decoder's own memory AFTER the acquisition - is the one and only page a correct
 * fetch may return.  Stronger than set membership: a fetch that picked the buffer before
 * taking the lock, or copies outside the lock, returns a different page under the
 * schedules that flip or rewrite the buffers in between. */
static uint64_t lin_expect[16]; static int nlin;
/* COUNTDOWN STEP ORACLE (scheduled runs only; added for seed C20 round 6, which tested the
 * countdown in vbi_decode()'s frame dropping branch before taking chswcd_mutex: a request
 * arriving between test and store was overwritten with 40 and never executed).
 * The channel switch countdown is only touched inside critical sections of chswcd_mutex, and
 * under the baton the harness sees the value every section finds ('A') and leaves ('U').
 * Each section of the feeding thread must be one step of the sequential code on the value it
 * FOUND: leave it (irregular frame while a countdown or request is pending, inconclusive
 * header, idle regular frame) | count down by one (regular frame) | clear it (reset executed,
 * matching Teletext header) | start the 40 frame countdown, only from idle (found 0).  The
 * requesting thread's section leaves 1.  Between sections the value must not change.
 * A pending request (found 1) turned into 40 is the lost request; no oracle on WHEN the
 * reset runs beyond that (a matching header and a reset in progress legitimately cancel). */
static int cd_left, cd_found, cd_sections, cd_requests;
static char cd_bad[200]; static int cd_bad_kind;      /* 1 lost request, 2 other step, 3 changed outside */
static void cd_on_op(int tid, char op)
{
        int v = V->chswcd;
        if (op == 'A') {
                cd_sections++;
                if (v != cd_left && !cd_bad_kind) {
                        cd_bad_kind = 3;
                        snprintf(cd_bad, sizeof cd_bad, "thread %d found %d, the previous critical section left %d", tid, v, cd_left);
                }
                cd_found = v;
        } else if (op == 'U') {
                int f = cd_found, ok;
                if (tid == 2) { ok = v == 1; cd_requests++; }
                else ok = v == f || (f > 0 && v == f - 1) || v == 0 || (f == 0 && v == 40);
                if (!ok && !cd_bad_kind) {
                        cd_bad_kind = (tid == 0 && f == 1 && cd_requests) ? 1 : 2;
                        snprintf(cd_bad, sizeof cd_bad, "thread %d found %d and left %d", tid, f, v);
                }
                cd_left = v;
        }
}
static void A_on_op(int tid, char op, void *m)
{
        if (V && m == (void *) &V->chswcd_mutex && (op == 'A' || op == 'U')) cd_on_op(tid, op);
        if (tid == 1 && op == 'A' && V && m == (void *) &V->cc.mutex && nlin < 16) {
                cc_channel *ch = &V->cc.channel[0];
                lin_expect[nlin++] = page_hash(ch->pg + (ch->hidden ^ 1));
        }
        /* T1's first acquisition of chswcd_mutex in a frame is vbi_decode()'s own; a later one
         * before any reset ran in this frame (the sentinel is intact) is store_lop()'s */
        if (tid == 0 && op == 'A' && VARIANT >= 2 && V && m == (void *) &V->chswcd_mutex
            && ++t1_cd_acq >= 2 && V->wss_rep_ct == 77 && V->chswcd > 0)
                t1_pages_in_countdown++;
}

static void A_body(void *arg)
{
        (void) arg;
        sc_thread_fn fns[3] = { A_t1, A_t2, A_t3 };
        V = new_decoder(); cur_obs = NULL;
        trips = 0; nfetched = 0; t2_fetch_failed = 0; handler_fetch_failed = 0; nlin = 0;
        t1_cd_acq = 0; t1_pages_in_countdown = 0; t1_end_chswcd = 0;
        cd_left = V->chswcd; cd_found = 0; cd_sections = 0; cd_requests = 0; cd_bad_kind = 0; cd_bad[0] = 0;
        sc_on_op = A_on_op;
        sc_run(3, fns, NULL, 20000);
        sc_on_op = NULL;
        mc_count("transitions", sc_points());
        mc_count("countdown_sections_checked", cd_sections);
        if (cd_bad_kind)
                mc_violation(cd_bad_kind == 1 ? "A: channel switch request lost: the pending request was overwritten by the frame dropping countdown"
                             : cd_bad_kind == 2 ? "A: critical section of chswcd_mutex changes the countdown as no sequential step does"
                             : "A: channel switch countdown changed outside chswcd_mutex",
                             "variant %s: %s; schedule %s | %s", variant_name(), cd_bad, mc_choices_str(), sc_trace());
        if (nlin != nfetched)
                mc_violation("A: vbi_fetch_cc_page does not take cc.mutex exactly once per fetch", "%d fetches, %d acquisitions by the fetching thread; schedule %s | %s", nfetched, nlin, mc_choices_str(), sc_trace());
        else for (int j = 0; j < nfetched; j++)
                if (fetched[j] != lin_expect[j]) {
                        mc_violation("A: fetched caption page differs from the page displayed when the fetch acquired cc.mutex (torn or stale snapshot)",
                                     "variant %s fetch #%d; schedule %s | %s", variant_name(), j, mc_choices_str(), sc_trace());
                        break;
                }
        /* oracle */
        if (t2_fetch_failed || handler_fetch_failed)
                mc_violation("A: vbi_fetch_cc_page failed", "schedule %s", mc_choices_str());
        /* candidates: every reset position whose sequential run shows the same trips */
        int ok = 0, ncand = 0, seq[16], best_p = -2;
        for (int p = -1; p < NFRAMES && !ok; p++) {
                if (ref_trips[VARIANT][p + 1] != trips) continue;
                ncand++;
                const struct obslog *o = &ref_obs[VARIANT][p + 1];
                int idx = 0, good = 1;
                for (int j = 0; j < nfetched && good; j++) {
                        int k = idx;
                        while (k < o->n && o->h[k] != fetched[j]) k++;
                        if (k == o->n) good = 0; else { idx = k; seq[j] = k; }
                }
                if (good) { ok = 1; best_p = p; }
        }
        if (!ok) {
                if (mc_replaying) {
                        fprintf(stderr, "trips %x candidates %d fetched:", trips, ncand);
                        for (int j = 0; j < nfetched; j++) fprintf(stderr, " %llx", (unsigned long long) fetched[j]);
                        fprintf(stderr, "\ntrace: %s\n", sc_trace());
                }
                mc_violation(ncand ? "A: fetched caption page is not a snapshot of the sequential execution (or not monotone)"
                                   : "A: resets ran at frames no sequential execution shows",
                             "variant %s, resets at frames %x, %d candidate reset positions, %d fetches; schedule %s | %s",
                             variant_name(), trips, ncand, nfetched, mc_choices_str(), sc_trace());
        } else {
                mc_hash h; mc_hash_init(&h); mc_hash_u64(&h, VARIANT * 100 + best_p); mc_hash_add(&h, seq, nfetched * sizeof(int));
                mc_distinct(h.a);
                if (VARIANT < 2) mc_outcome("A%d reset@%d", VARIANT, best_p);
                else mc_outcome("T reset@%d", best_p);
        }
        int reset_frame = best_p;
        mc_count("states", 1);
        if (VARIANT >= 2) {
                mc_count("T_pages_completed_during_countdown", t1_pages_in_countdown);
                /* what the input configuration does by itself (T3's request comes last) */
                if (sc_preemptions() == 0)
                        mc_outcome("T %s header, %s: %d pages announced, %d completed during the countdown, countdown %s at the end",
                                   HC_name[T_hc], T_irr_frame < 0 ? "regular" : T_irr_early ? "early frame" : "late frame",
                                   ttx_pages_announced, t1_pages_in_countdown, t1_end_chswcd > 0 ? "running" : "idle");
                if (sc_preemptions() == 1 && t1_pages_in_countdown) mc_sample("%s schedule (1 preemption, reset@%d): %s", variant_name(), reset_frame, sc_trace());
        } else
        if (sc_preemptions() == 2) mc_sample("A schedule (2 preemptions, reset@%d): %s", reset_frame, sc_trace());
        vbi_decoder_delete(V); V = NULL;
}

/* ------------------------------------------------------------------ harness B */

static vbi_raw_decoder RD;
static uint8_t *raw_image; static size_t raw_size;
static int B_loops = 1;

enum { OP_DECODE, OP_ADD, OP_REMOVE, OP_CHECK };
struct bop { int op; unsigned services; int strict; };
static const struct bop B_prog[3][4] = {
        { {OP_DECODE,0,0}, {OP_DECODE,0,0}, {OP_DECODE,0,0}, {-1,0,0} },
        { {OP_REMOVE, VBI_SLICED_VPS, 0}, {OP_ADD, VBI_SLICED_WSS_625, 0}, {OP_CHECK, VBI_SLICED_TELETEXT_B | VBI_SLICED_VPS, 0}, {-1,0,0} },
        { {OP_ADD, VBI_SLICED_VPS, 0}, {OP_REMOVE, VBI_SLICED_TELETEXT_B, 0}, {-1,0,0}, {-1,0,0} },
};
struct bres { unsigned ret; uint64_t out; };
static struct bres B_res[3][4];
static int B_order[16], B_norder;        /* linearization: thread id per acquisition of RD.mutex */

static void rd_setup(vbi_raw_decoder *rd)
{
        vbi_raw_decoder_init(rd);
        rd->scanning = 625; rd->sampling_format = VBI_PIXFMT_YUV420; rd->sampling_rate = 13500000;
        rd->bytes_per_line = 720; rd->offset = (int)(9.7e-6 * 13.5e6);
        rd->start[0] = 6; rd->count[0] = 18; rd->start[1] = 319; rd->count[1] = 18;
        rd->interlaced = FALSE; rd->synchronous = TRUE;
        vbi_raw_decoder_add_services(rd, VBI_SLICED_TELETEXT_B | VBI_SLICED_VPS, 0);
}
static void make_raw_image(void)
{
        if (raw_image) return;
        vbi_raw_decoder rd; rd_setup(&rd);
        vbi_sliced s[4]; memset(s, 0, sizeof s);
        s[0].id = VBI_SLICED_TELETEXT_B; s[0].line = 7;  for (int i = 0; i < 42; i++) s[0].data[i] = 0x15 + i * 3;
        s[1].id = VBI_SLICED_TELETEXT_B; s[1].line = 8;  for (int i = 0; i < 42; i++) s[1].data[i] = 0xEA - i * 5;
        s[2].id = VBI_SLICED_VPS;        s[2].line = 16; for (int i = 0; i < 13; i++) s[2].data[i] = 0x31 * (i + 1);
        s[3].id = VBI_SLICED_WSS_625;    s[3].line = 23; s[3].data[0] = 0x08; s[3].data[1] = 0x06;
        raw_size = (size_t)(rd.count[0] + rd.count[1]) * rd.bytes_per_line;
        raw_image = malloc(raw_size);
        if (!_vbi_raw_vbi_image(raw_image, raw_size, (vbi_sampling_par *) &rd, 0, 0, 0, s, 4)) {
                fprintf(stderr, "C20: _vbi_raw_vbi_image failed\n"); _exit(42);
        }
        vbi_raw_decoder_destroy(&rd);
}
static struct bres do_bop(vbi_raw_decoder *rd, const struct bop *o)
{
        struct bres r = { 0, 0 };
        switch (o->op) {
        case OP_DECODE: {
                vbi_sliced out[40]; memset(out, 0, sizeof out);
                int n = vbi_raw_decode(rd, raw_image, out);
                r.ret = n;
                mc_hash h; mc_hash_init(&h);
                for (int i = 0; i < n; i++) { mc_hash_u64(&h, out[i].id); mc_hash_u64(&h, out[i].line); mc_hash_add(&h, out[i].data, 42); }
                r.out = h.a ^ h.b;
                break; }
        case OP_ADD:    r.ret = vbi_raw_decoder_add_services(rd, o->services, o->strict); break;
        case OP_REMOVE: r.ret = vbi_raw_decoder_remove_services(rd, o->services); break;
        case OP_CHECK:  r.ret = vbi_raw_decoder_check_services(rd, o->services, o->strict); break;
        }
        return r;
}
static void B_thread(void *arg)
{
        int t = (int)(long) arg;
        for (int l = 0; l < B_loops; l++)
                for (int i = 0; B_prog[t][i].op >= 0; i++)
                        B_res[t][i] = do_bop(&RD, &B_prog[t][i]);
}
static void B_on_op(int tid, char op, void *m)
{
        if (op == 'A' && m == (void *) &RD.mutex && B_norder < 16) B_order[B_norder++] = tid;
}

static void B_body(void *arg)
{
        (void) arg;
        sc_thread_fn fns[3] = { B_thread, B_thread, B_thread };
        void *args[3] = { (void *) 0L, (void *) 1L, (void *) 2L };
        rd_setup(&RD);
        B_norder = 0; memset(B_res, 0, sizeof B_res);
        sc_on_op = B_on_op;
        sc_run(3, fns, args, 20000);
        sc_on_op = NULL;
        mc_count("transitions", sc_points());
        mc_count("states", 1);
        /* sequential replay in linearization order */
        vbi_raw_decoder ref; rd_setup(&ref);
        int pos[3] = { 0, 0, 0 }, bad = 0;
        uint64_t sig = 0;
        if (B_norder != 3 + 3 + 2) { mc_violation("B: unexpected number of critical sections", "%d (schedule %s)", B_norder, mc_choices_str()); bad = 1; }
        for (int k = 0; k < B_norder && !bad; k++) {
                int t = B_order[k];
                const struct bop *o = &B_prog[t][pos[t]];
                struct bres want = do_bop(&ref, o), got = B_res[t][pos[t]];
                if (want.ret != got.ret || want.out != got.out) {
                        mc_violation("B: concurrent raw decoder operation differs from its sequential replay in lock order",
                                     "thread %d op #%d kind %d: got ret=%u out=%llx want ret=%u out=%llx; order pos %d; schedule %s | %s",
                                     t, pos[t], o->op, got.ret, (unsigned long long) got.out, want.ret, (unsigned long long) want.out, k, mc_choices_str(), sc_trace());
                        bad = 1;
                }
                sig = sig * 4 + t;
                if (o->op == OP_DECODE) mc_outcome("B decode -> %u lines", got.ret);
                pos[t]++;
        }
        if (!bad) mc_distinct(0xB0000000ULL + sig);
        if (sc_preemptions() == 2) mc_sample("B schedule (2 preemptions): %s", sc_trace());
        vbi_raw_decoder_destroy(&ref);
        vbi_raw_decoder_destroy(&RD);
}

/* ------------------------------------------------------------------ free running (TSan) */

#ifdef C20_FREE
int main(int argc, char **argv)
{
        const char *which = argc > 1 ? argv[1] : "A";
        int reps = argc > 2 ? atoi(argv[2]) : 10;
        int first = argc > 3 ? atoi(argv[3]) : 0;         /* T: first configuration of this process */
        for (int r = 0; r < reps; r++) {
                if (which[0] == 'A' || which[0] == 'T' || which[0] == 'S') {
                        sc_thread_fn fns[4] = { A_t1, A_t2, which[0] == 'S' ? A_t3_many : A_t3, A_t2 };
                        /* S: the irregular timings only (tm = 1 ... NTM-1), header classes in turn */
                        int k = first + r;
                        select_variant(which[0] == 'A' ? r & 1 : which[0] == 'T' ? 2 + k % NTV
                                       : 2 + (k / (NTM - 1)) % NHC * NTM + 1 + k % (NTM - 1));
                        V = new_decoder(); A_loops = 6; A_fetches = 150; nfetched = 0; trips = 0; t1_done = 0;
                        sc_run_free(3, fns, NULL);
                        vbi_decoder_delete(V); V = NULL;
                } else {
                        sc_thread_fn fns[3] = { B_thread, B_thread, B_thread };
                        void *args[3] = { (void *) 0L, (void *) 1L, (void *) 2L };
                        make_raw_image(); rd_setup(&RD); B_loops = 30;
                        sc_run_free(3, fns, args);
                        vbi_raw_decoder_destroy(&RD);
                }
        }
        return 0;
}
#else

/* ------------------------------------------------------------------ driver */

static int bound, boundT, nshards;
static int tsan_base, tsan_T, tsan_S, tsan_skip_T;

static void A_case(uint64_t idx, void *arg)
{
        int v = (int)(idx % 2), shard = (int)(idx / 2);
        mc_case(v ? "A1: service decoder feed(XDS network change)/fetch/switch" : "A0: service decoder feed/fetch/switch",
                "shard %d of %d, P=%d", shard, nshards, bound);
        build_reference(v);
        mc_explore_shard(A_body, NULL, bound, shard, nshards);
}
/* harness T: one case per input configuration, all schedules with <= boundT preemptions */
static void T_case(uint64_t idx, void *arg)
{
        char key[160];
        select_variant(2 + (int) idx);
        snprintf(key, sizeof key, "T: service decoder feed(Teletext, %s header)/fetch/switch", HC_name[T_hc]);
        mc_case(key, "%s, P=%d", variant_name(), boundT);
        build_reference(2 + (int) idx);
        mc_explore(A_body, NULL, boundT);
}
static void B_case(uint64_t idx, void *arg)
{
        mc_case("B: raw decoder decode/add/remove/check", "shard %llu of %d, P=%d", (unsigned long long) idx, nshards, bound);
        make_raw_image();
        mc_explore_shard(B_body, NULL, bound, (int) idx, nshards);
}

/* the sequential reference runs: a self-deadlock or crash of the plain single threaded
 * feed shows here, under a short watchdog, instead of stalling every shard */
static void ref_case(uint64_t idx, void *arg)
{
        char key[160];
        select_variant((int) idx);
        if (idx < 2) snprintf(key, sizeof key, "A%d: sequential reference run", (int) idx);
        else snprintf(key, sizeof key, "T: sequential reference run (Teletext, %s header)", HC_name[T_hc]);
        mc_case(key, "variant %s", variant_name());
        build_reference((int) idx);
        mc_count("states", NFRAMES + 1);
}

/* one free running TSan process; a report aborts it */
static void tsan_case(uint64_t idx, void *arg)
{
        int isT = idx >= (uint64_t) tsan_base;
        int isS = idx >= (uint64_t)(tsan_base + tsan_T);          /* T's configurations, continuous switcher */
        const char *which = isS ? "S" : isT ? "T" : (idx & 1) ? "B" : "A";
        char bin[600], log[600], reps[16], first[24];
        int nreps = mc_tier == MC_THOROUGH ? 60 : 12;
        if (isT && tsan_skip_T) return;
        const char *b = getenv("VERIF_BUILD"); if (!b) b = "build";
        snprintf(bin, sizeof bin, "%s/bin/C20_tsan", b);
        snprintf(log, sizeof log, "%s/run/C20/tsan.%llu.log", b, (unsigned long long) idx);
        snprintf(reps, sizeof reps, "%d", nreps);
        snprintf(first, sizeof first, "%d", isS ? (int)((idx - tsan_base - tsan_T) * nreps) : isT ? (int)((idx - tsan_base) * nreps % NTV) : 0);
        mc_case(isS ? "S: free running TSan pass (continuous channel switch requests)" : isT ? "T: free running TSan pass" : idx & 1 ? "B: free running TSan pass" : "A: free running TSan pass", "process %llu", (unsigned long long) idx);
        pid_t p = fork();
        if (p == 0) {
                int fd = open(log, O_WRONLY | O_CREAT | O_TRUNC, 0666);
                dup2(fd, 2); dup2(fd, 1);
                alarm(120);             /* survives exec: a deadlocked free run must not linger */
                execl(bin, bin, which, reps, first, (char *) NULL);
                _exit(127);
        }
        int st; waitpid(p, &st, 0);
        mc_count("tsan_processes", 1);
        if (WIFEXITED(st) && WEXITSTATUS(st) == 0) { unlink(log); return; }
        if (WIFEXITED(st) && WEXITSTATUS(st) == 127) { fprintf(stderr, "cannot exec %s\n", bin); _exit(42); }
        if (WIFSIGNALED(st) && WTERMSIG(st) == SIGALRM) {
                mc_violation(isS ? "S: free running pass hangs (deadlock)" : isT ? "T: free running pass hangs (deadlock)" : idx & 1 ? "B: free running pass hangs (deadlock)" : "A: free running pass hangs (deadlock)", "no progress for 120 s, log %s", log);
                return;
        }
        /* summarise: kind of report + the first frame inside /repo of the first two stacks */
        FILE *f = fopen(log, "r"); char line[1024], kind[64] = "abnormal exit", fn[2][80] = { "", "" }; int nfn = 0, in_stack = 0;
        while (f && fgets(line, sizeof line, f)) {
                char *q;
                if (!strncmp(line, "WARNING: ThreadSanitizer: ", 26) && !strcmp(kind, "abnormal exit")) { sscanf(line + 26, "%63[^(\n]", kind); for (char *e = kind + strlen(kind) - 1; e > kind && *e == ' '; e--) *e = 0; }
                if (strstr(line, " of size ") && (strstr(line, "Write") || strstr(line, "Read") || strstr(line, "write") || strstr(line, "read"))) in_stack = 1;
                int fno; char fname[80], fpath[400];
                if (in_stack && nfn < 2 && sscanf(line, " #%d %79s %399s", &fno, fname, fpath) == 3 && strstr(fpath, "/src/") && !strstr(fpath, "/verif/")) {
                        strcpy(fn[nfn++], fname); in_stack = 0;
                }
        }
        if (f) fclose(f);
        /* canonical order of the two functions */
        if (strcmp(fn[0], fn[1]) > 0) { char t[80]; strcpy(t, fn[0]); strcpy(fn[0], fn[1]); strcpy(fn[1], t); }
        char key[200];
        /* T feeds the same service decoder as A: the same race gets the same key */
        snprintf(key, sizeof key, "%s: tsan %s %s / %s", isT ? "A" : which, kind, fn[0], fn[1]);
        mc_violation(key, "free running pass %s, log %s", which, log);
}

int main(int argc, char **argv)
{
        mc_init(argc, argv, "C20");
        mc_set_budget(300, 1500);
        bound = mc_tier == MC_THOROUGH ? 3 : 2;
        boundT = mc_tier == MC_THOROUGH ? 2 : 1;
        nshards = mc_tier == MC_THOROUGH ? 64 : 32;
        tsan_base = mc_tier == MC_THOROUGH ? 32 : 16;
        tsan_T = mc_tier == MC_THOROUGH ? 16 : 8;       /* x 60 / 12 repetitions >= NTV: every configuration once */
        tsan_S = mc_tier == MC_THOROUGH ? 4 : 8;        /* x 60 / 12 repetitions >= NHC * (NTM - 1): every irregular configuration once */
        mc_meta("level", "model_checking");
        mc_meta("technique", "stateless preemption-bounded exploration of real pthreads under a baton scheduler hooked at pthread_mutex_* (iterative context bounding), plus a separate free-running ThreadSanitizer pass");
        mc_meta("rule", "every schedule of the 3-thread harness with <= P preemptions at the library's mutex operations is executed to completion (harness T: for every one of the %d input configurations = header class x timing); states = complete schedules executed, transitions = scheduling points executed; distinct = distinct observation vectors (A, T: variant + reset frame + snapshot indices fetched; B: linearization order); A, T in every schedule: each critical section of chswcd_mutex is compared with the sequential steps of the channel switch countdown on the value it found (leave | -1 | clear | 0 -> 40; request -> 1; no change between sections), so a request overwritten by a check made outside the mutex is a violation", NTV);
        mc_meta("bound", "A, B: P=%d preemptions; A0: %d caption frames on field 1, A1: %d frames with an XDS network change on field 2; %d fetches, 1 channel switch; "
                         "T: P=%d preemptions (fewer than A: %d configurations instead of 2), %d frames of one Teletext packet + one caption byte pair, 5 pages of which 2 are completed after the reference header was stored, "
                         "their header in %d classes (equal / different in the same magazine / different in another magazine / parity error / no page number) x timing in %d classes (regular, or one late +0.5 s or early +0.01 s timestamp at any of frames 1...%d), %d fetches, 1 channel switch; "
                         "B: 3 decodes, 3+2 service operations; free running pass: %d processes x %d repetitions of A, B and T (T: every configuration at least once), "
                         "plus %d processes x the same repetitions of pass S = T's %d configurations with an irregular timestamp (each at least once), 6 stream repetitions, with the third thread requesting channel switches continuously until the feed ends",
                bound, N0, N1, A_fetches, boundT, NTV, NT_FRAMES, NHC, NTM, NT_FRAMES - 1, A_fetches,
                tsan_base + tsan_T, mc_tier == MC_THOROUGH ? 60 : 12, tsan_S, NHC * (NTM - 1));
        mc_meta("assume", "sequential consistency at scheduling points: accesses between two synchronisation operations are atomic under the scheduler; unsynchronised accesses are the business of the free-running TSan pass, which is a sample of OS schedules (not exhaustive)");
        mc_meta("assume", "A's and T's snapshot oracles observe CC page 1 only; T does not compare Teletext pages or events (the property states no oracle for them), it checks that the threads terminate under every schedule and the caption oracles");
        mc_meta("assume", "T: the date transition flavour of an inconclusive Teletext header is not generated (same_header() reads it outside the 40 byte header)");
        mc_pool("A-reference", NV, ref_case, NULL, 8);
        int ref_failed = !mc_replaying && mc_violations_so_far() > 0;
        if (!ref_failed) {
                mc_pool("A-sched", 2 * nshards, A_case, NULL, 900);
                mc_pool("T-sched", NTV, T_case, NULL, 900);
        } else
                mc_not_exhaustive("A-sched and T-sched skipped: the sequential reference run already fails");
        mc_pool("B-sched", nshards, B_case, NULL, 900);
        /* a feed that deadlocks by itself would only make the free running T processes sit out their alarm */
        tsan_skip_T = ref_failed;
        if (tsan_skip_T) mc_not_exhaustive("free running T pass skipped: the sequential reference run already fails");
        mc_pool("tsan-free", tsan_base + tsan_T + tsan_S, tsan_case, NULL, 300);
        return mc_finish();
}
#endif
