/* C01_phases.h - canonical state, BFS layers, storylines, byte exhaustive pools, growth.
 * Included by C01.c after C01_alphabet.h (one translation unit). */

/* ======================================================================== */
/* canonical state                                                          */
/* ======================================================================== */

enum { SEC_VBI, SEC_RAW, SEC_CC, SEC_XDS, SEC_NET, SEC_STAT, SEC_CACHE, SEC_HARNESS, NSEC };
static const char *SECN[NSEC] = { "decoder scalars", "raw pages", "caption channels", "xds/itv", "network+magazines", "page statistics", "cache", "harness" };

static void hash_page_content(fh *h, const cache_page *cp)
{
        fh_i(h, cp->function); fh_i(h, cp->pgno); fh_i(h, cp->subno); fh_i(h, cp->national); fh_i(h, cp->flags);
        fh_i(h, cp->lop_packets); fh_i(h, cp->x26_designations); fh_i(h, cp->x27_designations); fh_i(h, cp->x28_designations);
        switch (cp->function) {
        case PAGE_FUNCTION_DISCARD: break;
        case PAGE_FUNCTION_UNKNOWN: case PAGE_FUNCTION_LOP:
                fh_add(h, &cp->data, cache_page_size(cp) - offsetof(cache_page, data)); break;
        case PAGE_FUNCTION_EACEM_TRIGGER: fh_add(h, &cp->data.enh_lop, sizeof cp->data.enh_lop); break;
        case PAGE_FUNCTION_GPOP: case PAGE_FUNCTION_POP: fh_add(h, &cp->data.pop, sizeof cp->data.pop); break;
        case PAGE_FUNCTION_GDRCS: case PAGE_FUNCTION_DRCS:
                fh_add(h, &cp->data.drcs.lop, sizeof cp->data.drcs.lop); fh_add(h, cp->data.drcs.mode, sizeof cp->data.drcs.mode);
                fh_add(h, &cp->data.drcs.invalid, sizeof cp->data.drcs.invalid); break;
        case PAGE_FUNCTION_AIT: fh_add(h, &cp->data.ait, sizeof cp->data.ait); break;
        default: fh_add(h, &cp->data.unknown, sizeof cp->data.unknown); break;
        }
}

static void hash_vbi_page_cc(fh *h, const vbi_page *pg)
{
        fh_i(h, pg->pgno); fh_i(h, pg->rows); fh_i(h, pg->columns);
        fh_add(h, pg->text, 15 * 34 * sizeof pg->text[0]);
        fh_i(h, pg->dirty.y0); fh_i(h, pg->dirty.y1); fh_i(h, pg->dirty.roll);
        fh_i(h, pg->screen_color); fh_i(h, pg->screen_opacity);
        fh_add(h, pg->color_map, 8 * sizeof pg->color_map[0]);
}

static void hash_prog_info(fh *h, const vbi_program_info *pi)
{
        fh_i(h, pi->future); fh_i(h, pi->month); fh_i(h, pi->day); fh_i(h, pi->hour); fh_i(h, pi->min); fh_i(h, pi->tape_delayed);
        fh_i(h, pi->length_hour); fh_i(h, pi->length_min); fh_i(h, pi->elapsed_hour); fh_i(h, pi->elapsed_min); fh_i(h, pi->elapsed_sec);
        fh_add(h, pi->title, sizeof pi->title); fh_i(h, pi->type_classf); fh_add(h, pi->type_id, sizeof pi->type_id);
        fh_i(h, pi->rating_auth); fh_i(h, pi->rating_id); fh_i(h, pi->rating_dlsv);
        for (int i = 0; i < 2; i++) { fh_i(h, pi->audio[i].mode); fh_i(h, pi->audio[i].language != NULL); }
        fh_i(h, pi->caption_services); for (int i = 0; i < 8; i++) fh_i(h, pi->caption_language[i] != NULL);
        fh_i(h, pi->cgms_a); fh_i(h, pi->aspect.first_line); fh_i(h, pi->aspect.last_line); fh_add(h, &pi->aspect.ratio, sizeof pi->aspect.ratio);
        fh_i(h, pi->aspect.film_mode); fh_i(h, pi->aspect.open_subtitles);
        fh_add(h, pi->description, sizeof pi->description);
}

static int64_t ms(double d) { if (d > 1e12) return (int64_t) 1e15; if (d < -1e12) return (int64_t) -1e15; return (int64_t)(d * 1000.0 + (d < 0 ? -0.5 : 0.5)); }

static void state_sections(fh sec[NSEC])
{
        vbi_decoder *v = G.vbi; fh *h;
        for (int i = 0; i < NSEC; i++) fh_init(&sec[i]);

        h = &sec[SEC_VBI];
        fh_i(h, v->chswcd); fh_i(h, v->time > 0);
        fh_add(h, &v->network.ev.network, sizeof v->network.ev.network);
        int nt = 0;
        for (vbi_trigger *t = v->triggers; t && nt < 64; t = *(vbi_trigger **) t, nt++) {
                /* struct vbi_trigger is private to trigger.c: { next; vbi_link link; double fire; ... } */
                const vbi_link *l = (const vbi_link *)((char *) t + sizeof(void *));
                fh_add(h, l->url, strnlen((const char *) l->url, sizeof l->url));
        }
        fh_i(h, nt);
        hash_prog_info(h, &v->prog_info[0]); hash_prog_info(h, &v->prog_info[1]);
        fh_i(h, v->aspect_source); fh_i(h, v->brightness); fh_i(h, v->contrast);
        fh_i(h, v->vt.max_level); fh_i(h, v->vt.header_page.pgno); fh_add(h, v->vt.header, sizeof v->vt.header); fh_i(h, v->vt.region);
        fh_add(h, &v->vt.default_magazine, sizeof v->vt.default_magazine);
        fh_i(h, v->vt.current ? (int)(v->vt.current - v->vt.raw_page) : -1);
        fh_i(h, v->event_mask);
        for (struct event_handler *eh = v->handlers; eh; eh = eh->next) { fh_i(h, eh->event_mask); fh_i(h, eh->handler == ev_consume ? 1 : 2); }
        fh_add(h, v->wss_last, 2); fh_i(h, v->wss_rep_ct); fh_i(h, ms(v->wss_time - v->time) < -100 ? -100 : ms(v->wss_time - v->time));
        fh_i(h, v->vps_pid.cni); fh_i(h, v->vps_pid.pil); fh_i(h, v->vps_pid.pty); fh_i(h, v->vps_pid.pcs_audio); fh_i(h, v->vps_pid.channel);

        h = &sec[SEC_RAW];
        for (int m = 0; m < 8; m++) {
                struct raw_page *r = &v->vt.raw_page[m];
                hash_page_content(h, r->page);
                if (r->page->function != PAGE_FUNCTION_DISCARD) {
                        fh_i(h, r->lop_packets); fh_i(h, r->num_triplets);
                        for (int p = 0; p < 26; p++) if (r->lop_packets & (1u << p)) fh_add(h, r->lop_raw[p], 40);
                }
        }

        h = &sec[SEC_CC];
        struct caption *cc = &v->cc;
        fh_add(h, cc->last, 2); fh_add(h, &cc->curr_chan, sizeof cc->curr_chan);    /* int[2], one per field (repo commit 'current caption channel ... per field') */
        for (int i = 0; i < 9; i++) {
                cc_channel *ch = &cc->channel[i];
                fh_i(h, ch->mode); fh_i(h, ch->col); fh_i(h, ch->col1); fh_i(h, ch->row); fh_i(h, ch->row1); fh_i(h, ch->roll);
                fh_i(h, ch->nul_ct > 4 ? 4 : ch->nul_ct); fh_i(h, ch->language != NULL);
                fh_add(h, &ch->attr, sizeof ch->attr); fh_i(h, ch->hidden);
                fh_i(h, ch->line ? (int)(ch->line - ch->pg[ch->hidden].text) : -1);
                hash_vbi_page_cc(h, &ch->pg[0]); hash_vbi_page_cc(h, &ch->pg[1]);
        }

        h = &sec[SEC_XDS];
        fh_add(h, cc->sub_packet, sizeof cc->sub_packet);
        fh_i(h, cc->curr_sp ? (int)(cc->curr_sp - &cc->sub_packet[0][0]) : -1); fh_i(h, cc->xds);
        fh_i(h, cc->itv_count); fh_add(h, cc->itv_buf, cc->itv_count > 0 && cc->itv_count <= 256 ? cc->itv_count : 0);
        fh_i(h, cc->info_cycle[0]); fh_i(h, cc->info_cycle[1]);

        h = &sec[SEC_NET];
        cache_network *cn = v->cn;
        fh_i(h, cn->initial_page.pgno); fh_i(h, cn->initial_page.subno);
        fh_add(h, cn->btt_link, sizeof cn->btt_link); fh_i(h, cn->have_top);
        fh_add(h, cn->_magazines, sizeof cn->_magazines);
        fh_i(h, cn->n_cached_pages); fh_i(h, cn->n_referenced_pages); fh_i(h, cn->ref_count); fh_i(h, cn->zombie);

        h = &sec[SEC_STAT];
        fh_add(h, cn->_pages, sizeof cn->_pages);

        h = &sec[SEC_CACHE];
        vbi_cache *ca = v->ca;
        {
                /* pages of the current network: ascending pgno, pages of one pgno in hash chain (= most recently used first) order */
                enum { MAXP = 64 };
                const cache_page *pp[MAXP]; int np = 0, others = 0;
                for (int b = 0; b < HASH_SIZE; b++) {
                        struct node *head = &ca->hash[b]; int guard = 0;
                        for (struct node *nd = head->_succ; nd != head && guard < 4096; nd = nd->_succ, guard++) {
                                const cache_page *cp = PARENT(nd, cache_page, hash_node);
                                if (cp->network != cn) { others++; continue; }
                                if (np < MAXP) pp[np++] = cp; else others += 1000;
                        }
                }
                for (int i = 1; i < np; i++) { const cache_page *x = pp[i]; int j = i; while (j > 0 && pp[j - 1]->pgno > x->pgno) { pp[j] = pp[j - 1]; j--; } pp[j] = x; }
                fh_i(h, np); fh_i(h, others);
                for (int i = 0; i < np; i++) { hash_page_content(h, pp[i]); fh_i(h, pp[i]->ref_count); fh_i(h, pp[i]->priority); }
                int nnet = 0; for (struct node *nd = ca->networks._succ; nd != &ca->networks && nnet < 100; nd = nd->_succ) nnet++;
                int nref = 0; for (struct node *nd = ca->referenced._succ; nd != &ca->referenced && nref < 1000; nd = nd->_succ) nref++;
                fh_i(h, nnet); fh_i(h, nref); fh_i(h, ca->n_cached_pages); fh_i(h, ca->memory_used); fh_i(h, ca->n_cached_networks);
        }

        h = &sec[SEC_HARNESS];
        fh_i(h, G.held != NULL);
        if (G.held) {
                fh_i(h, G.held_cc); fh_i(h, G.held->pgno); fh_i(h, G.held->subno); fh_i(h, G.held->rows); fh_i(h, G.held->columns);
                fh_add(h, G.held->text, (size_t) G.held->rows * G.held->columns * sizeof G.held->text[0]);
                for (int i = 0; i < 32; i++) fh_i(h, G.held->drcs[i] != NULL);
        }
}

static void state_hash(uint64_t out[2], uint64_t secfold[NSEC])
{
        fh sec[NSEC], all; state_sections(sec); fh_init(&all);
        for (int i = 0; i < NSEC; i++) { uint64_t f = fh_fold(&sec[i]); if (secfold) secfold[i] = f; fh_add(&all, &sec[i], sizeof sec[i]); }
        out[0] = all.a; out[1] = all.b | 2;      /* never {0,0} / {x,1}: reserved by the harness */
}


/* ======================================================================== */
/* structural audit: every write index the decoder keeps between calls must */
/* be inside its array (what ASan cannot see inside one heap block)         */
/* ======================================================================== */

#define AUDIT(cond, key, ...) do { if (!(cond)) { viol("audit: " key, __VA_ARGS__); return; } } while (0)

static void audit(void)
{
        vbi_decoder *v = G.vbi;
        AUDIT(v->chswcd >= 0 && v->chswcd <= 40, "channel switch countdown outside 0..40", "chswcd=%d | %s", v->chswcd, cur_ctx);
        AUDIT(!v->vt.current || (v->vt.current >= v->vt.raw_page && v->vt.current < v->vt.raw_page + 8), "vt.current outside raw_page[8]", "%s", cur_ctx);
        for (int m = 0; m < 8; m++) {
                int nt = v->vt.raw_page[m].num_triplets;
                AUDIT(nt >= -1 && nt <= 16 * 13, "X/26 triplet count outside -1..208", "magazine %d num_triplets=%d | %s", m, nt, cur_ctx);
        }
        struct caption *cc = &v->cc;
        for (int f = 0; f < 2; f++)
                AUDIT(cc->curr_chan[f] >= 0 && cc->curr_chan[f] <= 8, "caption curr_chan outside 0..8", "curr_chan[%d]=%d | %s", f, cc->curr_chan[f], cur_ctx);
        for (int i = 0; i < 9; i++) {
                cc_channel *ch = &cc->channel[i];
                AUDIT(ch->col >= 0 && ch->col <= 33 && ch->col1 >= 0 && ch->col1 <= 33 && ch->row >= 0 && ch->row <= 14 && ch->row1 >= 0 && ch->row1 <= 14
                      && ch->roll >= 0 && ch->roll <= 15 && (ch->hidden == 0 || ch->hidden == 1),
                      "caption cursor / window outside the 15 x 34 page", "channel %d col=%d col1=%d row=%d row1=%d roll=%d hidden=%d | %s", i, ch->col, ch->col1, ch->row, ch->row1, ch->roll, ch->hidden, cur_ctx);
                /* (vbi_caption_channel_switched() sets the cursor before it resets ch->hidden, so `line' may address the row in the
                 * other buffer of this channel: text then lands in the neighbour channel's page - wrong, but inside struct caption,
                 * a display defect for C08, not a C01 violation) */
                AUDIT(ch->line == ch->pg[0].text + ch->row * 34 || ch->line == ch->pg[1].text + ch->row * 34, "caption line pointer does not address the cursor row of this channel", "channel %d row=%d | %s", i, ch->row, cur_ctx);
                if (ch->line != ch->pg[ch->hidden].text + ch->row * 34) mc_count("caption_line_in_other_buffer_after_reset", 1);
        }
        AUDIT(cc->itv_count >= 0 && cc->itv_count <= 255, "ITV buffer fill outside 0..255", "itv_count=%d | %s", cc->itv_count, cur_ctx);
        AUDIT(!cc->curr_sp || (cc->curr_sp >= &cc->sub_packet[0][0] && cc->curr_sp <= &cc->sub_packet[3][0x17]), "XDS curr_sp outside the sub-packet table", "%s", cur_ctx);
        for (int c = 0; c < 4; c++) for (int t = 0; t < 0x18; t++) {
                int n = cc->sub_packet[c][t].count;
                AUDIT(n >= 0 && n <= 34, "XDS sub-packet count outside 0..34", "class %d type %#x count=%d | %s", c, t, n, cur_ctx);
        }
        cache_network *cn = v->cn;
        AUDIT(cn->have_top == 0 || cn->have_top == 1, "cache_network.have_top is not a boolean (overwritten)", "have_top=%d | %s", cn->have_top, cur_ctx);
        for (int m = 0; m < 8; m++) {
                const struct ttx_magazine *mg = &cn->_magazines[m];
                AUDIT((unsigned) mg->extension.charset_code[0] <= 127 && (unsigned) mg->extension.charset_code[1] <= 127, "magazine character set code outside 0..127",
                      "magazine %d charset %d,%d | %s", m + 1, mg->extension.charset_code[0], mg->extension.charset_code[1], cur_ctx);
                for (int i = 0; i < 256; i++)
                        AUDIT(mg->pop_lut[i] >= -1 && mg->pop_lut[i] <= 7 && mg->drcs_lut[i] >= -1 && mg->drcs_lut[i] <= 7, "MOT link table entry outside -1..7",
                              "magazine %d page %02x pop %d drcs %d | %s", m + 1, i, mg->pop_lut[i], mg->drcs_lut[i], cur_ctx);
        }
        mc_count("audits", 1);
}

/* ======================================================================== */
/* probes: consequences of what was decoded, observed through the read side */
/* ======================================================================== */

static void probes(int heavy)
{
        vbi_page *pg = __real_malloc(sizeof *pg);
        struct pgkey pk[MAXCP]; int np = cached_pages(pk, MAXCP);
        for (int i = 0; i < np; i++) {
                if (fetch_vt(pg, pk[i].pgno, pk[i].subno, 3, 25, 1)) {
                        for (int r = 1; r <= 4; r++) if (pk[i].pgno == 0x100 && (pg->text[r * 41 + 2].unicode == 'P' || pg->text[r * 41 + 2].unicode == 0x041F)) G.reached_pop_obj++;
                        if (G.vbi->cn->have_top) for (int c = 0; c < 41; c++) if (pg->text[24 * 41 + c].link) { G.reached_top_nav++; break; }
                        consume_page(pg, 0, heavy); unref(pg);
                }
                if (fetch_vt(pg, pk[i].pgno, VBI_ANY_SUBNO, 1, 2, 0)) { if (heavy) consume_page(pg, 0, 0); unref(pg); }
                /* the palette does not depend on the number of rows formatted: a 25 row fetch whose palette differs from the
                 * header-only fetch has written into color_map[] (the member behind text[]) while formatting the rows */
                if (i < 3 && fetch_vt(pg, pk[i].pgno, pk[i].subno, 3, 25, 0)) {
                        vbi_rgba cm[40]; memcpy(cm, pg->color_map, sizeof cm); unref(pg);
                        if (fetch_vt(pg, pk[i].pgno, pk[i].subno, 3, 1, 0)) {
                                if (memcmp(cm, pg->color_map, sizeof cm)) viol("fetched vbi_page: color_map of a 25 row fetch differs from the header-only fetch (overwritten)", "page %x/%x | %s", pk[i].pgno, pk[i].subno, cur_ctx);
                                unref(pg);
                        }
                }
                if (heavy && fetch_vt(pg, pk[i].pgno, pk[i].subno, 2, 25, 1)) {
                        for (int r = 1; r <= 4; r++) if (pk[i].pgno == 0x100 && (pg->text[r * 41 + 2].unicode == 'P' || pg->text[r * 41 + 2].unicode == 0x041F)) G.reached_pop_obj++;
                        unref(pg);
                }
        }
        if (fetch_vt(pg, 0x900, VBI_ANY_SUBNO, 3, 25, 1)) { consume_page(pg, 0, 0); unref(pg); }
        char title[64];
        static const int T[] = { 0x100, 0x101, 0x17C };
        for (int i = 0; i < 3; i++) { op("vbi_page_title"); if (vbi_page_title(G.vbi, T[i], 0, title)) G.reached_title++; }
        for (int i = 0; i < np; i++) { vbi_subno sub; char *lang; op("vbi_classify_page"); G.sink += vbi_classify_page(G.vbi, pk[i].pgno, &sub, &lang) + sub; }
        op("vbi_classify_page"); G.sink += vbi_classify_page(G.vbi, 0x100, NULL, NULL) + vbi_classify_page(G.vbi, 0x102, NULL, NULL);
        __real_free(pg);
}

static void probes_cc(void)
{
        vbi_page *pg = __real_malloc(sizeof *pg);
        for (int p = 1; p <= 8; p++) {
                fill_page(pg); op("vbi_fetch_cc_page");
                if (vbi_fetch_cc_page(G.vbi, pg, p, TRUE)) {
                        if (pg->rows != 15 || pg->columns != 34) viol("caption page with wrong dimensions", "pgno=%d rows=%d columns=%d | %s", p, pg->rows, pg->columns, cur_ctx);
                        G.sink += pg->text[0].unicode + pg->text[15 * 34 - 1].unicode + pg->dirty.y0;
                        unref(pg);
                }
        }
        __real_free(pg);
}

/* ======================================================================== */
/* E2 layers                                                                */
/* ======================================================================== */

struct layer { const char *name; int n; uint16_t map[256]; int npre; uint16_t pre[64]; int depth[2]; int probe; int timeout; };
#define MAXLY 12
static struct layer LY[MAXLY]; static int NLY;

static void ly_add(struct layer *ly, int id) { for (int i = 0; i < ly->n; i++) if (ly->map[i] == id) return; ly->map[ly->n++] = id; }
static void ly_range(struct layer *ly, int a, int b) { for (int i = a; i < b; i++) ly_add(ly, i); }
static void ly_names(struct layer *ly, const char *const *names) { for (; *names; names++) ly_add(ly, letter_by_name(*names)); }
static void ly_pre(struct layer *ly, int id) { if (ly->npre >= 64) harness_die("layer prefix too long"); ly->pre[ly->npre++] = id; }

static const char *layer_letter_name(int l, void *arg) { struct layer *ly = arg; return l < ly->n ? LT[ly->map[l]].name : "?"; }

static void set_ctx(const char *what, const struct layer *ly, const uint8_t *hist, int n)
{
        size_t o = snprintf(cur_ctx, sizeof cur_ctx, "%s: ", what);
        if (ly && ly->npre) o += snprintf(cur_ctx + o, sizeof cur_ctx - o, "{prefix %d letters} ", ly->npre);
        for (int i = 0; i < n && o + 70 < sizeof cur_ctx; i++)
                o += snprintf(cur_ctx + o, sizeof cur_ctx - o, "%s%s", i ? " ; " : "", ly ? LT[ly->map[hist[i]]].name : LT[hist[i]].name);
}

static void replay_layer(const struct layer *ly, const uint8_t *hist, int n, uint64_t hash[2], uint64_t secfold[NSEC])
{
        ex_begin();
        for (int i = 0; i < ly->npre; i++) do_letter(ly->pre[i]);
        for (int i = 0; i < n; i++) do_letter(ly->map[hist[i]]);
        audit();
        state_hash(hash, secfold);
}

static uint64_t bfs_transitions;

static int bfs_run(const uint8_t *hist, int n, uint64_t hash[2], void *arg)
{
        struct layer *ly = arg;
        for (int i = 0; i < n; i++) if (hist[i] >= ly->n) { hash[0] = 0xC01DEAD; hash[1] = 1; return 1; }
        set_ctx(ly->name, ly, hist, n);
        uint64_t sf[NSEC], sf2[NSEC], h2[2];
        replay_layer(ly, hist, n, hash, sf);
        /* layers without read side letters: when the last letter was a page header (the only moment a page is stored)
         * the cached pages are formatted on the object that is thrown away anyway */
        if (ly->probe && n && LT[ly->map[hist[n - 1]]].kind == LK_TTX && LT[ly->map[hist[n - 1]]].a < P_R1_TEXT) { probes(0); mc_count("bfs_probes", 1); }
        int events = (int) G.nevents, unterminated = (int) G.unterminated, cuts = G.search_cuts;
        int leaks = ex_end();
        bfs_transitions++;
        /* canon-on-replay: the same history must give the same canonical state */
        if (((hash[0] >> 7) % 53) == 0 || mc_replaying) {
                replay_layer(ly, hist, n, h2, sf2);
                ex_end();
                if (h2[0] != hash[0] || h2[1] != hash[1]) {
                        for (int i = 0; i < NSEC; i++) if (sf[i] != sf2[i]) fprintf(stderr, "C01: section '%s' differs between two replays\n", SECN[i]);
                        harness_die("canonical state not reproducible for history %s", cur_ctx);
                }
                mc_count("canon_replays_checked", 1);
        }
        mc_count("evaluations", 1);
        if (events) mc_count("events_delivered", events);
        if (unterminated) mc_count("event_strings_unterminated", unterminated);
        if (cuts) mc_count("search_visit_bound_cuts", cuts);
        if (n) mc_distinct(hash[0] ^ rotl64(hash[1], 23));
        if ((bfs_transitions & 16383) == 0) mc_leak_check("LeakSanitizer: block not seen by the allocator accounting (libc allocation) leaked");
        (void) leaks;
        return 0;
}

/* ======================================================================== */
/* storylines                                                               */
/* ======================================================================== */

#define SMAX 40
struct story { const char *name; int quick; int n; short step[SMAX]; unsigned expect; int nobytes; int hexnav; };
enum { X_POP = 1, X_DRCS = 2, X_TOPNAV = 4, X_TITLE = 8, X_TRIGGER = 16, X_TOPINDEX = 32, X_LOP = 64, X_FLOF = 128 };
#define MAXSTORY 20
static struct story ST[MAXSTORY]; static int NST;

static struct story *story_new(const char *name, int quick, unsigned expect)
{
        if (NST >= MAXSTORY) harness_die("too many storylines");
        struct story *s = &ST[NST++]; memset(s, 0, sizeof *s); s->name = name; s->quick = quick; s->expect = expect; return s;
}
static const struct story *story_by_name(const char *name)
{
        for (int i = 0; i < NST; i++) if (!strcmp(ST[i].name, name)) return &ST[i];
        harness_die("no storyline named '%s'", name);
}
static void st_p(struct story *s, const int *pk, int n) { for (int i = 0; i < n; i++) { if (s->n >= SMAX) harness_die("storyline %s too long", s->name); s->step[s->n++] = TTX(pk[i]); } }
static void st_l(struct story *s, const char *name) { if (s->n >= SMAX) harness_die("storyline %s too long", s->name); s->step[s->n++] = letter_by_name(name); }
#define STP(s, ...) do { static const int a_[] = { __VA_ARGS__ }; st_p(s, a_, (int)(sizeof a_ / sizeof *a_)); } while (0)

static void build_stories(void)
{
        struct story *s;
        s = story_new("level 2.5 page, MIP classified object pages, DRCS retransmission", 1, X_POP | X_DRCS | X_LOP);
        STP(s, P_H1FD, P_MIP_R11, P_H1FF, P_H17A, P_DRCS_R1, P_DRCS_R2, P_X28_3, P_H17C, P_DRCS_R1, P_H17B, P_POP_R1, P_POP_R3, P_POP_R4, P_H16A, P_POP_R1, P_POP_R3, P_POP_R4,
            P_H1FE, P_MOT_R1, P_MOT_R19, P_MOT_R21, P_H100E, P_R1_TEXT, P_X26_0, P_H17A, P_DRCS_R1, P_DRCS_R2, P_H1FF);
        s = story_new("level 2.5 page, object pages of unknown function converted at fetch", 0, X_POP | X_DRCS | X_LOP | X_FLOF);
        STP(s, P_H1FE, P_MOT_R1, P_MOT_R10, P_MOT_R19, P_MOT_R21, P_MOT_R22, P_MOT_R24, P_H17B, P_POP_R1, P_POP_R3, P_POP_R4, P_H16A, P_POP_R1, P_POP_R3, P_POP_R4,
            P_H17A, P_DRCS_R1, P_DRCS_R2, P_H17C, P_DRCS_R1, P_H100E, P_R1_TEXT, P_R24_FLOF, P_X26_0, P_X27_0, P_X28_0, P_H1FF);
        s = story_new("TOP: BTT, AIT, MPT, MPT-EX, two pages", 1, X_TOPNAV | X_TITLE | X_TOPINDEX | X_LOP);
        STP(s, P_H1F0, P_BTT_R1, P_BTT_R21, P_H17C, P_AIT_R1, P_H17D, P_MPT_R1, P_H17E, P_MPX_R1, P_H100E, P_R1_TEXT, P_H101, P_R1_ATTR, P_H1FF);
        s = story_new("EACEM trigger page 1E7 and a MIP classified trigger page", 1, X_TRIGGER);
        STP(s, P_H1E7, P_TRIG_A, P_H1FF); st_l(s, "empty frame"); STP(s, P_H1E7, P_TRIG_B, P_H1FF, P_H1E7, P_TRIG_C, P_H1FF, P_H1E7, P_TRIG_B, P_H1FF, P_H1E7, P_TRIG_D, P_H1FF, P_H1E7, P_TRIG_E, P_H1FF);
        STP(s, P_H1FD, P_MIP_R11, P_H1FF, P_H17D, P_TRIG_A, P_H1FF); st_l(s, "300 regular empty frames");
        s = story_new("local enhancement, X/26..M/29 designations", 1, X_LOP);
        STP(s, P_H100E, P_R1_TEXT, P_X26_0L, P_X26_1, P_X26_2, P_H1FF, P_H100E, P_R1_ATTR, P_X26_15, P_X26_BAD, P_X27_0, P_X27_1, P_X27_4, P_X28_0, P_X28_1, P_X28_4,
            P_M29_0, P_M29_1, P_M29_4, P_X28_0POP, P_H1FF);
        s = story_new("POP objects with out of range pointers", 1, X_LOP);
        STP(s, P_H17B, P_POP_R1, P_POP_R3, P_POP_R4, P_H1FE, P_MOT_R1, P_MOT_R19, P_H100E, P_R1_TEXT, P_X26_0P, P_H101, P_R1_TEXT, P_X26_0Q, P_H1FF);
        s = story_new("subpages, control bits, row attributes, parity", 0, X_LOP);
        STP(s, P_H100SUB1, P_R1_TEXT, P_H100SUB2, P_R1_ATTR, P_R2_SIZE, P_R23_DH, P_H100NEWS, P_R1_TEXT, P_H100C7, P_R25, P_H100NAT, P_R1_BADPAR, P_H100, P_R1_TEXT, P_H1FF);
        s = story_new("serial / parallel magazines, fillers", 0, X_LOP);
        STP(s, P_H100S, P_R1_TEXT, P_H200S, P_R1_M2, P_H101, P_R1_ATTR, P_H800, P_H8FF, P_H200, P_R1_M2, P_H2FD, P_R1_M2, P_H1FF, P_IDL_31);
        s = story_new("8/30 network identification, identified channel switch", 0, X_LOP);
        STP(s, P_H100E, P_R1_TEXT, P_H1FF, P_830_1, P_830_1, P_830_1B, P_830_1B, P_830_2, P_830_2, P_830_2B, P_830_2B, P_H100E, P_R1_TEXT, P_H1FF);
        s = story_new("MIP with sub-page index, EPG / system pages", 0, X_LOP);
        STP(s, P_H1FD, P_MIP_R1, P_MIP_R11, P_MIP_R15, P_H1FF, P_H100, P_R1_TEXT, P_H17E, P_R1_TEXT, P_H16B, P_R1_TEXT, P_H1FF);
        s = story_new("X/26 flood: 20 enhancement packets for one page", 1, X_LOP); s->nobytes = 1;
        STP(s, P_H100E, P_R1_TEXT, P_X26_0L, P_X26_1, P_X26_2, P_X26_15, P_X26_15, P_X26_0L, P_X26_1, P_X26_15, P_X26_15, P_X26_15, P_X26_0L, P_X26_1, P_X26_15, P_X26_15, P_X26_15, P_X26_15,
            P_X26_0L, P_X26_1, P_X26_15, P_X26_15, P_H1FF);
        /* every cached page has exactly the size its content needs (cache_page_size()): level one page, with X/26 only, with each
         * single X/28 designation; then the MIP lists these pages as subtitle pages and their cached copies are examined */
        s = story_new("subtitle pages with one X/28 packet each, MIP before and after", 1, X_LOP);
        STP(s, P_H1FD, P_MIP_R1, P_MIP_R15, P_H102, P_R1_TEXT, P_X28_1, P_H103, P_R1_TEXT, P_X28_4, P_H100E, P_R1_TEXT, P_X26_0L, P_H101, P_R1_ATTR, P_X28_0, P_H1FD, P_MIP_R1, P_MIP_R15, P_H1FF);      /* the MIP twice: the first classifies the pages (stored as level one pages), the second finds them cached */
        s = story_new("TOP: two AIT pages with interleaving titles", 1, X_TOPINDEX | X_LOP);
        STP(s, P_H1F0, P_BTT_R1, P_BTT_R21B, P_H17C, P_AIT_R1C, P_H16A, P_AIT_R1D, P_H100E, P_R1_TEXT, P_H1FF);
        /* the BTT arrives every few seconds: a listed subtitle page that is cached is looked up each time */
        s = story_new("TOP: BTT lists a cached page as subtitle page, BTT repeated", 1, X_LOP);
        STP(s, P_H101, P_R1_ATTR, P_H1F0, P_BTT_R1S, P_H1FF, P_H1F0, P_BTT_R1S, P_H1FF, P_H101, P_R1_ATTR, P_H1F0, P_BTT_R1S, P_H1FF);
        s = story_new("damaged headers", 0, 0);
        STP(s, P_H100E, P_R1_TEXT, P_HBADPAGE, P_R1_TEXT, P_H100E, P_HBADSUB, P_R1_TEXT, P_HBADFLAGS, P_R1_TEXT, P_H1FF);
        /* seed C01 round 5 (the TOP navigation bar walk never came back to a page with a hexadecimal number): every other
         * storyline shows pages 100..103 only.  A page with a hexadecimal number is an ordinary displayable page once the MIP
         * lists it as normal / schedule / subtitle page, and the page walks of the formatter (TOP navigation bar, TOP index,
         * search) then start from a number that the tables of decimal pages (BTT, AIT) never contain.  Three states of the TOP
         * tables x hexadecimal and decimal pages (new storylines go to the end: recorded replays name storylines by index):
         *   - TOP recognised (BTT packet 21) but no page table yet: nothing is known as block or group page,
         *   - a page table with groups, schedule, subtitle and normal pages but no block page,
         *   - the complete table (block pages on both sides of the hexadecimal page), with AIT titles.
         * The probes fetch every cached page with 25 rows + navigation at Level 3.5 and 2.5 (probes()), storyline-orders runs
         * every order of the transmissions (MIP before / after the hexadecimal page, BTT before / after ...), the byte
         * exhaustive phase replaces every byte of the first one: every MIP code for 10A..12F, every page number of the header
         * (units and tens digit: 100..10F, 10A..1FA), every BTT link. */
        s = story_new("TOP without block pages (BTT packet 21 only), hexadecimal and decimal pages listed by the MIP", 1, X_LOP); s->hexnav = 1;
        STP(s, P_H1FD, P_MIP_R9, P_H1F0, P_BTT_R21, P_H100E, P_R1_TEXT, P_H10A, P_R1_TEXT, P_H1FF);
        s = story_new("TOP, page table with groups but no block page, hexadecimal pages 10A, 12F, 18A, 18B (subtitles) and page 101", 0, X_LOP); s->hexnav = 1;
        STP(s, P_H1FD, P_MIP_R9, P_MIP_R11, P_H1F0, P_BTT_R1G, P_BTT_R21, P_H10A, P_R1_TEXT, P_H12F, P_R1_ATTR, P_H18A, P_R1_TEXT, P_H18B, P_R1_TEXT, P_H101, P_R1_TEXT, P_H1FF);
        s = story_new("TOP with block pages and titles, hexadecimal page 10A between the block pages 100 and 110", 0, X_LOP | X_TOPNAV); s->hexnav = 1;
        STP(s, P_H1FD, P_MIP_R9, P_H1F0, P_BTT_R1, P_BTT_R21, P_H17C, P_AIT_R1, P_H100E, P_R1_TEXT, P_H10A, P_R1_TEXT, P_H1FF);
}

static void run_story_steps(const struct story *s, int from, int to) { for (int i = from; i < to; i++) do_letter(s->step[i]); }

static void story_selfcheck_case(uint64_t idx, void *arg)
{
        const struct story *s = &ST[idx];
        snprintf(cur_ctx, sizeof cur_ctx, "storyline '%s' unmodified", s->name);
        ex_begin();
        run_story_steps(s, 0, s->n);
        probes(1);
        audit();
        unsigned got = (G.reached_pop_obj ? X_POP : 0) | (G.reached_drcs ? X_DRCS : 0) | (G.reached_top_nav ? X_TOPNAV : 0) | (G.reached_title ? X_TITLE : 0)
                     | (G.reached_trigger_ev ? X_TRIGGER : 0) | (G.reached_top_index ? X_TOPINDEX : 0) | (G.reached_lop_fetch ? X_LOP : 0) | (G.reached_flof ? X_FLOF : 0);
        int unterminated = (int) G.unterminated, hexnav = G.reached_hex_nav;
        ex_end();
        /* not a self check that can end the run: a tree which stops displaying such pages is no machinery error (and breaks
         * nothing C01 names) - the evidence says that the dimension was not explored */
        if (s->hexnav && !hexnav) mc_not_exhaustive("storyline '%s' did not format a page with a hexadecimal number with 25 rows + navigation", s->name);
        if (hexnav) { mc_outcome("page with a hexadecimal number formatted with 25 rows + navigation while TOP is recognised"); mc_count("hex_page_navigation_fetches", hexnav); }
        if ((got & s->expect) != s->expect) harness_die("storyline '%s' does not reach what it is written for: expected %#x got %#x", s->name, s->expect, got);
        if (got & X_POP) mc_outcome("level 2.5 fetch applied an object from a POP page");
        if (got & X_DRCS) mc_outcome("level 2.5 fetch resolved a DRCS character (pg->drcs set)");
        if (got & X_TOPNAV) mc_outcome("TOP navigation bar with links");
        if (got & X_TITLE) mc_outcome("vbi_page_title found an AIT title");
        if (got & X_TRIGGER) mc_outcome("trigger event delivered");
        if (got & X_TOPINDEX) mc_outcome("TOP index page 900 formatted");
        if (got & X_FLOF) mc_outcome("page with links resolved");
        if (unterminated) mc_outcome("event carried an unterminated string (counted, not a C01 violation)");
        mc_count("evaluations", 1);
        mc_sample("storyline '%s': %d letters, reached=%#x", s->name, s->n, got);
}

/* ---- every order of the page transmissions of a storyline ------------------ */

/* A storyline fixes one order of its page transmissions (header + rows).  What the decoder does with a page depends on
 * what it already knows when the page arrives (an AIT or POP page received before the BTT / MOT / MIP that classifies it is
 * stored with function UNKNOWN and converted or rejected at fetch time; an object page after the page that invokes it ...),
 * so every order of the transmissions of a storyline is run: <= 7 transmissions all permutations, more: all rotations and
 * all exchanges of two transmissions.  After each order a filler header ends the last page, the heavy probes run and the
 * decoder is deleted under the allocator accounting. */
#define OMAXB 24
#define OCHUNK 48
struct oplan { int nb, start[OMAXB + 1]; uint64_t norders, first_case, ncases; };
static struct oplan OP[MAXSTORY]; static uint64_t n_order_cases;

static int letter_is_header(int id)
{
        if (LT[id].kind != LK_TTX) return 0;
        int a = vbi_unham16p(PKT[LT[id].a]);
        return a >= 0 && (a >> 3) == 0;
}
static void build_orders(int thorough)
{
        n_order_cases = 0;
        for (int si = 0; si < NST; si++) {
                struct oplan *o = &OP[si]; const struct story *s = &ST[si];
                o->nb = 0;
                for (int k = 0; k < s->n; k++) if (k == 0 || (letter_is_header(s->step[k]) && o->nb < OMAXB)) o->start[o->nb++] = k;
                o->start[o->nb] = s->n;
                int lim = thorough ? 8 : 7;
                if (o->nb <= lim) { o->norders = 1; for (int i = 2; i <= o->nb; i++) o->norders *= i; }
                else o->norders = (uint64_t) o->nb + (uint64_t) o->nb * (o->nb - 1) / 2;
                o->first_case = n_order_cases; o->ncases = (o->norders + OCHUNK - 1) / OCHUNK; n_order_cases += o->ncases;
        }
}
static void order_perm(const struct oplan *o, uint64_t k, int *perm)
{
        int nb = o->nb, lim_fact = 1;
        { uint64_t f = 1; for (int i = 2; i <= nb; i++) f *= i; lim_fact = (f == o->norders); }
        for (int i = 0; i < nb; i++) perm[i] = i;
        if (lim_fact) {                                  /* k-th permutation, factorial number system */
                int pool[OMAXB]; for (int i = 0; i < nb; i++) pool[i] = i;
                for (int i = 0; i < nb; i++) {
                        uint64_t f = 1; for (int j = 2; j <= nb - 1 - i; j++) f *= j;
                        int d = (int)(k / f); k %= f;
                        perm[i] = pool[d]; memmove(pool + d, pool + d + 1, (nb - 1 - i - d) * sizeof *pool);
                }
        } else if (k < (uint64_t) nb) { for (int i = 0; i < nb; i++) perm[i] = (i + (int) k) % nb; }
        else { k -= nb; int a = 0; while (k >= (uint64_t)(nb - 1 - a)) { k -= nb - 1 - a; a++; } int b = a + 1 + (int) k; int t = perm[a]; perm[a] = perm[b]; perm[b] = t; }
}
static void order_case(uint64_t idx, void *arg)
{
        int si = 0; while (si + 1 < NST && OP[si + 1].first_case <= idx) si++;
        const struct oplan *o = &OP[si]; const struct story *s = &ST[si];
        uint64_t k0 = (idx - o->first_case) * OCHUNK;
        for (uint64_t k = k0; k < k0 + OCHUNK && k < o->norders; k++) {
                int perm[OMAXB]; order_perm(o, k, perm);
                size_t c = snprintf(cur_ctx, sizeof cur_ctx, "storyline '%s', page transmissions in order", s->name);
                for (int i = 0; i < o->nb && c + 8 < sizeof cur_ctx; i++) c += snprintf(cur_ctx + c, sizeof cur_ctx - c, " %d", perm[i]);
                ex_begin();
                for (int i = 0; i < o->nb; i++) run_story_steps(s, o->start[perm[i]], o->start[perm[i] + 1]);
                do_letter(TTX(P_H1FF));
                probes(1);
                audit();
                ex_end();
                mc_count("evaluations", 1); mc_count("storyline_orders", 1);
                { mc_hash h; mc_hash_init(&h); mc_hash_u64(&h, 0x0bde); mc_hash_u64(&h, si); mc_hash_u64(&h, k); mc_distinct(h.a); }
        }
}

/* ---- byte exhaustive single steps ---------------------------------------- */

struct target { short story, step; };
static struct target TG[MAXSTORY * SMAX]; static int NTG;

static void build_targets(int quick_only)
{
        NTG = 0;
        for (int si = 0; si < NST; si++) {
                if ((quick_only && !ST[si].quick) || ST[si].nobytes) continue;
                for (int k = 0; k < ST[si].n; k++) if (LT[ST[si].step[k]].kind == LK_TTX) { TG[NTG].story = si; TG[NTG].step = k; NTG++; }
        }
}

static void byte_case(uint64_t idx, void *arg)
{
        const struct target *t = &TG[idx / 42]; int pos = idx % 42;
        const struct story *s = &ST[t->story];
        const uint8_t *base = PKT[LT[s->step[t->step]].a];
        uint64_t n = 0, changed = 0;
        uint64_t h0[2] = { 0, 0 };
        for (int v = 0; v < 256; v++) {
                snprintf(cur_ctx, sizeof cur_ctx, "storyline '%s' step %d (%s) byte %d := 0x%02x (was 0x%02x)", s->name, t->step, LT[s->step[t->step]].name, pos, v, base[pos]);
                uint8_t p[42]; memcpy(p, base, 42); p[pos] = v;
                ex_begin();
                run_story_steps(s, 0, t->step);
                feed_ttx(p);
                run_story_steps(s, t->step + 1, s->n);
                uint64_t h[2]; state_hash(h, NULL);
                probes(0);
                audit();
                ex_end();
                if (v == base[pos]) { h0[0] = h[0]; h0[1] = h[1]; }
                mc_distinct(h[0] ^ rotl64(h[1], 23));
                n++;
        }
        (void) changed; (void) h0;
        mc_count("evaluations", n);
        mc_count("byte_variants", n);
        if ((idx & 127) == 0) mc_leak_check("LeakSanitizer: block not seen by the allocator accounting (libc allocation) leaked");
        if (pos == 2 && t->step == 0) mc_sample("byte exhaustive: storyline '%s' step %d (%s), byte %d x 256 values, rest of the storyline, fetch of every cached page", s->name, t->step, LT[s->step[t->step]].name, pos);
}

/* ---- TOP index: how many titles the Additional Information Tables carry ------ */

/* seed C01 round 6 (the TOP index page 900 stopped counting its lines after the first title it skipped): every TOP storyline
 * above has two titles per AIT page, so the title loop of the index never got past row 5 of the 17 rows it may fill.  How
 * many titles there are is the broadcaster's choice: 46 per AIT page (packets 1..23 with two titles each), every AIT page
 * the BTT links.  This phase transmits a complete TOP service - BTT page table, BTT packet 21 linking the AIT pages 17C and
 * 16A, both AIT pages, a text page - for EVERY pair of title counts (n1, n2) in 0..46 x 0..46, three ways of giving the
 * titles page numbers (17C first then 16A / interleaving / both tables list the same pages, which the index shows once), the
 * tables before and after the BTT that classifies them (a table received first is stored with unknown function and
 * converted when the index is built), titles of every shape (short, all 12 characters, blank, with control characters;
 * group and normal pages by the BTT table).  Then the index is fetched with sub-page ANY, 0 .. 6 (18 titles per index
 * sub-page: 92 titles end on sub-page 5) into a vbi_page which is a heap block of its own, exactly sized (ASan red zone
 * right behind it; fetch_vt() checks the unused tail text[1025..1055] of the pre-filled page), followed by the probes. */
#define TIX_MAX     46
#define TIX_SCHEMES 3
static void tix_ait_page(int hdr, int n, int first, int stride)
{
        do_letter(TTX(hdr));
        for (int r = 1; 2 * (r - 1) < n; r++) {
                uint8_t d[42]; pk_addr(d, 1, r);
                for (int s = 0; s < 2; s++) {
                        int t = 2 * (r - 1) + s; if (t >= n) break;
                        int dec = first + t * stride;                           /* 100 .. 191 */
                        int nib[8] = { dec / 100, (dec / 10) % 10, dec % 10, 3, 15, 7, 15, 0 };
                        if (t % 5 == 4) { nib[3] = 0; nib[4] = 0; nib[5] = 0; nib[6] = 1 + t % 3; }     /* a title for one sub-page */
                        pk_nib(d, 2 + 20 * s, nib, 8);
                        char txt[16];
                        switch (t % 4) {
                        case 0: snprintf(txt, sizeof txt, "Title %-6d", dec); break;
                        case 1: snprintf(txt, sizeof txt, "ABCDEFGHI%03d", dec); break;
                        case 2: snprintf(txt, sizeof txt, "            "); break;
                        default: snprintf(txt, sizeof txt, "\x01{|}~\x7F\x1B %03d ", dec); break;
                        }
                        pk_text(d, 10 + 20 * s, txt);
                }
                feed_ttx(d);
        }
}
static int tix_rows(const vbi_page *pg)
{
        int n = 0;
        for (int r = 0; r < 25; r++) { unsigned u = pg->text[r * 41 + 35].unicode; if (r != 1 && u > 0x20 && u < 0x7F) n++; }
        return n;
}
static void tix_case(uint64_t idx, void *arg)
{
        int n1 = (int)(idx >> 1), btt_last = (int)(idx & 1);
        static const int SUB[] = { VBI_ANY_SUBNO, 0, 1, 2, 3, 4, 5, 6 };
        uint64_t n = 0; int full = 0, part = 0, later = 0;
        for (int n2 = 0; n2 <= TIX_MAX; n2++) for (int scheme = 0; scheme < TIX_SCHEMES; scheme++) {
                snprintf(cur_ctx, sizeof cur_ctx, "TOP service: AIT 17C with %d titles, AIT 16A with %d titles (%s), BTT %s the tables, page 100; fetch of the TOP index 900",
                         n1, n2, scheme == 0 ? "pages 100.. in 17C, the following in 16A" : scheme == 1 ? "even pages in 17C, odd pages in 16A" : "both list pages 100..", btt_last ? "after" : "before");
                ex_begin();
                if (!btt_last) { do_letter(TTX(P_H1F0)); do_letter(TTX(P_BTT_R1)); do_letter(TTX(P_BTT_R21B)); }
                tix_ait_page(P_H17C, n1, 100, scheme == 1 ? 2 : 1);
                tix_ait_page(P_H16A, n2, scheme == 0 ? 100 + n1 : scheme == 1 ? 101 : 100, scheme == 1 ? 2 : 1);
                if (btt_last) { do_letter(TTX(P_H1F0)); do_letter(TTX(P_BTT_R1)); do_letter(TTX(P_BTT_R21B)); }
                do_letter(TTX(P_H100E)); do_letter(TTX(P_R1_TEXT)); do_letter(TTX(P_H1FF));
                vbi_page *pg = __real_malloc(sizeof *pg);         /* an object of its own: ASan guards both ends */
                for (unsigned k = 0; k < sizeof SUB / sizeof *SUB; k++)
                        if (fetch_vt(pg, 0x900, SUB[k], 3, 25, 1)) {
                                int rows = tix_rows(pg);
                                if (k <= 1) { if (rows >= 17) full++; else part++; } else if (rows) later++;
                                consume_page(pg, 0, 0); unref(pg);
                        }
                __real_free(pg);
                probes(0);
                audit();
                ex_end();
                n++;
                { mc_hash h; mc_hash_init(&h); mc_hash_u64(&h, 0x71de); mc_hash_u64(&h, idx); mc_hash_u64(&h, n2); mc_hash_u64(&h, scheme); mc_distinct(h.a); }
        }
        mc_count("evaluations", n); mc_count("top_index_services", n);
        if (full) { mc_outcome("TOP index sub-page 0 with all 17 title rows filled"); mc_count("top_index_full_pages", full); }
        if (part) mc_outcome("TOP index sub-page 0 with fewer than 17 titles");
        if (later) mc_outcome("TOP index sub-page 1..6 with titles");
        if (idx == 2 * 12) mc_sample("TOP index: AIT 17C with %d titles x AIT 16A with 0..%d titles x %d numbering schemes, index fetched with sub-page ANY, 0..6", n1, TIX_MAX, TIX_SCHEMES);
}

/* ---- all caption byte pairs ------------------------------------------------ */

#define CCS_MAX 12
static struct { const char *name; int n; short step[8]; } CCS[CCS_MAX]; static int NCCS;

static void ccs_add(const char *name, const char *const *letters)
{
        if (NCCS >= CCS_MAX) harness_die("too many caption states");
        CCS[NCCS].name = name; CCS[NCCS].n = 0;
        for (; *letters; letters++) CCS[NCCS].step[CCS[NCCS].n++] = letter_by_name(*letters);
        NCCS++;
}
static void build_cc_states(void)
{
        { static const char *l[] = { NULL }; ccs_add("fresh decoder", l); }
        { static const char *l[] = { "F1 RU2", "F1 text AB", NULL }; ccs_add("roll-up 2 with text", l); }
        { static const char *l[] = { "F1 RTD ch2 (T2)", "F1 text 36 chars", NULL }; ccs_add("text channel T2 (ITV) with text", l); }
        { static const char *l[] = { "XDS start current/title", "XDS/F2 payload 30 chars", NULL }; ccs_add("XDS title packet with 30 bytes", l); }
        { static const char *l[] = { "F1 RCL", "F1 PAC row 15 indent 28 u", "F1 text 36 chars", NULL }; ccs_add("pop-on, cursor at the right margin of row 15", l); }
        { static const char *l[] = { "F2 RU4", "F2 text ab", "F2 CR", NULL }; ccs_add("field 2 roll-up 4", l); }
        { static const char *l[] = { "F1 TR", "F1 text 36 chars", "F1 CR", NULL }; ccs_add("text mode T1 after CR", l); }
        { static const char *l[] = { "F1 RDC", "F1 PAC row 1", "F1 text AB", NULL }; ccs_add("paint-on at row 1", l); }
        { static const char *l[] = { "F1 RCL", "F1 text AB", "F1 EOC", "F1 EOC", NULL }; ccs_add("pop-on after two EOC", l); }
        { static const char *l[] = { "F1 RU4", "F1 text AB", "F1 CR", "F1 CR", "F1 PAC row 1", NULL }; ccs_add("roll-up 4 moved to row 1", l); }
        { static const char *l[] = { "XDS packet: current title 32", "XDS start channel/name", "XDS/F2 payload XY", NULL }; ccs_add("XDS second packet open", l); }
        { static const char *l[] = { "F1 RCL ch2", "F1 PAC ch2 row 10 indent", "F1 text AB", "unregister all handlers", NULL }; ccs_add("channel 2 pop-on, no handlers", l); }
}

static int n_cc_states;

static void ccpair_case(uint64_t idx, void *arg)
{
        int c1 = idx & 255, field = (idx >> 8) & 1, k = idx >> 9;
        int line = field ? 284 : 21;
        uint64_t n = 0;
        for (int c2 = 0; c2 < 256; c2++) {
                snprintf(cur_ctx, sizeof cur_ctx, "caption state '%s', line %d, byte pair %02x %02x, then text, CR, XDS end, fetches", CCS[k].name, line, c1, c2);
                ex_begin();
                for (int i = 0; i < CCS[k].n; i++) do_letter(CCS[k].step[i]);
                feed_cc_raw(line, c1, c2);
                feed_cc(line, 'w', 'x');
                feed_cc(line, 0x14, 0x2D);
                feed_cc(line, 'y', 'z');
                feed_cc(284, 0x0F, 0x00);
                probes_cc();
                audit();
                ex_end();
                n++;
        }
        mc_count("evaluations", n); mc_count("caption_pairs", n);
        mc_distinct(0xCC000000ull + idx);
        if ((idx & 255) == 0) mc_leak_check("LeakSanitizer: block not seen by the allocator accounting (libc allocation) leaked");
        if (idx == 0x114) mc_sample("caption pairs: state '%s', line %d, c1=%02x x 256 c2", CCS[k].name, line, c1);
}


/* ---- a fetched page outlives later input -------------------------------------- */

static const char *const DISTURB[][8] = {
        { NULL },
        { "H17A", "DRCS row1", "DRCS row2 (one invalid byte)", "H1FF(filler)", NULL },            /* DRCS page retransmitted */
        { "H17A", "DRCS row2 (one invalid byte)", "X/28/3 (DRCS modes)", "H17B", "POP row3 (active objects)", "H1FF(filler)", NULL },
        { "vbi_channel_switched", "empty frame", "empty frame", NULL },
        { "empty frame dt=+10s", "40 regular empty frames", "empty frame", NULL },
        { "8/30/1", "8/30/1", "8/30/1 (other network)", "8/30/1 (other network)", NULL },           /* identified network change */
        { "H100+erase", "row1 spacing attributes", "H1FF(filler)", NULL },
        { "unregister all handlers", "handler for all events", NULL },
        { "H17C", "DRCS row1", "H16A", "POP row1 (pointers)", "H1FF(filler)", "fetch cached pages L3.5 25 rows nav", NULL },
        { "vbi_channel_switched", "empty frame", "H100+erase", "row1 text+links", "H17A", "DRCS row1", "H1FF(filler)", NULL },
};
#define NDISTURB ((int)(sizeof DISTURB / sizeof *DISTURB))
static const int HELD_STORIES[] = { 0, 1, 2 };

static void held_case(uint64_t idx, void *arg)
{
        int use = *(int *) arg, lvl = idx % 2, d = (idx / 2) % NDISTURB, si = HELD_STORIES[idx / (2 * NDISTURB)];
        const struct story *s = &ST[si];
        snprintf(cur_ctx, sizeof cur_ctx, "held page: storyline '%s', page fetched at level %s and kept, disturbance %d, then %s, then unref", s->name, lvl ? "3.5" : "2.5", d,
                 use ? "export png+html" : "links+text+draw");
        ex_begin();
        run_story_steps(s, 0, s->n);
        do_letter(letter_by_name(lvl ? "hold page L3.5" : "hold page L2.5"));
        int had = G.held != NULL, drcs = 0;
        if (G.held) for (int i = 0; i < 32; i++) if (G.held->drcs[i]) drcs = 1;
        for (const char *const *l = DISTURB[d]; *l; l++) do_letter(letter_by_name(*l));
        do_letter(letter_by_name(use ? "held page: export png+html" : "held page: links, text, draw"));
        do_letter(letter_by_name("unref held page"));
        audit();
        ex_end();
        mc_count("evaluations", 1);
        if (had) mc_distinct(0x4E1D000000ull + idx * 2 + use);
        if (drcs && d) mc_outcome("page holding DRCS pointers rendered after later input");
        if (idx == 7) mc_sample("%s", cur_ctx);
}


/* ---- every XDS (class, type) with swept payloads ------------------------------- */

static int xds_values;   /* number of payload byte values per (class, type, length) */

static void xds_case(uint64_t idx, void *arg)
{
        int cls = idx / 0x18, type = idx % 0x18;
        static const int LEN[] = { 1, 2, 3, 4, 5, 6, 7, 8, 16, 31, 32 };
        uint64_t n = 0;
        for (unsigned li = 0; li < sizeof LEN / sizeof *LEN; li++)
                for (int vi = 0; vi < xds_values; vi++)
                        for (int pat = 0; pat < 2; pat++) {
                                int v = 0x20 + (xds_values >= 96 ? vi : (vi * 95) / (xds_values - 1));
                                snprintf(cur_ctx, sizeof cur_ctx, "XDS class %d type %#x, %d payload bytes %s 0x%02x", cls, type, LEN[li], pat ? "counting from" : "all", v);
                                ex_begin();
                                int c1 = cls * 2 + 1, sum = c1 + type;
                                feed_cc(284, c1, type);
                                for (int i = 0; i < LEN[li]; i += 2) {
                                        int a = pat ? 0x20 + (v - 0x20 + i) % 96 : v, b = i + 1 < LEN[li] ? (pat ? 0x20 + (v - 0x20 + i + 1) % 96 : v) : 0;
                                        feed_cc(284, a, b); sum += a + b;
                                }
                                feed_cc(284, 0x0F, (-(sum + 0x0F)) & 0x7F);
                                /* the same packet again: the "changed?" comparisons of xds_decoder() */
                                if (pat == 0 && li < 4) { feed_cc(284, c1, type); feed_cc(284, v, 0); feed_cc(284, 0x0F, (-(c1 + type + v + 0x0F)) & 0x7F); }
                                audit();
                                ex_end();
                                n++;
                        }
        mc_count("evaluations", n); mc_count("xds_packets", n);
        mc_distinct(0xDD5000000ull + idx);
        if (idx == 3) mc_sample("xds-types: class %d type %#x x %zu lengths x %d values x 2 patterns", cls, type, sizeof LEN / sizeof *LEN, xds_values);
}

/* ---- ATVEF trigger strings, one character replaced ---------------------------------- */

static void itv_case(uint64_t idx, void *arg)
{
        int si = idx / 48, pos = idx % 48;
        const char *base = si < NITVS ? (ITVS[si] ? ITVS[si] : "<http://a.b>[n:x]") : itv_cks;
        size_t len = strlen(base);
        if ((size_t) pos >= len) { mc_count("evaluations", 1); return; }
        uint64_t n = 0;
        for (int v = 0x20; v < 0x80; v++) {
                char str[128]; snprintf(str, sizeof str, "%s", base); str[pos] = v;
                snprintf(cur_ctx, sizeof cur_ctx, "ITV string '%.60s' with character %d := 0x%02x, in T2 + CR, then 2 frames", base, pos, v);
                ex_begin();
                feed_cc(21, 0x1C, 0x2B); cc_string(21, str); feed_cc(21, 0x1C, 0x2D);
                feed_cc_raw(21, 0x80, 0x80); feed_cc_raw(21, 0x80, 0x80);
                audit();
                ex_end();
                n++;
        }
        mc_count("evaluations", n); mc_count("itv_strings", n);
        mc_distinct(0x17F000000ull + idx);
}

/* ---- VPS / WSS / CPR-1204 payload bytes ---------------------------------------------------- */

static void line_case(uint64_t idx, void *arg)
{
        vbi_sliced s; uint64_t n = 0;
        if (idx < 256) {
                /* all 65536 WSS words: b0 = idx, b1 = 0..255; a word must repeat before it is decoded */
                for (int b1 = 0; b1 < 256; b1++) {
                        snprintf(cur_ctx, sizeof cur_ctx, "WSS word %02x %02x four times", (int) idx, b1);
                        ex_begin();
                        memset(&s, 0, sizeof s); s.id = VBI_SLICED_WSS_625; s.line = 23; s.data[0] = idx; s.data[1] = b1;
                        for (int r = 0; r < 4; r++) feed_lines(&s, 1, 0.04);
                        s.id = VBI_SLICED_WSS_CPR1204; s.line = 20; s.data[0] = b1; feed_lines(&s, 1, 0.04);
                        audit();
                        ex_end(); n++;
                }
        } else {
                /* VPS: each of the 13 bytes x 256 values on two base lines, twice (a CNI must repeat) */
                int pos = (idx - 256) % 13, base = (idx - 256) / 13;
                for (int v = 0; v < 256; v++) {
                        snprintf(cur_ctx, sizeof cur_ctx, "VPS base %d byte %d := 0x%02x, three times", base, pos, v);
                        ex_begin();
                        memset(&s, 0, sizeof s); s.id = VBI_SLICED_VPS; s.line = 16;
                        if (base < 2) vbi_encode_vps_cni(s.data, cni_vps[base]); else memset(s.data, 0xFF, 13);
                        s.data[pos] = v;
                        for (int r = 0; r < 3; r++) feed_lines(&s, 1, 0.04);
                        audit();
                        ex_end(); n++;
                }
        }
        mc_count("evaluations", n); mc_count("line_payloads", n);
        mc_distinct(0x11E000000ull + idx);
}

/* ---- growth bound ----------------------------------------------------------- */

#define NGROW 21
static int GL[NGROW]; static int grow_len;

static void build_growth(void)
{
        static const char *names[NGROW] = {
                "H100+erase", "row1 text+links", "H1FF(filler)", "H17A", "DRCS row1", "H1FD(MIP)", "MIP row11 (16A..18F: GPOP,TOP,DRCS,POP,trigger,EPG...)",
                "H1E7(trigger,national 7)", "trigger B (EACEM deferred, checksum)", "X/26/0 (POP object, DRCS, chars)", "8/30/1", "8/30/1 (other network)",
                "vbi_channel_switched", "40 regular empty frames", "F1 RU2", "F1 text 36 chars", "F1 CR", "ITV string 1 in T2 + CR", "XDS packet: current title 32",
                "fetch cached pages L3.5 25 rows nav", "trigger D (EACEM deferred 115 days)" };
        for (int i = 0; i < NGROW; i++) GL[i] = letter_by_name(names[i]);
}

struct growth_point { size_t bytes; int blocks; unsigned pages, nets; };

static void growth_measure(struct growth_point *g)
{
        g->bytes = acct_bytes; g->blocks = acct_nlive;
        g->pages = G.vbi->ca->n_cached_pages;
        g->nets = 0; for (struct node *nd = G.vbi->ca->networks._succ; nd != &G.vbi->ca->networks && g->nets < 1000; nd = nd->_succ) g->nets++;
}

static void growth_run(const short *seq, int n, const char *what)
{
        struct growth_point g[3];
        ex_begin();
        for (int rep = 1; rep <= 9; rep++) {
                acct_epoch = rep;
                for (int i = 0; i < n; i++) do_letter(seq[i]);
                if (rep % 3 == 0) growth_measure(&g[rep / 3 - 1]);
        }
        long d1 = (long) g[1].bytes - (long) g[0].bytes, d2 = (long) g[2].bytes - (long) g[1].bytes;
        if (getenv("C01_GROWTH_DEBUG")) fprintf(stderr, "GROWTH %zu %zu %zu | %s\n", g[0].bytes, g[1].bytes, g[2].bytes, what);
        if (d1 > 0 && d2 > 0) {
                /* Nine repetitions can also be the filling of something bounded (deferred triggers waiting for their fire time,
                 * a list with a cap): growth without bound must still be there after 99 / 198 / 297
                 * repetitions (36 s and more of decoder time).  Otherwise it saturates and is only counted. */
                for (int rep = 10; rep <= 297; rep++) {
                        acct_epoch = rep;
                        for (int i = 0; i < n; i++) do_letter(seq[i]);
                        if (rep % 99 == 0) growth_measure(&g[rep / 99 - 1]);
                }
                d1 = (long) g[1].bytes - (long) g[0].bytes; d2 = (long) g[2].bytes - (long) g[1].bytes;
                if (!(d1 > 0 && d2 > 0)) { mc_count("growth_saturates_within_297_repetitions", 1); mc_outcome("growth over 9 repetitions that saturates within 297 (bounded, not a violation)"); }
        }
        if (d1 > 0 && d2 > 0) {
                /* name the allocation site of what accumulates: blocks from the last three repetitions that are still alive */
                char fn[128] = "unknown_function"; size_t big = 0;
                for (int i = 0; i < ATAB; i++) if (atab[i].p && atab[i].p != TOMB && atab[i].epoch >= 199 && atab[i].n > big) { big = atab[i].n; pc_function(atab[i].pc, fn, sizeof fn); }
                char key[200]; snprintf(key, sizeof key, "growth: repeating the same input accumulates blocks allocated in %s", fn);
                viol(key, "live heap bytes after 99/198/297 repetitions: %zu/%zu/%zu (+%ld per 99 repetitions), cached pages %u/%u/%u, networks %u/%u/%u | %s",
                             g[0].bytes, g[1].bytes, g[2].bytes, d1, g[0].pages, g[1].pages, g[2].pages, g[0].nets, g[1].nets, g[2].nets, what);
        }
        if (g[2].pages > g[1].pages && g[1].pages > g[0].pages && g[2].pages - g[1].pages == g[1].pages - g[0].pages)
                mc_count("growth_cached_pages_linear", 1);
        audit();
        ex_end();
        mc_count("evaluations", 1);
}

static void growth_case(uint64_t idx, void *arg)
{
        short seq[SMAX]; int n = 0;
        if (idx < (uint64_t) NST) {
                const struct story *s = &ST[idx];
                for (int i = 0; i < s->n; i++) seq[n++] = s->step[i];
                snprintf(cur_ctx, sizeof cur_ctx, "growth: storyline '%s' x 9", s->name);
        } else {
                uint64_t v = idx - NST;
                for (int i = 0; i < grow_len; i++) { seq[n++] = GL[v % NGROW]; v /= NGROW; }
                size_t o = snprintf(cur_ctx, sizeof cur_ctx, "growth: (");
                for (int i = 0; i < n && o + 70 < sizeof cur_ctx; i++) o += snprintf(cur_ctx + o, sizeof cur_ctx - o, "%s%s", i ? " ; " : "", LT[seq[i]].name);
                snprintf(cur_ctx + o, sizeof cur_ctx - o, ") x 9");
        }
        growth_run(seq, n, cur_ctx);
        mc_distinct(0x6000000000ull + idx);
}

/* ---- auxiliary: the same byte exhaustive packets through the IDL / PFC demultiplexers ---- */

static vbi_bool aux_idl_cb(vbi_idl_demux *dx, const uint8_t *buffer, unsigned int n_bytes, unsigned int flags, void *ud)
{
        for (unsigned i = 0; i < n_bytes; i++) G.sink += buffer[i];
        return TRUE;
}
static vbi_bool aux_pfc_cb(vbi_pfc_demux *dx, void *ud, const vbi_pfc_block *block)
{
        if (block->block_size > sizeof block->block) viol("pfc block larger than its buffer", "size=%u", block->block_size);
        for (unsigned i = 0; i < block->block_size && i < sizeof block->block; i++) G.sink += block->block[i];
        return TRUE;
}

static void aux_case(uint64_t idx, void *arg)
{
        int which = idx / 42, pos = idx % 42;
        uint8_t base[3][42];
        /* IDL format A packet, channel 1 (magazine 1 packet 30), address 0; PFC: header of page 1DF stream 1 + a data row */
        pk_addr(base[0], 1, 30);
        base[0][2] = vbi_ham8(0); base[0][3] = vbi_ham8(2); base[0][4] = vbi_ham8(0); base[0][5] = vbi_ham8(0);
        for (int i = 6; i < 42; i++) base[0][i] = i * 3;
        pk_hdr(base[1], 1, 0xDF, 0x0100, 0);
        pk_addr(base[2], 1, 1); base[2][2] = vbi_ham8(1); for (int i = 3; i < 42; i++) base[2][i] = vbi_ham8(i & 15);
        snprintf(cur_ctx, sizeof cur_ctx, "aux demux: %s packet, byte %d x 256 values", which == 0 ? "IDL A" : which == 1 ? "PFC header" : "PFC row", pos);
        acct_begin();
        for (int v = 0; v < 256; v++) {
                uint8_t *p = __real_malloc(42); memcpy(p, base[which], 42); p[pos] = v;
                if (which == 0) {
                        op("vbi_idl_demux_feed");
                        vbi_idl_demux *dx = vbi_idl_a_demux_new(1, 0, aux_idl_cb, NULL);
                        if (!dx) harness_die("vbi_idl_a_demux_new");
                        vbi_idl_demux_feed(dx, base[0]); vbi_idl_demux_feed(dx, p); vbi_idl_demux_feed(dx, base[0]);
                        vbi_idl_demux_delete(dx);
                } else {
                        op("vbi_pfc_demux_feed");
                        vbi_pfc_demux *dx = vbi_pfc_demux_new(0x1DF, 1, aux_pfc_cb, NULL);
                        if (!dx) harness_die("vbi_pfc_demux_new");
                        if (which == 1) { vbi_pfc_demux_feed(dx, p); vbi_pfc_demux_feed(dx, base[2]); }
                        else { vbi_pfc_demux_feed(dx, base[1]); vbi_pfc_demux_feed(dx, p); vbi_pfc_demux_feed(dx, base[2]); }
                        vbi_pfc_demux_feed(dx, base[1]);
                        vbi_pfc_demux_delete(dx);
                }
                __real_free(p);
        }
        acct_end("vbi_idl/pfc_demux_delete");
        mc_count("evaluations", 256);
        mc_distinct(0xA000000000ull + idx);
}

/* ======================================================================== */
/* main                                                                     */
/* ======================================================================== */


static void debug_story(int idx)
{
        const struct story *s = &ST[idx];
        acct_on = 0;
        memset(&G, 0, sizeof G);
        G.vbi = vbi_decoder_new(); G.t = 1000.0;
        vbi_event_handler_register(G.vbi, EV_ALL, ev_consume, NULL);
        for (int i = 0; i < s->n; i++) {
                do_letter(s->step[i]);
                struct raw_page *r = G.vbi->vt.current;
                fprintf(stderr, "%2d %-50s cur=%03x fn=%d lop=%x x26=%x ntr=%d\n", i, LT[s->step[i]].name, r ? r->page->pgno : 0, r ? r->page->function : 99,
                        r ? r->page->lop_packets : 0, r ? r->page->x26_designations : 0, r ? r->num_triplets : 0);
        }
        struct pgkey pk[MAXCP]; int np = cached_pages(pk, MAXCP);
        for (int i = 0; i < np; i++) fprintf(stderr, "cached %03x/%04x function %d\n", pk[i].pgno, pk[i].subno, pk[i].function);
        struct ttx_magazine *mag = cache_network_magazine(G.vbi->cn, 0x100);
        fprintf(stderr, "pop_lut[0]=%d drcs_lut[0]=%d pop_link %03x %03x drcs_link %03x %03x have_top=%d\n", mag->pop_lut[0], mag->drcs_lut[0],
                mag->pop_link[0][0].pgno, mag->pop_link[0][1].pgno, mag->drcs_link[0][0], mag->drcs_link[0][1], G.vbi->cn->have_top);
        vbi_page pg;
        for (int lv = 1; lv <= 3; lv++) {
                int ok = vbi_fetch_vt_page(G.vbi, &pg, 0x100, VBI_ANY_SUBNO, lv, 25, 1);
                fprintf(stderr, "fetch 100 level %d -> %d\n", lv, ok);
                if (ok) for (int r = 0; r < 4; r++) { for (int c = 0; c < 12; c++) fprintf(stderr, "%04x ", pg.text[r * 41 + c].unicode); fprintf(stderr, "\n"); }
                if (ok) for (int i = 0; i < 32; i++) if (pg.drcs[i]) fprintf(stderr, "drcs[%d] set\n", i);
        }
        probes(1);
        fprintf(stderr, "reached pop=%d drcs=%d topnav=%d title=%d trig=%d topindex=%d lop=%d flof=%d events=%llu\n", G.reached_pop_obj, G.reached_drcs, G.reached_top_nav, G.reached_title,
                G.reached_trigger_ev, G.reached_top_index, G.reached_lop_fetch, G.reached_flof, (unsigned long long) G.nevents);
}


#include <time.h>
static double cpu_now(void) { struct timespec ts; clock_gettime(CLOCK_PROCESS_CPUTIME_ID, &ts); return ts.tv_sec + ts.tv_nsec * 1e-9; }
static void bench(void)
{
        const struct story *s = &ST[0];
        double t0; int N = 2000; uint64_t h[2];
        snprintf(cur_ctx, sizeof cur_ctx, "bench");
        t0 = cpu_now(); for (int i = 0; i < N; i++) { ex_begin(); ex_end(); } fprintf(stderr, "new+delete            %.1f us\n", (cpu_now() - t0) / N * 1e6);
        t0 = cpu_now(); for (int i = 0; i < N; i++) { ex_begin(); run_story_steps(s, 0, s->n); ex_end(); } fprintf(stderr, "+story(%d letters)     %.1f us\n", s->n, (cpu_now() - t0) / N * 1e6);
        t0 = cpu_now(); for (int i = 0; i < N; i++) { ex_begin(); run_story_steps(s, 0, s->n); state_hash(h, NULL); ex_end(); } fprintf(stderr, "+story+hash            %.1f us\n", (cpu_now() - t0) / N * 1e6);
        t0 = cpu_now(); for (int i = 0; i < N; i++) { ex_begin(); run_story_steps(s, 0, s->n); probes(0); ex_end(); } fprintf(stderr, "+story+probes(0)       %.1f us\n", (cpu_now() - t0) / N * 1e6);
        t0 = cpu_now(); for (int i = 0; i < N; i++) { ex_begin(); run_story_steps(s, 0, s->n); probes(1); ex_end(); } fprintf(stderr, "+story+probes(1)       %.1f us\n", (cpu_now() - t0) / N * 1e6);
        t0 = cpu_now(); for (int i = 0; i < N; i++) { ex_begin(); probes_cc(); ex_end(); } fprintf(stderr, "new+probes_cc+delete   %.1f us\n", (cpu_now() - t0) / N * 1e6);
}

static void warm_up(void)
{
        /* one clean execution in the parent, not accounted: lets libc / libpng / iconv do their one
         * time allocations before the workers are forked */
        snprintf(cur_ctx, sizeof cur_ctx, "warm up");
        viol_muted = 1;
        acct_begin();           /* tracked only to release what a leaking library leaves behind: the workers check it */
        memset(&G, 0, sizeof G);
        G.vbi = vbi_decoder_new(); G.t = 1000.0;
        if (!G.vbi) harness_die("vbi_decoder_new failed");
        vbi_event_handler_register(G.vbi, EV_ALL, ev_consume, NULL);
        /* benign text only: an undefined operation executed here would be recorded against no case, and UBSan reports
         * a source location once per process - the workers forked later would stay silent about it */
        uint8_t row[42]; pk_row(row, 1, 1, " WARM UP ");
        feed_ttx(PKT[P_H100E]); feed_ttx(row); feed_ttx(PKT[P_H1FF]);
        feed_cc(21, 0x14, 0x25); feed_cc(21, 'A', 'B');
        for (int id = LT_READ0; id < LT_READ1; id++) do_letter(id);
        drop_held();
        vbi_decoder_delete(G.vbi); G.vbi = NULL;
        acct_on = 0;
        for (int i = 0; i < ATAB; i++) if (atab[i].p && atab[i].p != TOMB) { void *p = atab[i].p; atab[i].p = TOMB; __wrap_free(p); }
        acct_nlive = 0; acct_bytes = 0;
        viol_muted = 0;
}

/* development aid: C01_ONLY=<substring> runs only the phases whose name contains it (never set by bin/check) */
static int phase_wanted(const char *name) { const char *o = getenv("C01_ONLY"); return !o || strstr(name, o) || mc_replaying; }
#define POOL(name, n, fn, arg, to) do { if (phase_wanted(name)) mc_pool(name, n, fn, arg, to); } while (0)

int main(int argc, char **argv)
{
        /* UBSan must not stop at the first report: see harness/C01.mk */
        const char *u = getenv("UBSAN_OPTIONS");
        if (!u || !strstr(u, "halt_on_error=0")) {
                setenv("UBSAN_OPTIONS", "halt_on_error=0:print_stacktrace=0", 1);
                execv("/proc/self/exe", argv);
                perror("C01: re-exec"); return 2;
        }
        mc_init(argc, argv, "C01");
        mc_set_budget(420, 1500);
        int thorough = mc_tier == MC_THOROUGH;

        build_packets(); build_letters(); build_stories(); build_cc_states(); build_growth();
        if (getenv("C01_STORY")) { debug_story(atoi(getenv("C01_STORY"))); return 0; }
        if (getenv("C01_BENCH")) { warm_up(); bench(); return 0; }
        if (!mc_replaying) warm_up();

        mc_meta("level", "model_checking");
        mc_meta("technique", "explicit-state BFS over event histories on the real vbi_decoder with canonical state hashing (10 layered alphabets, 4 of them read-side layers starting from populated decoders: Level 2.5, TOP, TOP without block page + hexadecimal page, caption), every order of the page transmissions of well formed storylines, TOP services with every number of AIT titles (TOP index page 900), plus byte-exhaustive single steps (every byte value at every position of every packet of these transmissions; all 65536 caption byte pairs on both fields from several caption states); oracles: AddressSanitizer, recoverable UBSan through __ubsan_on_report, assert, per case watchdog, allocator accounting at vbi_decoder_delete, LeakSanitizer backstop, linear growth under repetition");
        mc_meta("rule", "a case is a history of letters (one letter = one vbi_decode() of one sliced line, one macro transmission, or one read-side call group) replayed on a fresh decoder and hashed canonically (raw pages, caption channels, XDS/ITV buffers, network, magazines, page statistics, cache contents in MRU order, held page); de-duplicated states are expanded with every letter of the layer. Storyline cases (fixed order, every order of the transmissions, one byte of one packet replaced by each value) run the rest of the storyline and the read-side probes - every cached page, decimal or hexadecimal number, fetched with 25 rows + navigation at Level 3.5/2.5, header-only, links, text, TOP index, titles; a TOP index case is one (titles in AIT 17C, titles in AIT 16A, numbering, BTT position) service followed by the fetches of page 900 and the probes; distinct = canonical final states reached (BFS states and byte variants) - a variant that decodes to the same state as another is not counted twice");
        mc_meta("assume", "forward/backward searches start at page 100 or at a cached page and are cut by the progress callback after 2*(cached pages)+2 visits (non-termination from a start above all cached pages is C17's finding)");
        mc_meta("assume", "vbi_decode() is never called from an event handler and all calls come from one thread (documented restrictions)");
        mc_meta("assume", "API arguments are within their documented domains where the library asserts them (vbi_resolve_link column/row inside the page, vbi_cache_hi_subno pgno 0x100..0x8FF)");
        mc_meta("assume", "the event handler reads payload strings with bounded functions; unterminated strings are counted, not reported");
        mc_meta("assume", "time stamps: regular (+40 ms per call), +0, -1 s, +10 s; 40 and 300 regular frames as macro letters");

        /* ---- layers ---- */
        struct layer *ly;
        ly = &LY[NLY++]; ly->name = "ttx"; ly->probe = 1; ly_range(ly, LT_TTX0, LT_TTX0 + NPKT); ly->depth[0] = 3; ly->depth[1] = 4;
        ly = &LY[NLY++]; ly->name = "cc"; ly_range(ly, LT_CC0, LT_CC1); ly->depth[0] = 3; ly->depth[1] = 4;
        ly = &LY[NLY++]; ly->name = "misc"; ly_range(ly, LT_MISC0, LT_MISC1);
        { static const char *n[] = { "8/30/1", "8/30/1 (other network)", "8/30/2", "8/30/2 (other network)", "H100+erase", "row1 text+links", "H1FF(filler)", "F1 RU2", "F1 text AB",
                                     "fetch cached pages L3.5 25 rows nav", "fetch cc pages 1..8, 0, 9, -1", NULL }; ly_names(ly, n); }
        ly->depth[0] = 3; ly->depth[1] = 4;
        /* read side from a Level 2.5 decoder */
        ly = &LY[NLY++]; ly->name = "read-level25";
        for (int i = 0; i < ST[0].n; i++) ly_pre(ly, ST[0].step[i]);
        ly_range(ly, LT_READ0, LT_READ1);
        { static const char *n[] = { "H17A", "DRCS row1", "H17B", "POP row3 (active objects)", "H100", "X/26/0 (POP object, DRCS, chars)", "X/26/0 (local objects)", "H1FF(filler)",
                                     "MOT row19 (POP links)", "X/27/4 (GPOP/POP/GDRCS/DRCS links)", "X/28/0 (LOP)", "vbi_channel_switched", "empty frame dt=+10s", "H1FE(MOT)", NULL }; ly_names(ly, n); }
        ly->depth[0] = 2; ly->depth[1] = 3;
        /* read side from a TOP decoder */
        ly = &LY[NLY++]; ly->name = "read-top";
        for (int i = 0; i < ST[2].n; i++) ly_pre(ly, ST[2].step[i]);
        ly_range(ly, LT_READ0, LT_READ1);
        { static const char *n[] = { "H1F0(BTT)", "BTT row1 (100..139)", "BTT row21 (links AIT 17C, MPT 17D, MPT-EX 17E)", "H17C", "AIT row1 (titles 100, 101)", "H100/0001", "row1 text+links",
                                     "H1FF(filler)", "X/27/0 (FLOF links)", "row24 flof labels", "vbi_channel_switched", NULL }; ly_names(ly, n); }
        ly->depth[0] = 2; ly->depth[1] = 3;
        /* read side from a decoder that recognised TOP, knows no block page and holds a page with a hexadecimal number
         * (seed C01 round 5): every read side letter - fetches at all levels, exports, searches (vbi_search_next() formats with
         * navigation), held pages - and the transmissions that change the TOP / MIP tables or give the page FLOF links */
        ly = &LY[NLY++]; ly->name = "read-tophex";
        { const struct story *hs = story_by_name("TOP without block pages (BTT packet 21 only), hexadecimal and decimal pages listed by the MIP");
          for (int i = 0; i < hs->n; i++) ly_pre(ly, hs->step[i]); }
        ly_range(ly, LT_READ0, LT_READ1);
        { static const char *n[] = { "H1F0(BTT)", "BTT row1 (groups 100, 110, 117, 126; no block)", "BTT row1 (100..139)", "BTT row21 (links AIT 17C, MPT 17D, MPT-EX 17E)",
                                     "H10A+erase (MIP row9: normal page)", "H12F+erase (MIP row9: normal page)", "H18A+erase (MIP row11: normal page)", "row1 text+links",
                                     "X/27/0 (FLOF links)", "row24 flof labels", "H1FD(MIP)", "MIP row9 (10A..12F: normal, subtitle, schedule pages...)",
                                     "MIP row11 (16A..18F: GPOP,TOP,DRCS,POP,trigger,EPG...)", "H1FF(filler)", "vbi_channel_switched", NULL }; ly_names(ly, n); }
        ly->depth[0] = 3; ly->depth[1] = 4; ly->timeout = 20;
        /* caption read side */
        ly = &LY[NLY++]; ly->name = "read-cc";
        { static const char *p[] = { "F1 RU2", "F1 text 36 chars", "F1 CR", "F1 text AB", "F2 RU4", "F2 text ab", NULL }; for (const char *const *q = p; *q; q++) ly_pre(ly, letter_by_name(*q)); }
        { static const char *n[] = { "fetch cc pages 1..8, 0, 9, -1", "export text (options) of cc pages", "export ppm of cc pages", "draw cc pages", "hold cc page 1", "held page: links, text, draw",
                                     "held page: export png+html", "unref held page", "classify/title/hi_subno/is_cached", "F1 CR", "F1 EOC", "F1 EDM", "F1 text AB", "F1 RCL", "F1 PAC row 15 indent 28 u",
                                     "F1 RTD", "F2 CR", "vbi_channel_switched", "empty frame dt=-1s", "handler for CAPTION only", "brightness 255 contrast 127", NULL }; ly_names(ly, n); }
        ly->depth[0] = 3; ly->depth[1] = 4;
        /* cross layer */
        ly = &LY[NLY++]; ly->name = "cross";
        { static const char *n[] = { "H100+erase", "H100", "row1 text+links", "X/26/0 (POP object, DRCS, chars)", "H17A", "DRCS row1", "H1FF(filler)", "H1FD(MIP)", "MIP row11 (16A..18F: GPOP,TOP,DRCS,POP,trigger,EPG...)",
                                     "H1E7(trigger,national 7)", "trigger B (EACEM deferred, checksum)", "8/30/1",
                                     "F1 RU2", "F1 text AB", "F1 CR", "F1 RTD ch2 (T2)", "ITV string 1 in T2 + CR", "XDS packet: current title 32", "XDS start current/title", "XDS end (checksum good)",
                                     "VPS network A", "WSS 4:3", "empty frame dt=+10s", "40 regular empty frames", "vbi_channel_switched", "unregister all handlers", "handler for all events",
                                     "fetch cached pages L3.5 25 rows nav", "hold page L2.5", "held page: links, text, draw", "unref held page", "fetch cc pages 1..8, 0, 9, -1",
                                     "search pattern 0 scheme 0", "export text of a cached page", "classify/title/hi_subno/is_cached", NULL }; ly_names(ly, n); }
        ly->depth[0] = 3; ly->depth[1] = 4;


        /* reduced alphabets, deeper */
        ly = &LY[NLY++]; ly->name = "ttx-core";
        { static const char *n[] = { "H100+erase", "H100", "row1 text+links", "X/26/0 (POP object, DRCS, chars)", "H17A", "DRCS row1", "H17B", "POP row1 (pointers)", "POP row3 (active objects)",
                                     "H1FE(MOT)", "MOT row1 (lut 100..119)", "MOT row19 (POP links)", "MOT row21 (DRCS links)", "H1FD(MIP)", "MIP row11 (16A..18F: GPOP,TOP,DRCS,POP,trigger,EPG...)",
                                     "H1FF(filler)", "H1F0(BTT)", "BTT row21 (links AIT 17C, MPT 17D, MPT-EX 17E)", "H17C", "AIT row1 (titles 100, 101)", "H100/0001", "X/28/0 (LOP)",
                                     "fetch cached pages L3.5 25 rows nav", "vbi_channel_switched", NULL }; ly_names(ly, n); }
        ly->depth[0] = 3; ly->depth[1] = 5;
        ly = &LY[NLY++]; ly->name = "cc-core";
        { static const char *n[] = { "F1 RCL", "F1 RU2", "F1 RU4", "F1 RDC", "F1 TR", "F1 RTD ch2 (T2)", "F1 EOC", "F1 EDM", "F1 CR", "F1 BS", "F1 DER", "F1 TO3", "F1 PAC row 1", "F1 PAC row 15 indent 28 u",
                                     "F1 text AB", "F1 text 36 chars", "F1 NUL pair", "F2 RU4", "F2 text ab", "F2 CR", "XDS start current/title", "XDS/F2 payload 30 chars", "XDS/F2 payload XY",
                                     "XDS end (checksum good)", "fetch cc pages 1..8, 0, 9, -1", NULL }; ly_names(ly, n); }
        ly->depth[0] = 3; ly->depth[1] = 5;

        n_cc_states = thorough ? NCCS : 4;
        grow_len = thorough ? 3 : 2;
        build_targets(!thorough);

        char bound[2000]; size_t o = 0;
        for (int i = 0; i < NLY; i++) o += snprintf(bound + o, sizeof bound - o, "%s%s: %d letters, depth %d", i ? "; " : "layers ", LY[i].name, LY[i].n, LY[i].depth[thorough]);
        o += snprintf(bound + o, sizeof bound - o, "; storyline orders: every order of the page transmissions of each storyline (up to 7 transmissions, thorough 8: all permutations; more: all rotations and exchanges of two), incl. 3 TOP storylines with displayable hexadecimal pages (10A, 12F, 18A, 18B by MIP rows 9/11) x TOP tables (packet 21 only / no block page / complete), every cached page fetched with 25 rows + navigation; TOP index: TOP services with all title counts 0..46 x 0..46 of the 2 linked AIT pages x 3 title numberings x BTT before/after, page 900 sub-page ANY, 0..6 into an exact heap vbi_page; byte exhaustive: %d (state,packet) targets of %d storylines x 42 positions x 256 values; caption: %d states x 2 fields x 65536 pairs; growth: %d storylines + all %d-letter sequences over %d letters, 9 repetitions (linear growth confirmed over 297 repetitions before it is reported); held page: 3 storylines x 2 levels x 10 disturbances x 2 uses; XDS: 96 (class,type) x 11 lengths x %d values x 2 patterns; ITV: 8 strings x every position x 96 characters; all 65536 WSS words, 256 CPR-1204 bytes, VPS 3 bases x 13 bytes x 256; aux IDL/PFC: 3 packets x 42 x 256",
                      NTG, NST, n_cc_states, NST, grow_len, NGROW, thorough ? 96 : 9);
        mc_meta("bound", "%s", bound);
        mc_note("alphabet: %d letters (%d Teletext packets, %d caption/XDS/ITV, %d misc, %d read side)", NLT, NPKT, LT_CC1 - LT_CC0, LT_MISC1 - LT_MISC0, LT_READ1 - LT_READ0);

        /* watchdog limit: the engine re-runs the first timed out case alone with 5 x the limit before it calls it a hang, and
         * the limit is part of the violation key (crash=hang>100s).  A storyline case takes milliseconds, a case of 48 orders
         * about 0.1 s, a byte case (256 executions) about 0.3 s of CPU: 20 s is more than 60 x that, one defect gets one key in
         * the three phases, and a tree that loops in every one of them (seed C01 round 5: 100 s confirmation + one limit per
         * phase) is still reported within a few minutes */
        POOL("storylines-selfcheck", NST, story_selfcheck_case, NULL, 20);
        build_orders(thorough);
        POOL("storyline-orders", n_order_cases, order_case, NULL, 20);
        POOL("top-index-titles", (uint64_t) 2 * (TIX_MAX + 1), tix_case, NULL, 20);

        POOL("byte-exhaustive", (uint64_t) NTG * 42, byte_case, NULL, 20);
        { static int use0 = 0, use1 = 1;
          POOL("held-page-draw", (uint64_t) 2 * NDISTURB * (sizeof HELD_STORIES / sizeof *HELD_STORIES), held_case, &use0, 60);
          POOL("held-page-export", (uint64_t) 2 * NDISTURB * (sizeof HELD_STORIES / sizeof *HELD_STORIES), held_case, &use1, 60); }
        xds_values = thorough ? 96 : 9;
        POOL("xds-types", 4 * 0x18, xds_case, NULL, 120);
        POOL("itv-strings", (uint64_t)(NITVS + 1) * 48, itv_case, NULL, 120);
        POOL("line-bytes", 256 + 3 * 13, line_case, NULL, 120);
        POOL("caption-pairs", (uint64_t) n_cc_states * 2 * 256, ccpair_case, NULL, 120);
        { uint64_t nseq = 1; for (int i = 0; i < grow_len; i++) nseq *= NGROW; POOL("growth", NST + nseq, growth_case, NULL, 120); }
        POOL("aux-idl-pfc", 3 * 42, aux_case, NULL, 60);
        /* layers last, cheapest first: if the global deadline cuts the run, it cuts the deepest level of the biggest layer */
        { static const char *order[] = { "read-level25", "read-top", "read-tophex", "read-cc", "cross", "misc", "ttx-core", "cc-core", "ttx", "cc" };
          for (unsigned k = 0; k < sizeof order / sizeof *order; k++) for (int i = 0; i < NLY; i++) {
                if (strcmp(LY[i].name, order[k])) continue;
                mc_bfs_spec spec; memset(&spec, 0, sizeof spec);
                spec.nletters = LY[i].n; spec.max_depth = LY[i].depth[thorough]; spec.timeout_s = LY[i].timeout ? LY[i].timeout : 60;
                spec.run = bfs_run; spec.arg = &LY[i]; spec.letter_name = layer_letter_name;
                char phase[64]; snprintf(phase, sizeof phase, "bfs-%s", LY[i].name);
                mc_bfs_result res;
                if (phase_wanted(phase)) mc_bfs(phase, &spec, &res);
          } }
        return mc_finish();
}
