# ASan without UBSan: the property is about memory accesses.  With UBSan the legacy
# vbi_bit_slicer_init() aborts for every service with frc_bits == 0 (VPS, WSS:
# decoder.c:348 "(unsigned)(-(frc_bits > 0)) >> (32 - frc_bits)", shift exponent 32,
# value 0 >> 32, benign on this target) and io-sim.c converts negative doubles to
# unsigned for Closed Caption samples before the CRI - both C01 ground, both would
# mask the exploration here.
VARIANT_C05 := asanx
