VARIANT_C12 := fast
