HLINK_C18 := $(PROXY_WRAP)
HDEPS_C18 := harness/proxyd_env.h
