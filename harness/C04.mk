# C04: functional oracle on decoded values at high volume -> uninstrumented `fast' library.
# A sub-lattice runs a second time under AddressSanitizer (bin/C04_asan, phase asan-pass)
# with exactly sized output arrays; ASan-only variant `asanx', see harness/C04_asan.c.
VARIANT_C04 := fast
HDEPS_C04 := $(B)/bin/C04_asan harness/C04.mk

$(B)/bin/C04_asan: harness/C04_asan.c harness/C04.c harness/C04.mk engine/mc.h $(B)/asanx/libzvbi.a
	@mkdir -p $(@D)
	$(CC_asanx) $(CFLAGS_asanx) -w $(CPPFLAGS_COMMON) -I$(V)/engine -I$(V)/harness harness/C04_asan.c \
	  $(B)/asanx/libzvbi.a $(LDLIBS) -o $@
