/* self test of proxyd_env.h: two clients, different services, three frames */
#include <stdio.h>
#include <stdlib.h>
#include <string.h>
#include "mc.h"
#include "proxyd_env.h"

static int step;
static int hook(int nready)
{
        if (nready > 0) return ENV_RUN;
        VBIPROXY_CONNECT_REQ q;
        switch (step++) {
        case 0: env_connect(0); return ENV_REPOLL;
        case 1: env_fill_connect_req(&q, "c0", VBI_SLICED_TELETEXT_B | VBI_SLICED_VPS, 0, 5); env_send_msg(0, MSG_TYPE_CONNECT_REQ, &q, sizeof q); return ENV_REPOLL;
        case 2: env_read(0, -1); return ENV_REPOLL;
        case 3: env_connect(1); return ENV_REPOLL;
        case 4: env_fill_connect_req(&q, "c1", VBI_SLICED_WSS_625, 1, 5); env_send_msg(1, MSG_TYPE_CONNECT_REQ, &q, sizeof q); return ENV_REPOLL;
        case 5: env_read(1, -1); env_read(0, -1); return ENV_REPOLL;
        case 6: case 8: case 10: if (!env_frame()) mc_violation("selftest", "device not open at frame time"); return ENV_REPOLL;
        case 7: case 9: case 11: env_read(0, -1); env_read(1, -1); return ENV_REPOLL;
        case 12: env_send_msg(0, MSG_TYPE_CLOSE_REQ, NULL, 0); return ENV_REPOLL;
        case 13: env_close(1); return ENV_REPOLL;
        case 14: env_read(0, -1); return ENV_REPOLL;
        default: return ENV_EXIT;
        }
}
static void one(uint64_t idx, void *arg)
{
        mc_case("proxyenv selftest", "run");
        for (int rep = 0; rep < 3; rep++) {
        step = 0;
        env_init(); env_hook_fn = hook; env_run();
        int s0 = 0, s1 = 0;
        for (int i = 0; i < env_clnt[0].nlog; i++) { env_rxmsg *m = &env_clnt[0].log[i];
                if (m->type == MSG_TYPE_SLICED_IND) { s0++; if (!m->lines_ok || m->ids != (VBI_SLICED_TELETEXT_B | VBI_SLICED_VPS) || m->nlines != 4) mc_violation("selftest", "c0 frame %d ids %x n %d ok %d", m->frame, m->ids, m->nlines, m->lines_ok); } }
        for (int i = 0; i < env_clnt[1].nlog; i++) { env_rxmsg *m = &env_clnt[1].log[i];
                if (m->type == MSG_TYPE_SLICED_IND) { s1++; if (!m->lines_ok || m->ids != VBI_SLICED_WSS_625 || m->nlines != 1) mc_violation("selftest", "c1 frame %d ids %x n %d", m->frame, m->ids, m->nlines); } }
        if (s0 != 3 || s1 != 3) mc_violation("selftest", "frames c0=%d c1=%d nlog %d %d", s0, s1, env_clnt[0].nlog, env_clnt[1].nlog);
        if (env_clnt[0].log[0].type != MSG_TYPE_CONNECT_CNF || env_clnt[0].log[0].services != (VBI_SLICED_TELETEXT_B | VBI_SLICED_VPS)) mc_violation("selftest", "c0 connect cnf type %d services %x", env_clnt[0].log[0].type, env_clnt[0].log[0].services);
        if (env_cap.is_open || env_cap.opens != env_cap.closes) mc_violation("selftest", "device open=%d opens=%d closes=%d", env_cap.is_open, env_cap.opens, env_cap.closes);
        if (proxy.p_clnts) mc_violation("selftest", "clients remain");
        env_shutdown();
        mc_leak_check("selftest leak");
        mc_sample("c0 got %d msgs, c1 got %d msgs, selects=%ld opens=%d", env_clnt[0].nlog, env_clnt[1].nlog, env_select_calls, env_cap.opens);
        mc_distinct(rep + 1);
        }
}
int main(int argc, char **argv)
{
        mc_init(argc, argv, "PROXYENV");
        mc_pool("selftest", 1, one, NULL, 20);
        return mc_finish();
}
