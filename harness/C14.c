/* C14 - PIL to time conversion picks the right year and instant and leaves TZ alone.
 *
 * Exhaustive lattice over (PIL, reference time, UTC offset / zone string, ambient TZ) on the real
 * vbi_pil_lto_to_time(), vbi_pil_to_time(), vbi_pil_lto_validity_window(), vbi_pil_validity_window()
 * and vbi_pty_validity_window() of src/pdc.c (gcc -O2 `fast' build, time() interposed with --wrap).
 *
 * Oracle
 *  - offset variants: independent proleptic Gregorian arithmetic (days-from-civil / civil-from-days on
 *    64 bit integers, nothing taken from the library or from libc).  The library result is VIEWED at the
 *    offset and must show the PIL's month/day/hour/minute (and second 0: "the right instant").
 *  - zone variants: the result is viewed with localtime_r() while the harness itself has TZ set to the zone
 *    string (second pass of a case, after all library calls of the case were made under the ambient TZ).
 *    Wall clock times that do not exist in the zone (spring gap, detected by looking for an instant with
 *    those fields on both sides of the transition) are only required to lie within the DST shift.
 *  - year: with (Y,M) the year/month of the reference time viewed in the zone and k the distance in
 *    calendar months between the result and (Y,M):  |k| <= 6 ("within about six months"), and k != +6
 *    (the documented tie break of the nearest-year rule: "a month more than five months after start
 *    refers to an earlier date").  The two clauses have different violation keys.
 *  - 29 Feb: accepted exactly when the inferred year is a leap year.
 *  - -1 must be returned for invalid PILs and when the exact result is outside time_t.  A representable
 *    result must be delivered whenever reference and result lie in years struct tm can hold (tm_year is
 *    an int); beyond that (|year| about 2^31, TIME_MIN/TIME_MAX) -1 or the exact value are both accepted.
 *  - windows (EN 300 231 9.3 / Annex F as quoted in pdc.c and exercised by test-pdc): real date and time:
 *    local 00:00 of the PIL day (20:00 of the previous day when the PIL hour is < 4) until 04:00 of the
 *    next day = 28 h / 32 h at a fixed offset; contain the converted time; begin < end.  Month 13/14,
 *    unreal days, 29 Feb of a non leap year, the four service codes: indefinite (TIME_MIN..TIME_MAX).
 *    Month 0, unallocated month 15 codes: refused.  NSPV and the PTY window: from the reference time
 *    until 04:00 on the 29th day after it.  Real date with unreal hour/minute: only begin < end (I have
 *    no normative text for that class; left un-compared).
 *  - TZ clause, after EVERY call on every return path: getenv("TZ") (string or NULL), tzname[0..1],
 *    timezone, daylight, and the offsets localtime_r() reports for two fixed probe instants (localtime_r
 *    does not re-run tzset(), so a missing tzset() after restoring the variable is visible).
 *
 * A cell does not stop at its first violation (one defect must not mask another); every key is reported once
 * per cell.  Keys name the function, the clause and the input class, never the concrete input.
 *
 * Known on the unchanged tree (0.2.43): keys containing "before 1970" (range checks in valid_pil_lto_to_time /
 * valid_pil_lto_validity_window compare against 0 where TIME_MIN is meant) and keys containing "(year < 1)"
 * (is_leap_year() takes the year as unsigned).  Both disappear with mutants/C14/proposed-fix-*.diff.
 *
 * Deviations from DESIGN.md C14
 *  - "|result - start| <= 184 days" is replaced by the calendar-month formulation above: the documented
 *    rule works on months, start 31 Jul / PIL 1 Jan is 211 days apart by design and would be a false alarm.
 *  - zone strings "" and those containing '=': glibc's setenv() accepts them (test-pdc disables those
 *    assertions for the same reason); the property sentence does not demand failure, so either -1 or a
 *    result that is correct when viewed under that TZ string is accepted.  The TZ clause applies fully.
 *  - start == (time_t)-1 means "now" to the library (pdc.h says zero, the code and test-pdc use -1): such
 *    reference times are run with time() interposed and the oracle uses the interposed value.
 *  - allocation failure is not injected (documented reservation, see DESIGN.md).
 */
#include <stdio.h>
#include <stdlib.h>
#include <string.h>
#include <errno.h>
#include <limits.h>
#include <stdint.h>
#include <time.h>
#include <unistd.h>
#include "mc.h"
#include "src/pdc.h"

typedef __int128 i128;
#define TMIN INT64_MIN
#define TMAX INT64_MAX


/* A cell keeps going after a violation so that one defect does not mask another one in the same cell;
 * each key is reported once per cell (the violation count is then a count of cells). */
static uint64_t cell_keys[64]; static int n_cell_keys;
static void cell_begin(void) { n_cell_keys = 0; }
static int cell_new_key(const char *key)
{
        uint64_t h = mc_hash64(key, strlen(key));
        for (int i = 0; i < n_cell_keys; i++) if (cell_keys[i] == h) return 0;
        if (n_cell_keys < 64) cell_keys[n_cell_keys++] = h;
        return 1;
}
#define VIOL(key, ...) do { const char *k_ = (key); if (cell_new_key(k_)) mc_violation(k_, __VA_ARGS__); } while (0)

/* context of the call under examination, formatted only when something is reported */
static unsigned G_pil; static const char *G_tail = "";
static const char *ctxs(void)
{
        static char b[400];
        snprintf(b, sizeof b, "pil=%05x(%02u-%02u %02u:%02u) %s", G_pil, (G_pil >> 11) & 15, (G_pil >> 15) & 31, (G_pil >> 6) & 31, G_pil & 63, G_tail);
        return b;
}

/* ---- time() seam ---------------------------------------------------------- */

time_t __real_time(time_t *);
static int fake_mode;                 /* 0 pass through, 1 answer fake_now, 2 fail */
static time_t fake_now;
static unsigned long fake_calls;
time_t __wrap_time(time_t *p)
{
        if (!fake_mode) return __real_time(p);
        fake_calls++;
        if (fake_mode == 2) { errno = 0; return (time_t) -1; }
        if (p) *p = fake_now;
        return fake_now;
}
#define FAKE_NOW ((time_t) 1078056000)          /* 2004-02-29 12:00:00 UTC */

/* ---- independent civil arithmetic ------------------------------------------ */

static int64_t fdiv(int64_t a, int64_t b) { int64_t q = a / b; if ((a % b != 0) && ((a < 0) != (b < 0))) q--; return q; }

static int64_t days_from_civil(int64_t y, int m, int d)
{
        y -= m <= 2;
        int64_t era = fdiv(y, 400);
        int64_t yoe = y - era * 400;
        int64_t doy = (153 * (m + (m > 2 ? -3 : 9)) + 2) / 5 + d - 1;
        int64_t doe = yoe * 365 + yoe / 4 - yoe / 100 + doy;
        return era * 146097 + doe - 719468;
}
static void civil_from_days(int64_t z, int64_t *y, int *m, int *d)
{
        z += 719468;
        int64_t era = fdiv(z, 146097);
        int64_t doe = z - era * 146097;
        int64_t yoe = (doe - doe / 1460 + doe / 36524 - doe / 146096) / 365;
        int64_t doy = doe - (365 * yoe + yoe / 4 - yoe / 100);
        int64_t mp = (5 * doy + 2) / 153;
        *d = (int) (doy - (153 * mp + 2) / 5 + 1);
        *m = (int) (mp < 10 ? mp + 3 : mp - 9);
        *y = yoe + era * 400 + (*m <= 2);
}
static int ref_leap(int64_t y) { return (y % 4 == 0 && y % 100 != 0) || y % 400 == 0; }
/* length of a month: distance between first days (year 2000 is a leap year: PILs carry no year) */
static int ref_dim(int64_t y, int m) { return (int) (days_from_civil(m == 12 ? y + 1 : y, m == 12 ? 1 : m + 1, 1) - days_from_civil(y, m, 1)); }

struct civ { int64_t y; int mo, d, h, mi, s; };
static void civ_of(i128 t, struct civ *c)
{
        i128 days = t / 86400; int rem = (int) (t - days * 86400);
        if (rem < 0) { rem += 86400; days--; }
        civil_from_days((int64_t) days, &c->y, &c->mo, &c->d);
        c->h = rem / 3600; c->mi = rem / 60 % 60; c->s = rem % 60;
}
static i128 sec_of(int64_t y, int mo, int d, int h, int mi, int s)
{
        return (i128) days_from_civil(y, mo, d) * 86400 + h * 3600 + mi * 60 + s;
}

/* struct tm can hold these years; one year of margin for the +-1 of the year rule */
#define YLO ((int64_t) INT_MIN + 1900 + 1)
#define YHI ((int64_t) INT_MAX + 1900 - 1)

#define P_MONTH(p)  (((p) >> 11) & 15)
#define P_DAY(p)    (((p) >> 15) & 31)
#define P_HOUR(p)   (((p) >> 6) & 31)
#define P_MIN(p)    ((p) & 63)
#define MKPIL(mo, d, h, mi) ((unsigned) (((d) << 15) | ((mo) << 11) | ((h) << 6) | (mi)))

static int pil_real_date(unsigned p) { int mo = P_MONTH(p), d = P_DAY(p); return mo >= 1 && mo <= 12 && d >= 1 && d <= ref_dim(2000, mo); }
static int pil_valid(unsigned p) { return pil_real_date(p) && P_HOUR(p) < 24 && P_MIN(p) < 60; }

/* the year the nearest-year rule must pick: the one of Y-1, Y, Y+1 that puts month m at a distance k of
 * -6..+5 calendar months from (Y,M) */
static int64_t ref_year(int64_t Y, int M, int m)
{
        for (int dy = -1; dy <= 1; dy++) { int k = 12 * dy + m - M; if (k >= -6 && k <= 5) return Y + dy; }
        abort();
}

/* ---- ambient TZ and the TZ clause -------------------------------------------- */

static const char *dst_zone = "Europe/Berlin";         /* replaced by a POSIX string when tzdata is missing */
static const char *zone_b   = "Australia/Lord_Howe";
static int have_tzdata;
#define NAMB 4
static const char *amb_val(int a) { return a == 0 ? NULL : a == 1 ? "" : a == 2 ? "UTC" : dst_zone; }
static const char *amb_name(int a) { return a == 0 ? "unset" : "set"; }
static const char *show(const char *s) { return s ? s : "(null)"; }

static void set_tz(const char *v) { if (v) setenv("TZ", v, 1); else unsetenv("TZ"); tzset(); }

struct snap { int has; char env[80], n0[24], n1[24]; long tz; int dl; long g[2]; int isd[2]; };
static void cpy(char *d, size_t n, const char *s) { size_t l = strlen(s); if (l >= n) l = n - 1; memcpy(d, s, l); d[l] = 0; }
static void snap_take(struct snap *s)
{
        static const time_t probe[2] = { 946728000 /* 2000-01-01 12:00 UTC */, 962452800 /* 2000-07-01 12:00 UTC */ };
        memset(s, 0, sizeof *s);
        const char *e = getenv("TZ");
        s->has = e != NULL; if (e) cpy(s->env, sizeof s->env, e);
        s->tz = timezone; s->dl = daylight;
        for (int i = 0; i < 2; i++) { struct tm tm; memset(&tm, 0, sizeof tm); localtime_r(&probe[i], &tm); s->g[i] = tm.tm_gmtoff; s->isd[i] = tm.tm_isdst; }
        /* glibc recomputes tzname[] from the zone file at every conversion (abbreviations near the converted
         * time, e.g. LMT for 19th century times): read it after the probes so that it depends on the zone only */
        cpy(s->n0, sizeof s->n0, tzname[0] ? tzname[0] : "?");
        cpy(s->n1, sizeof s->n1, tzname[1] ? tzname[1] : "?");
}
static int snap_same(const struct snap *a, const struct snap *b) { return !memcmp(a, b, sizeof *a); }
static const char *snap_str(const struct snap *s)
{
        static char b[2][256]; static int k; k ^= 1;
        snprintf(b[k], sizeof b[k], "TZ=%s%s%s tzname=%s/%s timezone=%ld daylight=%d probes=%ld/%d,%ld/%d", s->has ? "\"" : "", s->has ? s->env : "(unset)", s->has ? "\"" : "",
                 s->n0, s->n1, s->tz, s->dl, s->g[0], s->isd[0], s->g[1], s->isd[1]);
        return b[k];
}

static struct snap S0;                 /* state established for the current case */
static const char *cur_amb = "unset";
static int cur_amb_idx;
static void establish(int a) { set_tz(amb_val(a)); snap_take(&S0); snap_take(&S0); cur_amb = amb_name(a); cur_amb_idx = a; }

/* returns 1 when the TZ state is what establish() left */
static int tz_clause(const char *func, const char *argclass, const char *outcome, const char *detail)
{
        struct snap s; snap_take(&s);
        if (snap_same(&s, &S0)) return 1;
        char key[200];
        const char *what = (s.has != S0.has || strcmp(s.env, S0.env)) ? "TZ variable changed" : "TZ variable restored but time zone state stale";
        snprintf(key, sizeof key, "%s by %s (ambient TZ %s, %s, call %s)", what, func, cur_amb, argclass, outcome);
        VIOL(key, "%s :: before {%s} after {%s}", detail ? detail : ctxs(), snap_str(&S0), snap_str(&s));
        establish(cur_amb_idx);         /* repair, so that the rest of the cell runs in the stated environment */
        return 0;
}

/* ---- outcome bookkeeping (flushed once per case) ------------------------------ */

enum { O_SAME, O_PREV, O_NEXT, O_LEAPREJ, O_LEAPOK, O_INVALID, O_UNREP, O_EITHER_FAIL, O_EITHER_OK, O_AMBIG, O_GAP, O_W28, O_W32, O_WINDEF, O_WREF, O_WPTY, O_WUNREAL,
       O_TIMEFAIL, O_TIMEOK, O_TZODD_FAIL, O_TZODD_OK, O_N };
static const char *const o_name[O_N] = {
        "converted: same year as reference", "converted: year before reference", "converted: year after reference", "29 Feb refused: inferred year is not leap",
        "29 Feb accepted: inferred year is leap", "invalid PIL refused", "unrepresentable result refused", "beyond struct tm: refused", "beyond struct tm: exact value",
        "expected value is -1 itself (un-compared)", "wall clock time in DST gap (within shift)", "window 28 h (hour >= 4)", "window 32 h (hour < 4)", "window indefinite", "window refused (unallocated)",
        "PTY/NSPV window (4 weeks to 04:00)", "real date, unreal time: only begin<end", "time() fails: refused", "start=-1: interposed time() used", "zone string empty/with '=': refused", "zone string empty/with '=': converted" };
static uint64_t o_cnt[O_N];
static void o_flush(void) { for (int i = 0; i < O_N; i++) if (o_cnt[i]) { mc_outcome("%s", o_name[i]); o_cnt[i] = 0; } }

/* ---- lattices ------------------------------------------------------------------ */

static unsigned *P_small, *P_class; static int n_small, n_class;
static time_t *R_big, *R_ext; static int n_rbig, n_rext;
static int *O_big, *O_ext; static int n_obig, n_oext;

static void add_t(time_t **a, int *n, i128 v) { if (v < TMIN || v > TMAX) return; *a = realloc(*a, (*n + 1) * sizeof **a); (*a)[(*n)++] = (time_t) v; }
static void add_i(int **a, int *n, int v) { for (int i = 0; i < *n; i++) if ((*a)[i] == v) return; *a = realloc(*a, (*n + 1) * sizeof **a); (*a)[(*n)++] = v; }

static void build_lattices(void)
{
        static const int sd[] = { 0, 1, 15, 28, 29, 30, 31 }, sh[] = { 0, 3, 4, 23, 24, 31 }, sm[] = { 0, 59, 60, 63 };
        static const int ch[] = { 0, 3, 4, 12, 23, 24, 28, 29, 30, 31 };
        P_small = malloc(sizeof(unsigned) * 16 * 7 * 6 * 4 + 64);
        for (int mo = 0; mo < 16; mo++) for (int d = 0; d < 7; d++) for (int h = 0; h < 6; h++) for (int mi = 0; mi < 4; mi++) P_small[n_small++] = MKPIL(mo, sd[d], sh[h], sm[mi]);
        P_small[n_small++] = VBI_PIL_TIMER_CONTROL; P_small[n_small++] = VBI_PIL_INHIBIT_TERMINATE; P_small[n_small++] = VBI_PIL_INTERRUPTION;
        P_small[n_small++] = VBI_PIL_CONTINUE; P_small[n_small++] = VBI_PIL_NSPV; P_small[n_small++] = MKPIL(15, 15, 30, 63); P_small[n_small++] = MKPIL(15, 0, 31, 62);
        P_class = malloc(sizeof(unsigned) * 16 * 32 * 10 * 4);
        for (int mo = 0; mo < 16; mo++) for (int d = 0; d < 32; d++) for (int h = 0; h < 10; h++) for (int mi = 0; mi < 4; mi++) P_class[n_class++] = MKPIL(mo, d, ch[h], sm[mi]);

        static const int years[] = { 1969, 1970, 1971, 1972, 1999, 2000, 2001, 2004, 2037, 2038, 2100, 2400 };
        for (unsigned y = 0; y < sizeof years / sizeof *years; y++)
                for (int mo = 1; mo <= 12; mo++) {
                        i128 s = sec_of(years[y], mo, 1, 0, 0, 0);
                        add_t(&R_big, &n_rbig, s - 86400); add_t(&R_big, &n_rbig, s - 1); add_t(&R_big, &n_rbig, s);
                        add_t(&R_big, &n_rbig, s + 1); add_t(&R_big, &n_rbig, s + 86400); add_t(&R_big, &n_rbig, sec_of(years[y], mo, 15, 12, 0, 0));
                }
        for (int q = -56; q <= 56; q++) add_i(&O_big, &n_obig, q * 900);
        static const int xo[] = { 1, -1, 59, -59, 86399, -86399, 86401, -86401, 86400, -86400, 18 * 3600, -18 * 3600, INT_MAX, INT_MIN };
        for (unsigned i = 0; i < sizeof xo / sizeof *xo; i++) add_i(&O_big, &n_obig, xo[i]);

        /* extremes */
        static const int64_t xt[] = { TMIN, TMIN + 1, TMIN + 86400LL * 400, TMAX, TMAX - 1, TMAX - 86400LL * 400, -2147483649LL, -2147483648LL, 2147483647LL, 2147483648LL,
                                      -1 /* "now" */, 0, 1, -2, 59, 3599, 3600, 14399, 14400, 50399, 50400, 86399, 86400, 100800, -3600, -14400, -86400, -86401 };
        for (unsigned i = 0; i < sizeof xt / sizeof *xt; i++) add_t(&R_ext, &n_rext, xt[i]);
        static const int64_t xy[] = { (int64_t) INT_MAX + 1900, (int64_t) INT_MAX + 1899, (int64_t) INT_MAX + 1901, (int64_t) INT_MIN + 1900, (int64_t) INT_MIN + 1901, (int64_t) INT_MIN + 1899,
                                      -400, -196, -100, -4, 0, 1, 4, 100, 1582, 1600, 1700, 1900, 9999, 10000 };
        for (unsigned i = 0; i < sizeof xy / sizeof *xy; i++) {
                add_t(&R_ext, &n_rext, sec_of(xy[i], 1, 15, 12, 0, 0)); add_t(&R_ext, &n_rext, sec_of(xy[i], 2, 28, 23, 59, 59));
                add_t(&R_ext, &n_rext, sec_of(xy[i], 7, 31, 23, 59, 59)); add_t(&R_ext, &n_rext, sec_of(xy[i], 8, 1, 0, 0, 0)); add_t(&R_ext, &n_rext, sec_of(xy[i], 12, 31, 23, 59, 59));
        }
        static const int eo[] = { 0, 1, -1, 60, -60, 3600, -3600, 50400, -50400, 86399, -86399, 86400, -86400, 86401, -86401, INT_MAX, INT_MAX - 1, INT_MIN, INT_MIN + 1 };
        for (unsigned i = 0; i < sizeof eo / sizeof *eo; i++) add_i(&O_ext, &n_oext, eo[i]);
}

/* ---- offset variant: expectation ------------------------------------------------ */

enum { X_INVALID, X_LEAPREJ, X_MUST, X_EITHER, X_UNREP };
struct lexp { int cls, must; int64_t Y, Yp; int M; i128 E; i128 local; };

/* (mo,d,h,mi) at offset `off' relative to reference `ref' */
static void lto_expect(int mo, int d, int h, int mi, int64_t ref, int off, struct lexp *e)
{
        struct civ c;
        e->local = (i128) ref + off;
        civ_of(e->local, &c);
        e->Y = c.y; e->M = c.mo; e->Yp = ref_year(c.y, c.mo, mo);
        e->must = e->Y >= YLO && e->Y <= YHI && e->Yp >= YLO && e->Yp <= YHI && e->local >= TMIN && e->local <= TMAX;
        if (mo == 2 && d == 29 && !ref_leap(e->Yp)) { e->cls = X_LEAPREJ; e->E = 0; return; }
        e->E = sec_of(e->Yp, mo, d, h, mi, 0) - off;
        if (e->E < TMIN || e->E > TMAX) e->cls = X_UNREP;
        else if (e->must) e->cls = X_MUST;
        else e->cls = X_EITHER;
}

static const char *refusal_class(const struct lexp *e, int off, i128 begin)
{
        if (off < 0 && e->local < 0) return "negative offset, local reference time before 1970";
        if (off > 0 && e->E < 0) return "positive offset, result before 1970";
        if (begin < 0) return "window begin before 1970";
        return NULL;
}

static void fmt_t(char *b, size_t n, i128 t)
{
        if (t < TMIN || t > TMAX) { snprintf(b, n, "(outside time_t)"); return; }
        struct civ c; civ_of(t, &c);
        snprintf(b, n, "%lld=%lld-%02d-%02dT%02d:%02d:%02dZ", (long long) t, (long long) c.y, c.mo, c.d, c.h, c.mi, c.s);
}


static int pil_kind(unsigned pil)      /* 0 refused, 1 indefinite, 2 PTY window, 3 dated */
{
        int mo = P_MONTH(pil);
        if (mo == 0) return 0;
        if (mo <= 12) return pil_real_date(pil) ? 3 : 1;
        if (mo <= 14) return 1;
        if (pil == VBI_PIL_TIMER_CONTROL || pil == VBI_PIL_INHIBIT_TERMINATE || pil == VBI_PIL_INTERRUPTION || pil == VBI_PIL_CONTINUE) return 1;
        return pil == VBI_PIL_NSPV ? 2 : 0;
}

/* vbi_pil_lto_to_time() returned r */
#define ctx ctxs()
static void lto_check_conv(unsigned pil, const struct lexp *e, int valid, int off, time_t r)
{
        int mo = P_MONTH(pil), d = P_DAY(pil), h = P_HOUR(pil), mi = P_MIN(pil);
        if (!valid) {
                if (r != (time_t) -1) { VIOL("lto_to_time accepts invalid PIL", "%s -> %lld", ctx, (long long) r); return; }
                o_cnt[O_INVALID]++;
        } else if (e->cls == X_LEAPREJ) {
                if (r != (time_t) -1) { VIOL(e->Yp < 1 ? "lto_to_time accepts 29 Feb in a non leap year (year < 1)" : "lto_to_time accepts 29 Feb in a non leap year", "%s inferred year %lld -> %lld", ctx, (long long) e->Yp, (long long) r); return; }
                o_cnt[O_LEAPREJ]++;
        } else if (e->cls == X_UNREP) {
                if (r != (time_t) -1) { VIOL("lto_to_time returns a value for an unrepresentable result", "%s -> %lld", ctx, (long long) r); return; }
                o_cnt[O_UNREP]++;
        } else if (e->cls == X_EITHER) {
                if (r != (time_t) -1 && (i128) r != e->E) { char es[96]; fmt_t(es, sizeof es, e->E); VIOL("lto_to_time wrong value beyond the struct tm year range", "%s -> %lld want %s or -1", ctx, (long long) r, es); return; }
                o_cnt[r == (time_t) -1 ? O_EITHER_FAIL : O_EITHER_OK]++;
        } else if (e->E == -1) {
                o_cnt[O_AMBIG]++;
        } else if (r == (time_t) -1) {
                char es[96]; fmt_t(es, sizeof es, e->E);
                const char *rc = refusal_class(e, off, 0);
                char key[200];
                if (rc) snprintf(key, sizeof key, "lto_to_time refuses a representable conversion (%s)", rc);
                else if (mo == 2 && d == 29) snprintf(key, sizeof key, e->Yp < 1 ? "lto_to_time refuses 29 Feb in a leap year (year < 1)" : "lto_to_time refuses 29 Feb in a leap year");
                else snprintf(key, sizeof key, "lto_to_time refuses a valid PIL");
                VIOL(key, "%s -> -1 want %s (inferred year %lld)", ctx, es, (long long) e->Yp);
        } else {
                struct civ v; civ_of((i128) r + off, &v);
                if (v.mo != mo || v.d != d || v.h != h || v.mi != mi) {
                        VIOL(mo == 2 && d == 29 ? (e->Yp < 1 ? "lto_to_time accepts 29 Feb in a non leap year (year < 1)" : "lto_to_time 29 Feb: wrong month/day/hour/minute") : "lto_to_time wrong month/day/hour/minute",
                             "%s -> %lld viewed %lld-%02d-%02d %02d:%02d:%02d", ctx, (long long) r, (long long) v.y, v.mo, v.d, v.h, v.mi, v.s);
                        return;
                }
                int64_t k = 12 * (v.y - e->Y) + v.mo - e->M;
                if (k > 6 || k < -6) { VIOL("lto_to_time year: result more than six months from the reference time", "%s -> year %lld (reference %lld-%02d, %lld months)", ctx, (long long) v.y, (long long) e->Y, e->M, (long long) k); return; }
                if (k == 6) { VIOL("lto_to_time year: month six after the reference month must refer to the past year (documented tie break)", "%s -> year %lld (reference %lld-%02d)", ctx, (long long) v.y, (long long) e->Y, e->M); return; }
                if (v.s != 0 || (i128) r != e->E) { VIOL("lto_to_time wrong instant (seconds)", "%s -> %lld want %lld", ctx, (long long) r, (long long) e->E); return; }
                o_cnt[v.y == e->Y ? O_SAME : v.y < e->Y ? O_PREV : O_NEXT]++;
                if (mo == 2 && d == 29) o_cnt[O_LEAPOK]++;
        }
}

/* vbi_pil_lto_validity_window() returned wr, [b,en]; e is the expectation for the conversion (valid PILs only) */
static void lto_check_window(unsigned pil, const struct lexp *e, int valid, time_t ref, int ref_is_now, int off, int wr, time_t b, time_t en)
{
        int mo = P_MONTH(pil), d = P_DAY(pil), h = P_HOUR(pil), mi = P_MIN(pil);
        int kind = pil_kind(pil);
        if (wr && !(b < en)) { VIOL("lto window not ordered (begin >= end)", "%s -> [%lld,%lld]", ctx, (long long) b, (long long) en); return; }
        if (kind == 0) {
                if (wr) { VIOL("lto window accepts an unallocated PIL", "%s -> [%lld,%lld]", ctx, (long long) b, (long long) en); return; }
                o_cnt[O_WREF]++;
        } else if (kind == 2) {
                if (ref_is_now) return;                         /* NSPV takes start literally; un-compared */
                i128 ee = ((i128) fdiv(ref, 86400) + 29) * 86400 + 4 * 3600;
                struct civ rc; civ_of(ref, &rc);
                int strict = rc.y >= YLO && rc.y <= YHI - 1 && ee <= TMAX;
                if (!wr) { if (strict) VIOL("lto window refuses NSPV", "%s", ctx); return; }
                if (b != ref || (i128) en != ee) { VIOL("lto window NSPV: not reference time .. 04:00 four weeks and a day later", "%s -> [%lld,%lld] want [%lld,%lld]", ctx, (long long) b, (long long) en, (long long) ref, (long long) ee); return; }
                o_cnt[O_WPTY]++;
        } else if (kind == 1) {
                if (!wr || b != TMIN || en != TMAX) { VIOL("lto window not indefinite for month 13/14, unreal day or service code", "%s -> %d [%lld,%lld]", ctx, wr, (long long) b, (long long) en); return; }
                o_cnt[O_WINDEF]++;
        } else {
                struct lexp w; lto_expect(mo, d, 0, 0, ref, off, &w);
                int feb29 = mo == 2 && d == 29;
                if (w.cls == X_LEAPREJ && !w.must && !wr) {
                        o_cnt[O_EITHER_FAIL]++;
                } else if (w.cls == X_LEAPREJ && !wr && refusal_class(&w, off, 0)) {
                        /* same refusal as for any other day of that month: keep it under the same key */
                        char key[200]; snprintf(key, sizeof key, "lto window refuses a representable window (%s)", refusal_class(&w, off, 0));
                        VIOL(key, "%s want indefinite (29 Feb, inferred year %lld)", ctx, (long long) w.Yp);
                } else if (w.cls == X_LEAPREJ) {
                        if (!wr || b != TMIN || en != TMAX) { VIOL(w.Yp < 1 ? "lto window not indefinite for 29 Feb of a non leap year (year < 1)" : "lto window not indefinite for 29 Feb of a non leap year", "%s inferred year %lld -> %d [%lld,%lld]", ctx, (long long) w.Yp, wr, (long long) b, (long long) en); return; }
                        o_cnt[O_WINDEF]++;
                } else if (h > 23 || mi > 59) {
                        o_cnt[O_WUNREAL]++;                             /* begin < end was checked above */
                } else {
                        i128 xb = h < 4 ? w.E - 4 * 3600 : w.E, xe = w.E + 28 * 3600;
                        int rep = xb >= TMIN && xe <= TMAX;
                        if (!rep) { if (wr) { VIOL("lto window returns bounds although they are unrepresentable", "%s -> [%lld,%lld]", ctx, (long long) b, (long long) en); return; } o_cnt[O_UNREP]++; }
                        else if (w.cls != X_MUST) {
                                if (wr && ((i128) b != xb || (i128) en != xe)) { VIOL("lto window wrong bounds beyond the struct tm year range", "%s -> [%lld,%lld] want [%lld,%lld]", ctx, (long long) b, (long long) en, (long long) xb, (long long) xe); return; }
                                o_cnt[wr ? O_EITHER_OK : O_EITHER_FAIL]++;
                        } else if (w.E == -1) {
                                o_cnt[O_AMBIG]++;                       /* the library cannot tell local midnight == -1 from an error */
                        } else if (!wr) {
                                const char *rc = refusal_class(&w, off, xb);
                                char key[200];
                                if (rc) snprintf(key, sizeof key, "lto window refuses a representable window (%s)", rc);
                                else if (feb29) snprintf(key, sizeof key, w.Yp < 1 ? "lto window refuses 29 Feb in a leap year (year < 1)" : "lto window refuses 29 Feb in a leap year");
                                else snprintf(key, sizeof key, "lto window refuses a valid PIL");
                                VIOL(key, "%s want [%lld,%lld]", ctx, (long long) xb, (long long) xe);
                        } else if (b == TMIN && en == TMAX) {
                                VIOL(feb29 ? (w.Yp < 1 ? "lto window indefinite for 29 Feb of a leap year (year < 1)" : "lto window indefinite for 29 Feb of a leap year") : "lto window indefinite for a real date", "%s inferred year %lld", ctx, (long long) w.Yp);
                        } else {
                                if ((i128) en - (i128) b != xe - xb) { VIOL(h < 4 ? "lto window wrong length (hour < 4: 32 h)" : "lto window wrong length (hour >= 4: 28 h)", "%s -> [%lld,%lld] length %lld s", ctx, (long long) b, (long long) en, (long long) ((i128) en - b)); return; }
                                if ((i128) b != xb) {
                                        struct civ v; civ_of((i128) b + off, &v);
                                        VIOL("lto window misplaced (wrong day or year)", "%s -> begin %lld viewed %lld-%02d-%02d %02d:%02d want %lld", ctx, (long long) b, (long long) v.y, v.mo, v.d, v.h, v.mi, (long long) xb);
                                        return;
                                }
                                if (valid && e->cls == X_MUST && !(xb <= e->E && e->E < xe)) { VIOL("lto window does not contain the converted time", "%s -> [%lld,%lld] converted %lld", ctx, (long long) b, (long long) en, (long long) e->E); return; }
                                o_cnt[h < 4 ? O_W32 : O_W28]++;
                        }
                }
        }
}

#undef ctx
/* one (reference, offset) cell over a PIL set, ambient TZ already established */
static void lto_cell(time_t ref_raw, int off, const unsigned *pils, int n, int do_windows, uint64_t *evals)
{
        time_t ref = ref_raw;
        if (ref_raw == (time_t) -1) { fake_mode = 1; fake_now = FAKE_NOW; ref = FAKE_NOW; o_cnt[O_TIMEOK]++; }
        char rs[96], tail[200]; fmt_t(rs, sizeof rs, ref);
        snprintf(tail, sizeof tail, "start=%s%s seconds_east=%d", rs, ref_raw == (time_t) -1 ? "(via time())" : "", off);
        G_tail = tail;
        for (int i = 0; i < n; i++) {
                unsigned pil = pils[i];
                int mo = P_MONTH(pil), d = P_DAY(pil), h = P_HOUR(pil), mi = P_MIN(pil);
                G_pil = pil;
                int valid = pil_valid(pil);
                struct lexp e; memset(&e, 0, sizeof e);
                if (valid) lto_expect(mo, d, h, mi, ref, off, &e);

                errno = 0;
                time_t r = vbi_pil_lto_to_time(pil, ref_raw, off);
                (*evals)++;
                tz_clause("vbi_pil_lto_to_time", "offset", r == (time_t) -1 ? "failed" : "succeeded", NULL);
                lto_check_conv(pil, &e, valid, off, r);

                if (!do_windows) continue;
                if ((do_windows == 2) && valid && !(mi == 0)) continue;          /* thin the window calls on the all-days set */
                time_t b = 123, en = 456;
                errno = 0;
                int wr = vbi_pil_lto_validity_window(&b, &en, pil, ref_raw, off);
                (*evals)++;
                tz_clause("vbi_pil_lto_validity_window", "offset", wr ? "succeeded" : "failed", NULL);
                lto_check_window(pil, &e, valid, ref, ref_raw == (time_t) -1, off, wr, b, en);
        }
        fake_mode = 0; G_tail = "";
}

/* ---- phases on the offset variant ------------------------------------------------ */

struct combo { time_t ref; int off; int amb; };
static struct combo *allpil_combo; static int n_allpil;

static void lto_allpil_case(uint64_t idx, void *arg)
{
        int c = (int) (idx / 256), chunk = (int) (idx % 256);
        const struct combo *k = &allpil_combo[c];
        mc_case("lto all PILs", "combo=%d start=%lld seconds_east=%d ambient=%s chunk=%d", c, (long long) k->ref, k->off, show(amb_val(k->amb)), chunk);
        establish(k->amb);
        static unsigned pils[4096];
        for (int i = 0; i < 4096; i++) pils[i] = (unsigned) chunk * 4096 + i;
        uint64_t ev = 0;
        cell_begin();
        lto_cell(k->ref, k->off, pils, 4096, 1, &ev);
        mc_count("evaluations", ev); mc_count("lto_calls", ev);
        mc_distinct(mc_hash64("A", 1) + idx);
        o_flush();
        if (chunk == 17 && c == 0) mc_sample("vbi_pil_lto_to_time + window: PILs %05x..%05x, start=%lld, seconds_east=%d, ambient TZ=%s", chunk * 4096, chunk * 4096 + 4095, (long long) k->ref, k->off, show(amb_val(k->amb)));
}

static int off_stride, class_mod;

static void lto_lattice_case(uint64_t idx, void *arg)
{
        int nsel = (n_obig + off_stride - 1) / off_stride;
        int ri = (int) (idx / nsel), oj = (int) (idx % nsel);
        int oi = oj * off_stride + ri % off_stride;
        if (oi >= n_obig) return;
        int amb = (ri + oi) % NAMB;
        mc_case("lto lattice", "start=%lld seconds_east=%d ambient=%s", (long long) R_big[ri], O_big[oi], show(amb_val(amb)));
        establish(amb);
        uint64_t ev = 0;
        cell_begin();
        lto_cell(R_big[ri], O_big[oi], P_small, n_small, 1, &ev);
        if ((ri * 7 + oi) % class_mod == 0) { lto_cell(R_big[ri], O_big[oi], P_class, n_class, 2, &ev); mc_count("class_cells", 1); }
        mc_count("evaluations", ev); mc_count("lto_calls", ev);
        mc_distinct(mc_hash64("L", 1) + ((uint64_t) ri << 16) + oi);
        o_flush();
        if (ri == 401 && oj == 3) mc_sample("offset lattice cell: start=%lld, seconds_east=%d, ambient TZ=%s, %d class PILs, conversion + window", (long long) R_big[ri], O_big[oi], show(amb_val(amb)), n_small);
}

static void lto_extreme_case(uint64_t idx, void *arg)
{
        int ri = (int) (idx / n_oext), oi = (int) (idx % n_oext);
        int amb = (ri + oi) % NAMB;
        mc_case("lto extremes", "start=%lld seconds_east=%d ambient=%s", (long long) R_ext[ri], O_ext[oi], show(amb_val(amb)));
        establish(amb);
        uint64_t ev = 0;
        cell_begin();
        lto_cell(R_ext[ri], O_ext[oi], P_small, n_small, 1, &ev);
        mc_count("evaluations", ev); mc_count("lto_calls", ev);
        mc_distinct(mc_hash64("X", 1) + ((uint64_t) ri << 16) + oi);
        o_flush();
}

/* ---- zone variant ----------------------------------------------------------------- */

#define NZONE 11
static const char *zone_val(int z)
{
        switch (z) {
        case 0: return NULL;
        case 1: return "UTC";
        case 2: return "";
        case 3: return "CET-1CEST,M3.5.0,M10.5.0/3";
        case 4: return "NZST-12NZDT,M9.5.0,M4.1.0/3";
        case 5: return "<+0545>-5:45";
        case 6: return "EST5EDT,M3.2.0,M11.1.0";
        case 7: return dst_zone;
        case 8: return zone_b;
        case 9: return "CET=1";
        default: return "=";
        }
}
static int zone_odd(const char *z) { return z && (!*z || strchr(z, '=')); }
static const char *zone_class(const char *z) { return !z ? "tz NULL" : !strcmp(z, "UTC") ? "tz \"UTC\"" : zone_odd(z) ? "tz empty or with '='" : "tz zone string"; }

static long gmtoff_at(i128 t) { if (t < TMIN || t > TMAX) return 0; time_t tt = (time_t) t; struct tm tm; memset(&tm, 0, sizeof tm); if (!localtime_r(&tt, &tm)) return 0; return tm.tm_gmtoff; }
static int view_matches(i128 t, int64_t y, int mo, int d, int h, int mi, int s)
{
        if (t < TMIN || t > TMAX) return 0;
        time_t tt = (time_t) t; struct tm tm; memset(&tm, 0, sizeof tm);
        if (!localtime_r(&tt, &tm)) return 0;
        return (int64_t) tm.tm_year + 1900 == y && tm.tm_mon + 1 == mo && tm.tm_mday == d && tm.tm_hour == h && tm.tm_min == mi && tm.tm_sec == s;
}
/* 1: instant t shows the wall clock time; 2: that wall clock time does not exist and t is within the shift; 0: wrong */
static int wall_check(time_t t, int64_t y, int mo, int d, int h, int mi, int s)
{
        if (view_matches(t, y, mo, d, h, mi, s)) return 1;
        i128 naive = sec_of(y, mo, d, h, mi, s);
        long o1 = gmtoff_at(naive - 2 * 86400), o2 = gmtoff_at(naive + 2 * 86400);
        if (view_matches(naive - o1, y, mo, d, h, mi, s) || view_matches(naive - o2, y, mo, d, h, mi, s)) return 0;   /* exists, but t is not it */
        long sh = labs(o1 - o2);
        i128 d1 = (i128) t - (naive - o1), d2 = (i128) t - (naive - o2);
        if (d1 < 0) d1 = -d1;
        if (d2 < 0) d2 = -d2;
        return (o1 != o2 && (d1 <= sh || d2 <= sh)) ? 2 : 0;
}
static int view_ok(time_t t) { struct tm tm; memset(&tm, 0, sizeof tm); return localtime_r(&t, &tm) != NULL; }
static const char *view_str(time_t t)
{
        static char b[2][96]; static int k; k ^= 1;
        struct tm tm; memset(&tm, 0, sizeof tm);
        if (!localtime_r(&t, &tm)) snprintf(b[k], sizeof b[k], "%lld=(no local time)", (long long) t);
        else snprintf(b[k], sizeof b[k], "%lld=%lld-%02d-%02d %02d:%02d:%02d%+ld", (long long) t, (long long) tm.tm_year + 1900, tm.tm_mon + 1, tm.tm_mday, tm.tm_hour, tm.tm_min, tm.tm_sec, tm.tm_gmtoff);
        return b[k];
}

struct tzrec { unsigned pil; time_t r; int wcalled, wok; time_t wb, we; };
static struct tzrec *tzrecs; static int tzrecs_cap;

struct tzctx { const char *zone; int odd, strict, have_ref; int64_t Y; int M; int pok; time_t pb, pe; const char *ctx0; };

/* pass 2 for one PIL: the harness' TZ is the zone */
#define ctx ctxs()
static void tz_check_rec(const struct tzrec *q, const struct tzctx *z)
{
        unsigned pil = q->pil;
        int mo = P_MONTH(pil), d = P_DAY(pil), h = P_HOUR(pil), mi = P_MIN(pil);
        int feb29 = mo == 2 && d == 29;
        G_pil = pil; G_tail = z->ctx0;
        int valid = pil_valid(pil);
        int64_t Y = z->Y, Yp = 0; int M = z->M, leaprej = 0, conv_ok = 0, conv_gap = 0;
        if (z->have_ref && pil_real_date(pil)) { Yp = ref_year(Y, M, mo); leaprej = feb29 && !ref_leap(Yp); }
        int strict = z->strict && Yp >= YLO && Yp <= YHI;

        if (!valid) {
                if (q->r != (time_t) -1) VIOL("pil_to_time accepts invalid PIL", "%s -> %lld", ctx, (long long) q->r);
                else o_cnt[O_INVALID]++;
        } else if (!z->have_ref) {
                if (q->r != (time_t) -1) VIOL("pil_to_time returns a value although the reference time has no local time", "%s -> %lld", ctx, (long long) q->r);
                else o_cnt[O_UNREP]++;
        } else if (leaprej) {
                if (q->r != (time_t) -1) VIOL(Yp < 1 ? "pil_to_time accepts 29 Feb in a non leap year (year < 1)" : "pil_to_time accepts 29 Feb in a non leap year", "%s inferred year %lld -> %s", ctx, (long long) Yp, view_str(q->r));
                else o_cnt[O_LEAPREJ]++;
        } else if (q->r == (time_t) -1) {
                if (z->odd) o_cnt[O_TZODD_FAIL]++;
                else if (!strict) o_cnt[O_EITHER_FAIL]++;
                else if (view_matches(-1, Yp, mo, d, h, mi, 0)) o_cnt[O_AMBIG]++;
                else VIOL(feb29 ? (Yp < 1 ? "pil_to_time refuses 29 Feb in a leap year (year < 1)" : "pil_to_time refuses 29 Feb in a leap year") : "pil_to_time refuses a valid PIL", "%s -> -1 (inferred year %lld)", ctx, (long long) Yp);
        } else {
                int w = wall_check(q->r, Yp, mo, d, h, mi, 0);
                if (w == 0) {
                        struct tm v; memset(&v, 0, sizeof v); time_t rr = q->r;
                        if (!localtime_r(&rr, &v)) VIOL("pil_to_time result has no local time", "%s -> %lld", ctx, (long long) q->r);
                        else if (v.tm_mon + 1 != mo || v.tm_mday != d || v.tm_hour != h || v.tm_min != mi)
                                VIOL(feb29 ? (Yp < 1 ? "pil_to_time accepts 29 Feb in a non leap year (year < 1)" : "pil_to_time 29 Feb: wrong month/day/hour/minute") : "pil_to_time wrong month/day/hour/minute", "%s -> %s", ctx, view_str(q->r));
                        else {
                                int64_t k = 12 * ((int64_t) v.tm_year + 1900 - Y) + v.tm_mon + 1 - M;
                                if (k > 6 || k < -6) VIOL("pil_to_time year: result more than six months from the reference time", "%s -> %s (reference %lld-%02d, %lld months)", ctx, view_str(q->r), (long long) Y, M, (long long) k);
                                else if (k == 6) VIOL("pil_to_time year: month six after the reference month must refer to the past year (documented tie break)", "%s -> %s (reference %lld-%02d)", ctx, view_str(q->r), (long long) Y, M);
                                else VIOL("pil_to_time wrong instant (seconds)", "%s -> %s", ctx, view_str(q->r));
                        }
                } else {
                        conv_ok = 1; conv_gap = w == 2;
                        if (w == 2) o_cnt[O_GAP]++;
                        if (z->odd) o_cnt[O_TZODD_OK]++;
                        else if (!strict) o_cnt[O_EITHER_OK]++;
                        o_cnt[Yp == Y ? O_SAME : Yp < Y ? O_PREV : O_NEXT]++;
                        if (feb29) o_cnt[O_LEAPOK]++;
                }
        }
        if (!q->wcalled) return;

        int kind = pil_kind(pil);
        if (q->wok && !(q->wb < q->we)) { VIOL("pil window not ordered (begin >= end)", "%s -> [%lld,%lld]", ctx, (long long) q->wb, (long long) q->we); return; }
        if (kind == 0) {
                if (q->wok) VIOL("pil window accepts an unallocated PIL", "%s -> [%lld,%lld]", ctx, (long long) q->wb, (long long) q->we);
                else o_cnt[O_WREF]++;
        } else if (kind == 1) {
                if (!q->wok || q->wb != TMIN || q->we != TMAX) VIOL("pil window not indefinite for month 13/14, unreal day or service code", "%s -> %d [%lld,%lld]", ctx, q->wok, (long long) q->wb, (long long) q->we);
                else o_cnt[O_WINDEF]++;
        } else if (kind == 2) {
                /* must equal the PTY window of the same arguments (that one is checked once per cell) */
                if (q->wok != z->pok || (z->pok && (q->wb != z->pb || q->we != z->pe)))
                        VIOL("pil window NSPV differs from the PTY window", "%s -> %d [%lld,%lld] pty %d [%lld,%lld]", ctx, q->wok, (long long) q->wb, (long long) q->we, z->pok, (long long) z->pb, (long long) z->pe);
        } else if (z->have_ref) {
                if (leaprej) {
                        if (!q->wok && !strict) o_cnt[O_EITHER_FAIL]++;
                        else if (!q->wok || q->wb != TMIN || q->we != TMAX) VIOL(Yp < 1 ? "pil window not indefinite for 29 Feb of a non leap year (year < 1)" : "pil window not indefinite for 29 Feb of a non leap year", "%s inferred year %lld -> %d [%lld,%lld]", ctx, (long long) Yp, q->wok, (long long) q->wb, (long long) q->we);
                        else o_cnt[O_WINDEF]++;
                } else if (h > 23 || mi > 59) {
                        o_cnt[O_WUNREAL]++;
                } else if (!q->wok) {
                        if (z->odd) o_cnt[O_TZODD_FAIL]++;
                        else if (!strict) o_cnt[O_EITHER_FAIL]++;
                        else {
                                /* the "UTC" string takes the offset code path: name its pre-1970 class like there */
                                i128 t0 = sec_of(Yp, mo, d, 0, 0, 0) - gmtoff_at(sec_of(Yp, mo, d, 0, 0, 0));
                                if (z->zone && !strcmp(z->zone, "UTC") && h < 4 && t0 - 4 * 3600 < 0) VIOL("pil window refuses a representable window (window begin before 1970)", "%s (inferred year %lld)", ctx, (long long) Yp);
                                else VIOL(feb29 ? (Yp < 1 ? "pil window refuses 29 Feb in a leap year (year < 1)" : "pil window refuses 29 Feb in a leap year") : "pil window refuses a valid PIL", "%s (inferred year %lld)", ctx, (long long) Yp);
                        }
                } else if (q->wb == TMIN && q->we == TMAX) {
                        VIOL(feb29 ? (Yp < 1 ? "pil window indefinite for 29 Feb of a leap year (year < 1)" : "pil window indefinite for 29 Feb of a leap year") : "pil window indefinite for a real date", "%s inferred year %lld", ctx, (long long) Yp);
                } else if ((!strict || Yp < YLO + 1 || Yp > YHI - 1) && (!view_ok(q->wb) || !view_ok(q->we))) {
                        o_cnt[O_EITHER_OK]++;                   /* bounds beyond what struct tm can show: un-compared */
                } else {
                        int64_t dn = days_from_civil(Yp, mo, d), by, ey; int bm, bd, em, ed;
                        civil_from_days(h < 4 ? dn - 1 : dn, &by, &bm, &bd);
                        civil_from_days(dn + 1, &ey, &em, &ed);
                        int wb = wall_check(q->wb, by, bm, bd, h < 4 ? 20 : 0, 0, 0);
                        int we = wall_check(q->we, ey, em, ed, 4, 0, 0);
                        if (!wb) VIOL(h < 4 ? "pil window begin is not 20:00 of the previous day (hour < 4)" : "pil window begin is not 00:00 of the PIL day (hour >= 4)", "%s -> begin %s", ctx, view_str(q->wb));
                        else if (!we) VIOL("pil window end is not 04:00 of the next day", "%s -> end %s", ctx, view_str(q->we));
                        else if (conv_ok && !conv_gap && wb == 1 && we == 1 && !(q->wb <= q->r && q->r < q->we)) VIOL("pil window does not contain the converted time", "%s -> [%s, %s] converted %s", ctx, view_str(q->wb), view_str(q->we), view_str(q->r));
                        else { if (wb == 2 || we == 2) o_cnt[O_GAP]++; o_cnt[h < 4 ? O_W32 : O_W28]++; }
                }
        }
}

#undef ctx
/* one (zone, ambient, reference) cell */
static void tz_cell(int zi, int amb, time_t ref_raw, const unsigned *pils, int n, int wmode, uint64_t *evals)
{
        const char *zone = zone_val(zi);
        const char *zc = zone_class(zone);
        if (n > tzrecs_cap) { tzrecs = realloc(tzrecs, n * sizeof *tzrecs); tzrecs_cap = n; }
        time_t ref = ref_raw;
        establish(amb);
        if (ref_raw == (time_t) -1) { fake_mode = 1; fake_now = FAKE_NOW; fake_calls = 0; ref = FAKE_NOW; o_cnt[O_TIMEOK]++; }
        char ctx0[200]; snprintf(ctx0, sizeof ctx0, "start=%lld%s tz=%s%s%s ambient TZ=%s", (long long) ref, ref_raw == (time_t) -1 ? "(via time())" : "", zone ? "\"" : "", show(zone), zone ? "\"" : "", show(amb_val(amb)));

        /* pass 1: the library, under the ambient TZ */
        G_tail = ctx0;
        for (int i = 0; i < n; i++) {
                struct tzrec *q = &tzrecs[i]; unsigned pil = pils[i];
                q->pil = pil; q->wcalled = 0; G_pil = pil;
                errno = 0;
                q->r = vbi_pil_to_time(pil, ref_raw, zone);
                (*evals)++;
                tz_clause("vbi_pil_to_time", zc, q->r == (time_t) -1 ? "failed" : "succeeded", NULL);
                if (wmode == 0 || (wmode == 2 && pil_valid(pil) && P_MIN(pil) != 0)) continue;
                q->wcalled = 1; q->wb = 123; q->we = 456;
                errno = 0;
                q->wok = vbi_pil_validity_window(&q->wb, &q->we, pil, ref_raw, zone);
                (*evals)++;
                tz_clause("vbi_pil_validity_window", zc, q->wok ? "succeeded" : "failed", NULL);
        }
        struct tzctx z; memset(&z, 0, sizeof z);
        z.pb = 123; z.pe = 456;
        errno = 0;
        z.pok = vbi_pty_validity_window(&z.pb, &z.pe, ref_raw, zone);
        (*evals)++;
        tz_clause("vbi_pty_validity_window", zc, z.pok ? "succeeded" : "failed", ctx0);
        fake_mode = 0;

        /* pass 2: the oracle, with the harness' own TZ set to the zone */
        set_tz(zone ? zone : amb_val(amb));
        struct tm rt; memset(&rt, 0, sizeof rt);
        z.zone = zone; z.odd = zone_odd(zone); z.ctx0 = ctx0;
        z.have_ref = localtime_r(&ref, &rt) != NULL;
        z.Y = (int64_t) rt.tm_year + 1900; z.M = rt.tm_mon + 1;
        z.strict = z.have_ref && z.Y >= YLO && z.Y <= YHI;        /* beyond the struct tm years refusals are accepted */
        for (int i = 0; i < n; i++) tz_check_rec(&tzrecs[i], &z);

        /* PTY window: from the reference time to 04:00 local on the 29th day after its local date */
        if (z.pok && !(z.pb < z.pe)) VIOL("pty window not ordered (begin >= end)", "%s -> [%lld,%lld]", ctx0, (long long) z.pb, (long long) z.pe);
        else if (ref_raw != (time_t) -1 && z.have_ref) {
                int64_t ey; int em, ed;
                civil_from_days(days_from_civil(z.Y, z.M, rt.tm_mday) + 29, &ey, &em, &ed);
                int strict = z.strict && !z.odd && ey >= YLO && ey <= YHI;
                if (!z.pok) {
                        if (strict) VIOL("pty window refused", "%s", ctx0);
                        else o_cnt[z.odd ? O_TZODD_FAIL : O_EITHER_FAIL]++;
                } else if (z.pb != ref) VIOL("pty window does not begin at the reference time", "%s -> begin %lld", ctx0, (long long) z.pb);
                else if (!strict && !view_ok(z.pe)) o_cnt[O_EITHER_OK]++;
                else if (!wall_check(z.pe, ey, em, ed, 4, 0, 0)) VIOL("pty window end is not 04:00 four weeks and a day after the reference date", "%s -> end %s", ctx0, view_str(z.pe));
                else o_cnt[O_WPTY]++;
        }
}

static int ref_stride;

static void tz_lattice_case(uint64_t idx, void *arg)
{
        int nsel = (n_rbig + ref_stride - 1) / ref_stride;
        int za = (int) (idx / nsel), rj = (int) (idx % nsel);
        int zi = za / NAMB, amb = za % NAMB;
        int ri = rj * ref_stride + (zi + amb) % ref_stride;
        if (ri >= n_rbig) return;
        mc_case("tz lattice", "start=%lld tz=%s ambient=%s", (long long) R_big[ri], show(zone_val(zi)), show(amb_val(amb)));
        uint64_t ev = 0;
        cell_begin();
        tz_cell(zi, amb, R_big[ri], P_small, n_small, 1, &ev);
        if (mc_tier == MC_THOROUGH && (ri + za) % class_mod == 0) { tz_cell(zi, amb, R_big[ri], P_class, n_class, 2, &ev); mc_count("class_cells", 1); }
        mc_count("evaluations", ev); mc_count("tz_calls", ev);
        mc_distinct(mc_hash64("Z", 1) + ((uint64_t) za << 16) + ri);
        o_flush();
        if (zi == 7 && amb == 0 && rj == 30) mc_sample("zone lattice cell: start=%lld, tz=\"%s\", ambient TZ unset, %d class PILs, conversion + window + PTY window, TZ state compared after each call", (long long) R_big[ri], zone_val(zi), n_small);
}

static void tz_extreme_case(uint64_t idx, void *arg)
{
        int za = (int) (idx / n_rext), ri = (int) (idx % n_rext);
        int zi = za / NAMB, amb = za % NAMB;
        if (mc_tier == MC_QUICK && (zi + ri + amb) % 2) return;          /* quick: every other (zone, ambient) per reference time */
        mc_case("tz extremes", "start=%lld tz=%s ambient=%s", (long long) R_ext[ri], show(zone_val(zi)), show(amb_val(amb)));
        uint64_t ev = 0;
        cell_begin();
        tz_cell(zi, amb, R_ext[ri], P_small, n_small, 1, &ev);
        mc_count("evaluations", ev); mc_count("tz_calls", ev);
        mc_distinct(mc_hash64("E", 1) + ((uint64_t) za << 16) + ri);
        o_flush();
}

struct zcombo { int zi, amb; time_t ref; };
static struct zcombo *tzall_combo; static int n_tzall;

static void tz_allpil_case(uint64_t idx, void *arg)
{
        int c = (int) (idx / 256), chunk = (int) (idx % 256);
        const struct zcombo *k = &tzall_combo[c];
        mc_case("tz all PILs", "combo=%d start=%lld tz=%s ambient=%s chunk=%d", c, (long long) k->ref, show(zone_val(k->zi)), show(amb_val(k->amb)), chunk);
        static unsigned pils[4096];
        for (int i = 0; i < 4096; i++) pils[i] = (unsigned) chunk * 4096 + i;
        uint64_t ev = 0;
        cell_begin();
        tz_cell(k->zi, k->amb, k->ref, pils, 4096, 1, &ev);
        mc_count("evaluations", ev); mc_count("tz_calls", ev);
        mc_distinct(mc_hash64("T", 1) + idx);
        o_flush();
}

/* ---- time() failing: every function must refuse and restore TZ --------------------- */

static void time_fail_case(uint64_t idx, void *arg)
{
        int zi = (int) (idx / NAMB), amb = (int) (idx % NAMB);
        const char *zone = zone_val(zi);
        mc_case("time() fails", "tz=%s ambient=%s", show(zone), show(amb_val(amb)));
        establish(amb);
        cell_begin();
        uint64_t ev = 0;
        static const unsigned pp[] = { MKPIL(1, 1, 0, 0), MKPIL(2, 29, 12, 30), MKPIL(12, 31, 23, 59), MKPIL(7, 1, 3, 59) };
        for (unsigned i = 0; i < 4; i++) {
                char ctx[160]; snprintf(ctx, sizeof ctx, "pil=%05x start=-1 time() fails tz=%s ambient TZ=%s", pp[i], show(zone), show(amb_val(amb)));
                fake_mode = 2; fake_calls = 0;
                time_t r = vbi_pil_to_time(pp[i], (time_t) -1, zone); ev++;
                tz_clause("vbi_pil_to_time", zone_class(zone), "with failing time()", ctx);
                if (r != (time_t) -1) VIOL("pil_to_time succeeds although time() failed", "%s -> %lld", ctx, (long long) r);
                time_t b = 123, e = 456;
                int w = vbi_pil_validity_window(&b, &e, pp[i], (time_t) -1, zone); ev++;
                tz_clause("vbi_pil_validity_window", zone_class(zone), "with failing time()", ctx);
                if (w) VIOL("pil window succeeds although time() failed", "%s -> [%lld,%lld]", ctx, (long long) b, (long long) e);
                if (zi < 4) {
                        int off = zi == 0 ? 0 : zi == 1 ? 3600 : zi == 2 ? -5 * 3600 : INT_MAX;
                        r = vbi_pil_lto_to_time(pp[i], (time_t) -1, off); ev++;
                        tz_clause("vbi_pil_lto_to_time", "offset", "with failing time()", ctx);
                        if (r != (time_t) -1) VIOL("lto_to_time succeeds although time() failed", "%s seconds_east=%d -> %lld", ctx, off, (long long) r);
                        w = vbi_pil_lto_validity_window(&b, &e, pp[i], (time_t) -1, off); ev++;
                        tz_clause("vbi_pil_lto_validity_window", "offset", "with failing time()", ctx);
                        if (w) VIOL("lto window succeeds although time() failed", "%s seconds_east=%d", ctx, off);
                }
                if (!fake_calls) { fprintf(stderr, "C14: time() seam not reached\n"); _exit(42); }
                o_cnt[O_TIMEFAIL]++;
        }
        if (zone == NULL || strcmp(zone, "UTC")) {       /* the "UTC" string takes -1 literally in the PTY window */
                char ctx[160]; snprintf(ctx, sizeof ctx, "last_transm=-1 time() fails tz=%s ambient TZ=%s", show(zone), show(amb_val(amb)));
                time_t b = 123, e = 456;
                fake_mode = 2;
                int w = vbi_pty_validity_window(&b, &e, (time_t) -1, zone); ev++;
                if (tz_clause("vbi_pty_validity_window", zone_class(zone), "with failing time()", ctx) && w)
                        VIOL("pty window succeeds although time() failed", "%s -> [%lld,%lld]", ctx, (long long) b, (long long) e);
        }
        fake_mode = 0;
        mc_count("evaluations", ev);
        mc_distinct(mc_hash64("F", 1) + idx);
        o_flush();
}

/* ---- self check of the oracle's arithmetic (machinery, not a verdict) --------------- */

static void self_check(void)
{
        int bad = 0;
        bad |= days_from_civil(1970, 1, 1) != 0; bad |= days_from_civil(2000, 3, 1) != 11017; bad |= days_from_civil(1969, 12, 31) != -1;
        bad |= days_from_civil(2038, 1, 19) != 24855; bad |= ref_dim(2000, 2) != 29 || ref_dim(2001, 2) != 28 || ref_dim(2000, 12) != 31 || ref_dim(1900, 2) != 28;
        int64_t prev = days_from_civil(-801, 12, 31);
        for (int64_t y = -800; y <= 2800 && !bad; y++) for (int m = 1; m <= 12; m++) for (int d = 1; d <= ref_dim(y, m); d++) {
                int64_t z = days_from_civil(y, m, d), yy; int mm, dd;
                civil_from_days(z, &yy, &mm, &dd);
                if (z != prev + 1 || yy != y || mm != m || dd != d) bad = 1;
                prev = z;
        }
        if (ref_year(2001, 1, 7) != 2000 || ref_year(2001, 1, 6) != 2001 || ref_year(2001, 7, 1) != 2001 || ref_year(2001, 8, 1) != 2002 || ref_year(2001, 12, 6) != 2001 || ref_year(2001, 12, 5) != 2002) bad = 1;
        struct civ c; civ_of(-1, &c); if (c.y != 1969 || c.mo != 12 || c.d != 31 || c.h != 23 || c.mi != 59 || c.s != 59) bad = 1;
        if (bad) { fprintf(stderr, "C14: oracle self check failed\n"); exit(2); }
}

int main(int argc, char **argv)
{
        mc_init(argc, argv, "C14");
        mc_set_budget(300, 2400);
        self_check();
        /* tzdata present?  (the zone files are read by glibc's tzset(); without them fall back to POSIX strings) */
        set_tz("Europe/Berlin");
        { struct tm tm; time_t t = 962452800; memset(&tm, 0, sizeof tm); localtime_r(&t, &tm); have_tzdata = tm.tm_gmtoff == 7200; }
        if (!have_tzdata) { dst_zone = "CET-1CEST,M3.5.0,M10.5.0/3"; zone_b = "<+1030>-10:30<+11>-11,M10.1.0,M4.1.0"; }
        unsetenv("TZ"); tzset();
        build_lattices();

        int th = mc_tier == MC_THOROUGH;
        off_stride = th ? 1 : 8;
        ref_stride = th ? 1 : 12;
        class_mod = th ? 8 : 97;

        /* all-PIL combos */
        static const struct combo ac[] = {
                { 951825600 /* 2000-02-29 12:00 */, 3600, 0 }, { 996623999 /* 2001-07-31 23:59:59 */, -5 * 3600, 3 }, { 946684799 /* 1999-12-31 23:59:59 */, 1, 1 }, { 2147483647, 0, 2 },
                { 4107542400LL /* 2100-03-01 */, 20700, 3 }, { 31535999 /* 1970-12-31 23:59:59 */, 50400, 0 }, { 13569465600LL /* 2400-01-01 */, -50400, 1 }, { -1, 7200, 3 },
                { 1078099200 /* 2004-03-01 */, -1, 0 }, { 1012521600 /* 2002-02-01 */, INT_MAX, 3 }, { 1012521600, INT_MIN, 0 }, { 86400 * 200, -43200, 3 },
        };
        n_allpil = th ? (int) (sizeof ac / sizeof *ac) : 4;
        allpil_combo = (struct combo *) ac;
        static const struct zcombo zc[] = {
                { 7, 0, 951825600 }, { 3, 2, 996623999 }, { 0, 3, 946684799 }, { 8, 1, 1078099200 },
                { 4, 0, 2147483647 }, { 5, 3, 4107542400LL }, { 1, 3, 31535999 }, { 6, 0, -1 }, { 2, 3, 1012521600 }, { 9, 0, 1012521600 }, { 7, 2, 13569465600LL }, { 0, 0, 86400 * 200 },
        };
        n_tzall = th ? (int) (sizeof zc / sizeof *zc) : 2;
        tzall_combo = (struct zcombo *) zc;

        mc_meta("level", "exploration");
        mc_meta("technique", "bounded-exhaustive lattice over (PIL, reference time, offset or zone string, ambient TZ) on the real pdc.c functions; independent days-from-civil oracle (offset variants), localtime_r view under the zone (zone variants); TZ state compared after every call; time() interposed");
        mc_meta("rule", "a case is one (reference time, offset) or (zone, ambient TZ, reference time) cell or one 4096-PIL chunk of an all-PIL sweep; every PIL of the cell's set is converted, its validity window computed, each result compared with the oracle and the TZ state compared after each call; distinct counts cells (each differs in at least one lattice coordinate); an evaluation is one library call");
        mc_meta("bound", "offset variant: all 2^20 PILs x %d (start,offset,ambient) combos; %d class PILs x %d reference times (12 years: every month start -1 d,-1 s,0,+1 s,+1 d and mid month) x %d offsets (-14 h..+14 h in 15 min, +-1 s, +-59 s, +-1 d +-1 s, +-18 h, INT_MIN, INT_MAX; every %d. offset per reference) with %d PILs (all days) on every %d. cell; %d extreme reference times x %d offsets. zone variant: %d zone strings x 4 ambient TZ x every %d. of the %d reference times x %d PILs; all 2^20 PILs x %d (zone,ambient,start) combos; %d extreme reference times%s; time() failure for every zone x ambient",
                n_allpil, n_small, n_rbig, n_obig, off_stride, n_class, class_mod, n_rext, n_oext, NZONE, ref_stride, n_rbig, n_small, n_tzall, n_rext, th ? "" : " (every other zone/ambient pair)");
        mc_meta("assume", "glibc localtime_r() and the tzdata / POSIX TZ rules it reads are the definition of 'viewed in that zone' for zone strings; the offset variants use no libc time function in the oracle");
        mc_meta("assume", "quick tier: every %d. offset per reference time and every %d. reference time per (zone, ambient), phase rotated so that every offset / reference time is used; thorough: full product", off_stride, ref_stride);
        mc_meta("assume", "allocation failure inside strdup/setenv is not injected (documented reservation of the API)");
        mc_meta("assume", "zone strings that are empty or contain '=' may either be refused or converted as glibc interprets them; reference times beyond the struct tm year range may be refused");
        mc_note("tzdata %s: DST zone \"%s\", second zone \"%s\"", have_tzdata ? "present" : "missing (POSIX strings used)", dst_zone, zone_b);

        mc_pool("lto-allpil", (uint64_t) n_allpil * 256, lto_allpil_case, NULL, 60);
        mc_pool("lto-lattice", (uint64_t) n_rbig * ((n_obig + off_stride - 1) / off_stride), lto_lattice_case, NULL, 60);
        mc_pool("lto-extreme", (uint64_t) n_rext * n_oext, lto_extreme_case, NULL, 60);
        mc_pool("tz-lattice", (uint64_t) NZONE * NAMB * ((n_rbig + ref_stride - 1) / ref_stride), tz_lattice_case, NULL, 60);
        mc_pool("tz-extreme", (uint64_t) NZONE * NAMB * n_rext, tz_extreme_case, NULL, 60);
        mc_pool("tz-allpil", (uint64_t) n_tzall * 256, tz_allpil_case, NULL, 60);
        mc_pool("time-fails", (uint64_t) NZONE * NAMB, time_fail_case, NULL, 60);
        return mc_finish();
}
