/* C01_alphabet.h - execution context, base packets, the letter table and do_letter().
 * Included by C01.c (one translation unit). */

/* ======================================================================== */
/* execution context                                                        */
/* ======================================================================== */

#define EV_ALL (VBI_EVENT_TTX_PAGE | VBI_EVENT_CAPTION | VBI_EVENT_NETWORK | VBI_EVENT_TRIGGER | VBI_EVENT_ASPECT \
                | VBI_EVENT_PROG_INFO | VBI_EVENT_NETWORK_ID | VBI_EVENT_LOCAL_TIME | VBI_EVENT_PROG_ID)

static struct {
        vbi_decoder *vbi;
        double       t;
        vbi_page    *held;  int held_cc; const void *held_cn;
        int          hmode;                 /* 0 = consuming handler for everything, 1 = TTX only, 2 = CC only, 3 = none, 4 = ignoring */
        uint64_t     nevents, ev_types, unterminated;
        volatile uint64_t sink;
        int          search_visits, search_bound, search_cuts;
        /* what the executions reached (self check / outcomes) */
        int          reached_pop_obj, reached_drcs, reached_top_nav, reached_flof, reached_trigger_ev,
                     reached_xds_ev, reached_itv, reached_top_index, reached_title, reached_lop_fetch,
                     reached_hex_nav;       /* a page with a hexadecimal number formatted with 25 rows + navigation (seed C01 round 5) */
} G;

/* strings handed to the application live in fixed arrays and are documented as NUL terminated:
 * an application using them as strings would read past the array otherwise */
static size_t bounded_len_(const void *s, size_t max, const char *what)
{
        size_t n = strnlen((const char *) s, max);
        if (n == max) {
                G.unterminated++;
                char key[160]; snprintf(key, sizeof key, "string handed to the application without terminator inside its array: %s", what);
                viol(key, "%zu bytes, none is NUL | during %s | %s", max, cur_op, cur_ctx);
        }
        return n;
}
#define bounded_len(s, max) bounded_len_(s, max, #s)

static void consume_prog_info(const vbi_program_info *pi)
{
        G.sink += bounded_len(pi->title, sizeof pi->title);
        for (int i = 0; i < 8; i++) G.sink += bounded_len(pi->description[i], sizeof pi->description[i]);
        for (int i = 0; i < 2; i++) if (pi->audio[i].language) G.sink += strlen((const char *) pi->audio[i].language);
        for (int i = 0; i < 8; i++) if (pi->caption_language[i]) G.sink += strlen((const char *) pi->caption_language[i]);
        G.sink += pi->month + pi->rating_id + pi->type_id[0] + (pi->aspect.ratio > 0.9);
}

static void ev_consume(vbi_event *ev, void *ud)
{
        G.nevents++; G.ev_types |= (uint64_t) ev->type;
        switch (ev->type) {
        case VBI_EVENT_TTX_PAGE:
                G.sink += ev->ev.ttx_page.pgno + ev->ev.ttx_page.subno + ev->ev.ttx_page.pn_offset;
                if (ev->ev.ttx_page.raw_header) for (int i = 0; i < 40; i++) G.sink += ev->ev.ttx_page.raw_header[i];
                break;
        case VBI_EVENT_CAPTION: G.sink += ev->ev.caption.pgno; break;
        case VBI_EVENT_NETWORK: case VBI_EVENT_NETWORK_ID:
                G.sink += bounded_len(ev->ev.network.name, sizeof ev->ev.network.name) + bounded_len(ev->ev.network.call, sizeof ev->ev.network.call)
                        + ev->ev.network.nuid + ev->ev.network.cni_vps;
                break;
        case VBI_EVENT_TRIGGER: {
                vbi_link *l = ev->ev.trigger;
                G.reached_trigger_ev++;
                G.sink += bounded_len(l->name, sizeof l->name) + bounded_len(l->url, sizeof l->url) + bounded_len(l->script, sizeof l->script)
                        + l->type + l->pgno + l->subno + l->priority + (l->expires > 0);
                break; }
        case VBI_EVENT_ASPECT: G.sink += ev->ev.aspect.first_line + ev->ev.aspect.last_line + (ev->ev.aspect.ratio > 0.9); break;
        case VBI_EVENT_PROG_INFO: G.reached_xds_ev++; consume_prog_info(ev->ev.prog_info); break;
        case VBI_EVENT_LOCAL_TIME: G.sink += (uint64_t) ev->ev.local_time->time + ev->ev.local_time->seconds_east; break;
        case VBI_EVENT_PROG_ID: G.sink += ev->ev.prog_id->pil + ev->ev.prog_id->cni + ev->ev.prog_id->pty; break;
        default: break;
        }
}
static void ev_ignore(vbi_event *ev, void *ud) { G.nevents++; }

/* a leaked cache page is identified by its page function: different reference leaks get different keys */
static void describe_leak(const void *p, size_t n, const char *fn, char *out, size_t len)
{
        static const char *FN[] = { "ACI", "EPG", "EACEM_TRIGGER", "DISCARD", "UNKNOWN", "LOP", "DATA", "GPOP", "POP", "GDRCS", "DRCS", "MOT", "MIP", "BTT", "AIT", "MPT", "MPT_EX", "IEC_TRIGGER" };
        if (strcmp(fn, "_vbi_cache_put_page") || n < offsetof(cache_page, data)) return;
        int f = ((const cache_page *) p)->function;
        snprintf(out, len, " [cache page, function %s]", f >= -5 && f <= 12 ? FN[f + 5] : "?");
}

static void ex_begin(void)
{
        leak_describe = describe_leak;
        acct_begin();
        memset(&G, 0, sizeof G);
        op("vbi_decoder_new");
        G.vbi = vbi_decoder_new();
        if (!G.vbi) harness_die("vbi_decoder_new failed");
        G.t = 1000.0;
        op("vbi_event_handler_register");
        vbi_event_handler_register(G.vbi, EV_ALL, ev_consume, NULL);
}
static void drop_held(void)
{
        if (G.held) { op("vbi_unref_page"); vbi_unref_page(G.held); __real_free(G.held); G.held = NULL; }
}
static int ex_end(void)
{
        drop_held();
        op("vbi_decoder_delete");
        vbi_decoder_delete(G.vbi);
        G.vbi = NULL;
        return acct_end("vbi_decoder_delete");
}

/* one vbi_decode() call; the sliced array is an exactly sized heap copy */
static void feed_lines(const vbi_sliced *s, int n, double dt)
{
        G.t += dt;
        if (getenv("C01_TRACE") && n == 1 && (s[0].id & VBI_SLICED_TELETEXT_B)) { int a = vbi_unham16p(s[0].data); fprintf(stderr, "TRACE ttx mag %d packet %d d2=%d\n", a & 7, a >> 3, vbi_unham8(s[0].data[2])); }
        vbi_sliced *x = __real_malloc(n > 0 ? n * sizeof *x : 1);
        if (n > 0) memcpy(x, s, n * sizeof *x);
        op("vbi_decode");
        vbi_decode(G.vbi, x, n, G.t);
        __real_free(x);
        if (getenv("C01_TRACE")) fprintf(stderr, "TRACE   after: mag1 charset=%d,%d have_top=%d\n", G.vbi->cn->_magazines[0].extension.charset_code[0], G.vbi->cn->_magazines[0].extension.charset_code[1], G.vbi->cn->have_top);
}
static void feed_ttx(const uint8_t *p)
{
        vbi_sliced s; memset(&s, 0, sizeof s);
        s.id = VBI_SLICED_TELETEXT_B; s.line = 7;
        memcpy(s.data, p, 42);
        feed_lines(&s, 1, 0.04);
}
static void feed_cc_raw(int line, unsigned b0, unsigned b1)
{
        vbi_sliced s; memset(&s, 0, sizeof s);
        s.id = (line == 21 || line == 284) ? VBI_SLICED_CAPTION_525 : VBI_SLICED_CAPTION_625; s.line = line;
        s.data[0] = b0; s.data[1] = b1;
        feed_lines(&s, 1, 0.04);
}
static void feed_cc(int line, unsigned c1, unsigned c2) { feed_cc_raw(line, vbi_par8(c1 & 0x7F), vbi_par8(c2 & 0x7F)); }

/* ======================================================================== */
/* base Teletext packets                                                    */
/* ======================================================================== */

enum {
        /* headers, magazine 1 */
        P_H100E, P_H100, P_H100S, P_H100SUB1, P_H100SUB2, P_H100NEWS, P_H100C7, P_H100NAT, P_H101, P_H102, P_H103,
        P_H10A, P_H12F, P_H18A, P_H18B,         /* displayable pages with hexadecimal numbers (the MIP rows 9 / 11 list them) */
        P_H1F0, P_H1FD, P_H1FE, P_H1E7, P_H17A, P_H17B, P_H17C, P_H17D, P_H17E, P_H16A, P_H16B, P_H1FF,
        P_H200, P_H200S, P_H2FD, P_H800, P_H8FF, P_HBADPAGE, P_HBADSUB, P_HBADFLAGS,
        /* rows */
        P_R1_TEXT, P_R1_ATTR, P_R1_BADPAR, P_R2_SIZE, P_R23_DH, P_R24_FLOF, P_R25, P_R1_M2,
        P_MIP_R1, P_MIP_R9, P_MIP_R11, P_MIP_R15,
        P_MOT_R1, P_MOT_R10, P_MOT_R19, P_MOT_R21, P_MOT_R22, P_MOT_R24,
        P_BTT_R1, P_BTT_R21, P_AIT_R1, P_MPT_R1, P_MPX_R1, P_BTT_R21B, P_AIT_R1C, P_AIT_R1D, P_BTT_R1S, P_BTT_R1G,
        P_POP_R1, P_POP_R3, P_POP_R4, P_DRCS_R1, P_DRCS_R2,
        P_TRIG_A, P_TRIG_B, P_TRIG_C, P_TRIG_D, P_TRIG_E,
        /* enhancement */
        P_X26_0, P_X26_0L, P_X26_0P, P_X26_0Q, P_X26_1, P_X26_2, P_X26_15, P_X26_BAD,
        P_X27_0, P_X27_1, P_X27_4,
        P_X28_0, P_X28_0POP, P_X28_1, P_X28_3, P_X28_4, P_M29_0, P_M29_1, P_M29_4,
        P_830_1, P_830_1B, P_830_2, P_830_2B, P_IDL_31,
        NPKT
};
static uint8_t     PKT[NPKT][42];
static const char *PKTNAME[NPKT];
static unsigned    cni_8301[2], cni_8302[2], cni_vps[2];

#define PN(id, nm) (PKTNAME[id] = (nm), PKT[id])

static void build_packets(void)
{
        uint8_t *d;
        /* two networks the CNI table knows, for the identified channel switch path */
        int k1 = 0, k2 = 0, kv = 0;
        for (const struct vbi_cni_entry *p = vbi_cni_table; p->name; p++) {
                if (p->cni1 && k1 < 2 && (k1 == 0 || p->cni1 != cni_8301[0])) cni_8301[k1++] = p->cni1;
                if (p->cni2 && k2 < 2 && (k2 == 0 || p->cni2 != cni_8302[0])) cni_8302[k2++] = p->cni2;
                if (p->cni4 && kv < 2 && (kv == 0 || p->cni4 != cni_vps[0])) cni_vps[kv++] = p->cni4;
        }
        if (k1 < 2 || k2 < 2 || kv < 2) harness_die("CNI table too small");

        pk_hdr(PN(P_H100E, "H100+erase"), 1, 0x00, 0x0080, 0);
        pk_hdr(PN(P_H100, "H100"), 1, 0x00, 0, 0);
        pk_hdr(PN(P_H100S, "H100+serial"), 1, 0x00, 0, 0x10);
        pk_hdr(PN(P_H100SUB1, "H100/0001"), 1, 0x00, 0x0001, 0);
        pk_hdr(PN(P_H100SUB2, "H100/0002+erase"), 1, 0x00, 0x0082, 0);
        pk_hdr(PN(P_H100NEWS, "H100+newsflash+subtitle"), 1, 0x00, 0xC000, 0);
        pk_hdr(PN(P_H100C7, "H100+suppress+inhibit+update"), 1, 0x00, 0, 0x0B);
        pk_hdr(PN(P_H100NAT, "H100+national7"), 1, 0x00, 0x0080, 0xE0);
        pk_hdr(PN(P_H101, "H101+serial"), 1, 0x01, 0x0080, 0x10);
        /* pages the MIP of P_MIP_R1 lists as subtitle pages (codes 0x70, 0x77): parse_mip_page() looks at their cached copy */
        pk_hdr(PN(P_H102, "H102+erase (MIP: subtitle page)"), 1, 0x02, 0x0080, 0);
        pk_hdr(PN(P_H103, "H103+erase (MIP: subtitle page)"), 1, 0x03, 0x0080, 0);
        /* seed C01 round 5: pages with hexadecimal numbers are ordinary displayable pages once a MIP lists them as normal /
         * schedule / subtitle page (packet.c stores them with function LOP): 10A, 12F from P_MIP_R9, 18A, 18B from P_MIP_R11 */
        pk_hdr(PN(P_H10A, "H10A+erase (MIP row9: normal page)"), 1, 0x0A, 0x0080, 0);
        pk_hdr(PN(P_H12F, "H12F+erase (MIP row9: normal page)"), 1, 0x2F, 0x0080, 0);
        pk_hdr(PN(P_H18A, "H18A+erase (MIP row11: normal page)"), 1, 0x8A, 0x0080, 0);
        pk_hdr(PN(P_H18B, "H18B+erase (MIP row11: subtitle page)"), 1, 0x8B, 0x0080, 0);
        pk_hdr(PN(P_H1F0, "H1F0(BTT)"), 1, 0xF0, 0x0080, 0);
        pk_hdr(PN(P_H1FD, "H1FD(MIP)"), 1, 0xFD, 0x0080, 0);
        pk_hdr(PN(P_H1FE, "H1FE(MOT)"), 1, 0xFE, 0x0080, 0);
        pk_hdr(PN(P_H1E7, "H1E7(trigger,national 7)"), 1, 0xE7, 0x0080, 0xE0);
        pk_hdr(PN(P_H17A, "H17A"), 1, 0x7A, 0x0080, 0);
        pk_hdr(PN(P_H17B, "H17B"), 1, 0x7B, 0x0080, 0);
        pk_hdr(PN(P_H17C, "H17C"), 1, 0x7C, 0x0080, 0);
        pk_hdr(PN(P_H17D, "H17D(national 7)"), 1, 0x7D, 0x0080, 0xE0);
        pk_hdr(PN(P_H17E, "H17E"), 1, 0x7E, 0x0080, 0);
        pk_hdr(PN(P_H16A, "H16A"), 1, 0x6A, 0x0080, 0);
        pk_hdr(PN(P_H16B, "H16B/0001"), 1, 0x6B, 0x0001, 0);
        pk_hdr(PN(P_H1FF, "H1FF(filler)"), 1, 0xFF, 0x3F7F, 0);
        pk_hdr(PN(P_H200, "H200"), 2, 0x00, 0x0080, 0);
        pk_hdr(PN(P_H200S, "H200+serial"), 2, 0x00, 0x0080, 0x10);
        pk_hdr(PN(P_H2FD, "H2FD(MIP mag 2)"), 2, 0xFD, 0x0080, 0);
        pk_hdr(PN(P_H800, "H800+serial"), 8, 0x00, 0x0080, 0x10);
        pk_hdr(PN(P_H8FF, "H8FF(filler)"), 8, 0xFF, 0x3F7F, 0x10);
        pk_hdr(d = PN(P_HBADPAGE, "H1xx(page number uncorrectable)"), 1, 0x00, 0, 0); d[3] = 0x00;
        pk_hdr(d = PN(P_HBADSUB, "H100(subcode S3 uncorrectable)"), 1, 0x00, 0, 0); d[6] = 0x00;
        pk_hdr(d = PN(P_HBADFLAGS, "H100(control bits uncorrectable)"), 1, 0x00, 0, 0); d[9] = 0xFF;

        pk_row(PN(P_R1_TEXT, "row1 text+links"), 1, 1, " HELLO 200 1/3 www.ab.cd x@y.z 123456789");
        d = PN(P_R1_ATTR, "row1 spacing attributes"); pk_addr(d, 1, 1);
        { static const unsigned char a[] = { 0x0D,'A',0x0E,'B',0x0F,'C',0x0C,0x0B,0x0B,'D',0x0A,0x0A,0x1B,'E',0x1B,0x11,0x7F,0x1A,0x6A,0x19,0x1E,0x01,0x1F,0x1D,0x02,0x1C,0x18,'F',0x08,'G',0x09,0x17,0x35,0x0D,'H',0x0E,0x0E,'I',0x0F,0x0F };
          for (int i = 0; i < 40; i++) d[2 + i] = vbi_par8(a[i]); }
        d = PN(P_R1_BADPAR, "row1 parity errors"); pk_row(d, 1, 1, " PARITY "); for (int i = 6; i < 42; i += 3) d[i] ^= 0x80;
        d = PN(P_R2_SIZE, "row2 double size at right margin"); pk_row(d, 1, 2, " SIZE 7/1234567890 >> p.301"); d[2 + 37] = vbi_par8(0x0F); d[2 + 38] = vbi_par8(0x0F); d[2 + 39] = vbi_par8(0x0E);
        d = PN(P_R23_DH, "row23 double height/size"); pk_row(d, 1, 23, " LAST"); d[2] = vbi_par8(0x0D); d[2 + 10] = vbi_par8(0x0F);
        d = PN(P_R24_FLOF, "row24 flof labels"); pk_addr(d, 1, 24); d[2] = vbi_par8(0x01); pk_text(d, 3, "Red"); d[10] = vbi_par8(0x02); pk_text(d, 11, "Green"); d[20] = vbi_par8(0x03); pk_text(d, 21, "Yel"); d[30] = vbi_par8(0x06); pk_text(d, 31, "Cyan 400");
        pk_row(PN(P_R25, "row25"), 1, 25, " ROW 25 ");
        pk_row(PN(P_R1_M2, "row1 magazine 2"), 2, 1, " MAG TWO 100 ");

        /* MIP: row 1 = pages 100-109, 110-119; row 11 = 16A-16F, 17A-17F, 18A-18F; row 15 = sub-page counts */
        d = PN(P_MIP_R1, "MIP row1 (100..119)"); pk_addr(d, 1, 1);
        { static const int c[20] = { 0x50, 0x02, 0x70, 0x77, 0x81, 0xD0, 0x7B, 0x7A, 0x78, 0x79,  0x7C, 0x7D, 0x7E, 0x7F, 0xF8, 0xE0, 0x00, 0x01, 0x4F, 0xCF };
          for (int i = 0; i < 20; i++) pk_h16(d, 2 + 2 * i, c[i]); }
        /* row 9 = pages 10A-10F, 11A-11F, 12A-12F: every class of displayable page (single page, multi page, subtitle, schedule,
         * now/next, engineering), no page, unknown, object pages - no code that needs the sub-page index of row 15 */
        d = PN(P_MIP_R9, "MIP row9 (10A..12F: normal, subtitle, schedule pages...)"); pk_addr(d, 1, 9);
        { static const int c[18] = { 0x01, 0x02, 0x70, 0x81, 0x7C, 0xF4,  0x01, 0x4F, 0x77, 0xCF, 0x00, 0xFF,  0x01, 0x82, 0xE5, 0xEC, 0x7D, 0x01 };
          for (int i = 0; i < 18; i++) pk_h16(d, 2 + 2 * i, c[i]); }
        d = PN(P_MIP_R11, "MIP row11 (16A..18F: GPOP,TOP,DRCS,POP,trigger,EPG...)"); pk_addr(d, 1, 11);
        { static const int c[18] = { 0xEC, 0xFE, 0xE7, 0xF9, 0x52, 0xFF,  0xE5, 0xE6, 0xE8, 0xFC, 0xE3, 0xFD,  0x01, 0x70, 0x50, 0xE0, 0x7B, 0xF8 };
          for (int i = 0; i < 18; i++) pk_h16(d, 2 + 2 * i, c[i]); }
        d = PN(P_MIP_R15, "MIP row15 (sub-page counts)"); pk_addr(d, 1, 15);
        for (int i = 0; i < 13; i++) { pk_h16(d, 3 + 3 * i, 0x12 + i * 7); d[5 + 3 * i] = vbi_ham8(i & 3); }

        /* MOT: row 1 pop/drcs lut for x00-x19, row 10 for hex pages xAx, row 19 POP links, 21 DRCS links, 22/24 level 3.5 */
        d = PN(P_MOT_R1, "MOT row1 (lut 100..119)"); pk_addr(d, 1, 1);
        for (int i = 0; i < 20; i++) { d[2 + 2 * i] = vbi_ham8(i == 0 ? 1 : (i & 7)); d[3 + 2 * i] = vbi_ham8(i == 0 ? 1 : ((i >> 1) & 7)); }
        d = PN(P_MOT_R10, "MOT row10 (lut hex pages)"); pk_addr(d, 1, 10);
        for (int i = 0; i < 20; i++) { d[2 + 2 * i] = vbi_ham8(2); d[3 + 2 * i] = vbi_ham8(1); }
        d = PN(P_MOT_R19, "MOT row19 (POP links)"); pk_addr(d, 1, 19);
        { static const int l[4][10] = { { 1, 0x6, 0xA, 0, 0, 0x0, 0, 0, 0, 0 },          /* GPOP 16A, no default objects */
                                         { 1, 0x7, 0xB, 0, 2, 0x9, 0, 0, 0, 1 },          /* POP 17B: default active (addr 0) + adaptive (addr 0x10) */
                                         { 1, 0xF, 0xF, 0, 1, 0x0, 0, 0, 0, 0 },          /* dead link */
                                         { 2, 0x0, 0x0, 0, 6, 0xE, 15, 15, 15, 15 } };    /* page 200 as POP, passive + passive, max address */
          for (int i = 0; i < 4; i++) pk_nib(d, 2 + 10 * i, l[i], 10); }
        d = PN(P_MOT_R21, "MOT row21 (DRCS links)"); pk_addr(d, 1, 21);
        { static const int l[8][4] = { {1,0x7,0xC,0}, {1,0x7,0xA,0}, {1,0xF,0xF,0}, {1,0,0,0}, {8,0xF,0xE,0}, {0,0x7,0xA,3}, {2,0,0,0}, {1,0x7,0xB,0} };
          for (int i = 0; i < 8; i++) pk_nib(d, 2 + 4 * i, l[i], 4); }
        d = PN(P_MOT_R22, "MOT row22 (level 3.5 POP links)"); pk_addr(d, 1, 22);
        { static const int l[4][10] = { { 1, 0x6, 0xA, 0, 1, 0x0, 0, 0, 0, 0 }, { 1, 0x7, 0xB, 0, 6, 0x7, 1, 0, 1, 2 }, { 1, 0x7, 0xA, 0, 0, 0x1, 0, 0, 0, 0 }, { 1, 0, 0, 0, 0, 0xF, 3, 7, 12, 8 } };
          for (int i = 0; i < 4; i++) pk_nib(d, 2 + 10 * i, l[i], 10); }
        d = PN(P_MOT_R24, "MOT row24 (level 3.5 DRCS links)"); pk_addr(d, 1, 24);
        { static const int l[8][4] = { {1,0x7,0xC,0}, {1,0x7,0xA,0}, {1,0,0,0}, {1,0xF,0xF,0}, {1,0x7,0xB,0}, {3,3,3,3}, {8,9,9,0}, {1,0xF,0xE,0} };
          for (int i = 0; i < 8; i++) pk_nib(d, 2 + 4 * i, l[i], 4); }

        /* TOP */
        d = PN(P_BTT_R1, "BTT row1 (100..139)"); pk_addr(d, 1, 1);
        { static const int c[40] = { 4,8,9,10,11,1,2,3,6,7,  5,8,8,0,12,15,1,6,8,8,  4,10,10,8,8,8,7,8,8,1,  8,8,8,8,8,8,8,8,8,8 };
          pk_nib(d, 2, c, 40); }
        /* the same table with page 101 listed as a subtitle page: parse_btt() looks a listed subtitle page up in the cache */
        d = PN(P_BTT_R1S, "BTT row1 (101 subtitles)"); pk_addr(d, 1, 1);
        { static const int c[40] = { 4,1,9,10,11,1,2,3,6,7,  5,8,8,0,12,15,1,6,8,8,  4,10,10,8,8,8,7,8,8,1,  8,8,8,8,8,8,8,8,8,8 };
          pk_nib(d, 2, c, 40); }
        /* seed C01 round 5: a page table that knows groups, schedule, subtitle and normal pages but no block page (codes 4, 5) */
        d = PN(P_BTT_R1G, "BTT row1 (groups 100, 110, 117, 126; no block)"); pk_addr(d, 1, 1);
        { static const int c[40] = { 6,8,9,10,11,8,2,3,8,8,  7,8,8,0,12,15,8,6,8,8,  8,10,10,1,8,8,7,8,8,8,  8,8,8,8,8,8,8,8,8,8 };
          pk_nib(d, 2, c, 40); }
        d = PN(P_BTT_R21, "BTT row21 (links AIT 17C, MPT 17D, MPT-EX 17E)"); pk_addr(d, 1, 21);
        { static const int l[5][8] = { {1,0x7,0xC,0,0,0,0,2}, {1,0x7,0xD,0,0,0,0,1}, {1,0x7,0xE,0,0,0,1,3}, {0,0xF,0xF,3,15,7,15,2}, {1,0,0,0,0,0,0,7} };
          for (int i = 0; i < 5; i++) pk_nib(d, 2 + 8 * i, l[i], 8); }
        d = PN(P_AIT_R1, "AIT row1 (titles 100, 101)"); pk_addr(d, 1, 1);
        { static const int a[8] = {1,0,0,0,0,0,0,0}, b[8] = {1,0,1,3,15,7,15,0};
          pk_nib(d, 2, a, 8); pk_text(d, 10, "News Index  "); pk_nib(d, 22, b, 8); pk_text(d, 30, "Sport{}|~   "); }
        /* two AIT pages (17C, 16A) whose titles interleave: 17C has 100 and 110, 16A has 105 and 120 - walking the TOP index from
         * 100 the best title of the first table (110) is beaten by one of the second (105) */
        d = PN(P_BTT_R21B, "BTT row21 (links AIT 17C, AIT 16A)"); pk_addr(d, 1, 21);
        { static const int l[5][8] = { {1,0x7,0xC,0,0,0,0,2}, {1,0x6,0xA,0,0,0,0,2}, {0,0xF,0xF,3,15,7,15,2}, {1,0,0,0,0,0,0,7}, {1,0,0,0,0,0,0,7} };
          for (int i = 0; i < 5; i++) pk_nib(d, 2 + 8 * i, l[i], 8); }
        d = PN(P_AIT_R1C, "AIT row1 (titles 100, 110)"); pk_addr(d, 1, 1);
        { static const int a[8] = {1,0,0,3,15,7,15,0}, b[8] = {1,1,0,3,15,7,15,0};
          pk_nib(d, 2, a, 8); pk_text(d, 10, "Index       "); pk_nib(d, 22, b, 8); pk_text(d, 30, "Weather     "); }
        d = PN(P_AIT_R1D, "AIT row1 (titles 105, 120)"); pk_addr(d, 1, 1);
        { static const int a[8] = {1,0,5,3,15,7,15,0}, b[8] = {1,2,0,3,15,7,15,0};
          pk_nib(d, 2, a, 8); pk_text(d, 10, "Politics    "); pk_nib(d, 22, b, 8); pk_text(d, 30, "Culture     "); }
        d = PN(P_MPT_R1, "MPT row1"); pk_addr(d, 1, 1);
        { int c[40]; for (int i = 0; i < 40; i++) c[i] = (i * 5) & 15; pk_nib(d, 2, c, 40); }
        d = PN(P_MPX_R1, "MPT-EX row1"); pk_addr(d, 1, 1);
        { static const int l[5][8] = { {1,0,0,0,0,1,2,0}, {1,0,1,3,15,7,15,0}, {9,0,0,0,0,0,1,0}, {1,0,2,0,0,0,0,0}, {0,0,0,0,0,0,1,0} };
          for (int i = 0; i < 5; i++) pk_nib(d, 2 + 8 * i, l[i], 8); }

        /* POP 17B: row 1 = pointer table (designation code 1), rows 3, 4 = triplets (code 0).
         * pointer[2*i] / pointer[2*i+1] come from triplet i of row 1 (i = 1..12); triplet 0 of row 3 is pointer value 0. */
        d = PN(P_POP_R1, "POP row1 (pointers)"); pk_enh(d, 1, 1, 1);
        vbi_ham24p(d + 3 + 1 * 3, 0 | (6 << 9));        /* type 1 (active): objects at triplet 0 and 6 */
        vbi_ham24p(d + 3 + 2 * 3, 13 | (17 << 9));      /* type 2 (adaptive): row 4 triplet 0 and 4 */
        vbi_ham24p(d + 3 + 3 * 3, 20 | (506 << 9));     /* type 3 (passive): triplet 20, and the last one */
        vbi_ham24p(d + 3 + 4 * 3, 507 | (511 << 9));    /* out of range / unused */
        for (int i = 5; i < 13; i++) vbi_ham24p(d + 3 + i * 3, (3 * i) | ((i * 40) << 9));
        d = PN(P_POP_R3, "POP row3 (active objects)"); pk_enh(d, 1, 3, 0);
        pk_trip(d, 0, 40, 0x15, 0);                     /* active object definition, address matches invocation 48/0 */
        pk_trip(d, 1, 41, 0x04, 2);                     /* set active position row 1 column 2 */
        pk_trip(d, 2, 2, 0x09, 'P');                    /* G0 character */
        pk_trip(d, 3, 3, 0x0D, 0x41);                   /* normal DRCS character 1 */
        pk_trip(d, 4, 48, 0x12, 0x00);                  /* adaptive object from the POP, pointer group 0 */
        pk_trip(d, 5, 63, 0x1F, 0);                     /* end */
        pk_trip(d, 6, 40, 0x15, 0x10);                  /* second active object (pointer high half) */
        pk_trip(d, 7, 47, 0x10, 71);                    /* origin modifier +7 rows +71 columns */
        pk_trip(d, 8, 63, 0x04, 39);                    /* active position row 23 column 39 */
        pk_trip(d, 9, 39, 0x0C, 0x7F);                  /* display attributes: all bits */
        pk_trip(d, 10, 39, 0x01, 0x7F);                 /* mosaic */
        pk_trip(d, 11, 56, 0x13, 0x00);                 /* passive object, global source */
        pk_trip(d, 12, 63, 0x1F, 0);
        d = PN(P_POP_R4, "POP row4 (adaptive/passive objects)"); pk_enh(d, 1, 4, 0);
        pk_trip(d, 0, 40, 0x16, 0);                     /* adaptive definition */
        pk_trip(d, 1, 40, 0x01, 0x05);                  /* full row colour row 24 */
        pk_trip(d, 2, 10, 0x0E, 0x77);                  /* font style, 8 rows */
        pk_trip(d, 3, 12, 0x11 + 2, 0x00);              /* column triplet with mode 0x13 = diacritical */
        pk_trip(d, 4, 40, 0x16, 0x10);                  /* second adaptive definition */
        pk_trip(d, 5, 48, 0x13, 0x00);                  /* passive object from POP */
        pk_trip(d, 6, 63, 0x1F, 0);
        pk_trip(d, 7, 40, 0x17, 0);                     /* passive definition (pointer 20) */
        pk_trip(d, 8, 45, 0x04, 0);
        pk_trip(d, 9, 0, 0x0F, 0x41);                   /* G2 */
        pk_trip(d, 10, 39, 0x02, 0x7F);                 /* G3 at column 39 */
        pk_trip(d, 11, 20, 0x0D, 0x01);                 /* global DRCS 1 */
        pk_trip(d, 12, 63, 0x1F, 0);

        d = PN(P_DRCS_R1, "DRCS row1"); pk_addr(d, 1, 1); for (int i = 0; i < 40; i++) d[2 + i] = vbi_par8(0x40 | ((i * 7 + 1) & 0x3F));
        d = PN(P_DRCS_R2, "DRCS row2 (one invalid byte)"); pk_addr(d, 1, 2); for (int i = 0; i < 40; i++) d[2 + i] = vbi_par8(0x40 | ((i * 11 + 3) & 0x3F)); d[2 + 25] = vbi_par8(0x20);

        { char t[200];
          trigger_with_checksum(t, sizeof t, "<ttx://0000/100/0000>[n:x][a:3]");
          pk_row(PN(P_TRIG_A, "trigger A (ttx link, immediate)"), 1, 1, t);
          trigger_with_checksum(t, sizeof t, "<http://a.b>[n:C][c:10]");
          pk_row(PN(P_TRIG_B, "trigger B (EACEM deferred, checksum)"), 1, 1, t);
          trigger_with_checksum(t, sizeof t, "<http://a.b>[d:1][c:10]");
          pk_row(PN(P_TRIG_C, "trigger C (delete)"), 1, 1, t);
          /* countdowns far in the future: each transmission has its own fire time (now + countdown), so the list of
           * deferred triggers only shrinks after 115 days; and a countdown whose frame count does not fit an int */
          trigger_with_checksum(t, sizeof t, "<http://a.b>[n:D][c:9999999]");
          pk_row(PN(P_TRIG_D, "trigger D (EACEM deferred 115 days)"), 1, 1, t);
          trigger_with_checksum(t, sizeof t, "<http://a.b>[c:99999999]");
          pk_row(PN(P_TRIG_E, "trigger E (EACEM countdown 99999999 s)"), 1, 1, t); }

        /* X/26 */
        d = PN(P_X26_0, "X/26/0 (POP object, DRCS, chars)"); pk_enh(d, 1, 26, 0);
        pk_trip(d, 0, 41, 0x04, 0);                     /* active position row 1 */
        pk_trip(d, 1, 48, 0x11, 0x00);                  /* active object from POP, pointer group 0 low */
        pk_trip(d, 2, 5, 0x0D, 0x40);                   /* normal DRCS character 0 */
        pk_trip(d, 3, 6, 0x09, 'X');
        pk_trip(d, 4, 7, 0x10 + 3, 'e');                /* diacritical */
        pk_trip(d, 5, 42, 0x01, 0x03);                  /* full row colour row 2 */
        pk_trip(d, 6, 56, 0x11, 0x00);                  /* active object from GPOP */
        pk_trip(d, 7, 8, 0x0D, 0x01);                   /* global DRCS character 1 */
        pk_trip(d, 8, 40, 0x00, 0x01);                  /* full screen colour */
        pk_trip(d, 9, 63, 0x07, 0x02);                  /* address row 0 */
        pk_trip(d, 10, 9, 0x0F, 0x55);
        pk_trip(d, 11, 48, 0x11, 0x10);                 /* active object, pointer high half */
        pk_trip(d, 12, 63, 0x1F, 0);
        d = PN(P_X26_0L, "X/26/0 (local objects)"); pk_enh(d, 1, 26, 0);
        pk_trip(d, 0, 41, 0x04, 0);
        pk_trip(d, 1, 40 + 0, 0x11, 0x03);              /* local active object: source 1, designation 0, triplet 3 */
        pk_trip(d, 2, 63, 0x1F, 0);
        pk_trip(d, 3, 40, 0x15, 0x03);                  /* its definition */
        pk_trip(d, 4, 43, 0x04, 10);
        pk_trip(d, 5, 10, 0x09, 'L');
        pk_trip(d, 6, 40 + 1, 0x12, 0x7C);              /* local adaptive: designation 23, triplet 12 */
        pk_trip(d, 7, 40, 0x12, 0x1C);                  /* local adaptive: designation 1, triplet 12 */
        pk_trip(d, 8, 11, 0x06, 0x59);                  /* PDC minutes without hours */
        pk_trip(d, 9, 40, 0x0A, 0x12);
        pk_trip(d, 10, 12, 0x06, 0x30);
        pk_trip(d, 11, 40, 0x18, 0x4F);                 /* DRCS mode: normal, sub-page 15 */
        pk_trip(d, 12, 13, 0x0D, 0x6F);                 /* normal DRCS 47 */
        d = PN(P_X26_0P, "X/26/0 (POP object, pointer 507)"); pk_enh(d, 1, 26, 0);
        pk_trip(d, 0, 41, 0x04, 0); pk_trip(d, 1, 48, 0x11, 0x20);         /* pointer group 1 low = 507 */
        d = PN(P_X26_0Q, "X/26/0 (POP object, pointer 511)"); pk_enh(d, 1, 26, 0);
        pk_trip(d, 0, 41, 0x04, 0); pk_trip(d, 1, 48, 0x11, 0x30);         /* pointer group 1 high = 511 */
        d = PN(P_X26_1, "X/26/1"); pk_enh(d, 1, 26, 1);
        pk_trip(d, 0, 63, 0x04, 39);
        pk_trip(d, 1, 39, 0x0C, 0x41);                  /* double width + height at column 39 */
        pk_trip(d, 2, 39, 0x09, 'W');
        pk_trip(d, 3, 40, 0x04, 0);                     /* row 24 */
        pk_trip(d, 4, 0, 0x08, 0x26);                   /* character set */
        pk_trip(d, 5, 1, 0x09, 0x7F);
        pk_trip(d, 6, 2, 0x08, 0x7F);                   /* invalid character set */
        pk_trip(d, 7, 3, 0x0E, 0x7F);
        pk_trip(d, 8, 4, 0x07, 0x03);
        pk_trip(d, 9, 5, 0x03, 0x1F);
        pk_trip(d, 10, 6, 0x00, 0x1F);
        pk_trip(d, 11, 40, 0x15, 0x0C);                 /* object definition ends local data */
        pk_trip(d, 12, 7, 0x09, 'Z');
        d = PN(P_X26_2, "X/26/2 (out of order)"); pk_enh(d, 1, 26, 2); pk_trip(d, 0, 41, 0x04, 0); pk_trip(d, 1, 1, 0x09, 'Q');
        d = PN(P_X26_15, "X/26/15"); pk_enh(d, 1, 26, 15); pk_trip(d, 0, 50, 0x04, 5); pk_trip(d, 1, 5, 0x09, 'F');
        d = PN(P_X26_BAD, "X/26/0 (triplet 4 uncorrectable)"); memcpy(d, PKT[P_X26_0], 42); d[3 + 4 * 3] ^= 0x03; d[4 + 4 * 3] ^= 0x18;

        /* X/27 */
        d = PN(P_X27_0, "X/27/0 (FLOF links)"); pk_addr(d, 1, 27); d[2] = vbi_ham8(0);
        { static const int l[6][6] = { {0,0,0,0,0,0}, {1,0,15,7+8,15,3}, {0xF,0xF,0,0,0,0}, {0xA,0xA,0,8,0,0xC}, {9,9,9,7,9,3}, {0,0,0,8,0,0} };
          for (int i = 0; i < 6; i++) pk_nib(d, 3 + 6 * i, l[i], 6); }
        d[39] = vbi_ham8(0xF); d[40] = vbi_par8(0x12); d[41] = vbi_par8(0x34);
        d = PN(P_X27_1, "X/27/1"); memcpy(d, PKT[P_X27_0], 42); d[2] = vbi_ham8(1); d[39] = 0x00;
        d = PN(P_X27_4, "X/27/4 (GPOP/POP/GDRCS/DRCS links)"); pk_addr(d, 1, 27); d[2] = vbi_ham8(4);
        { /* t1: function(2) | ... | page units <<7 | tens <<11... as parse_27 reads them: pgno = (((t1>>12)&7)^mag0 ?:8)*256 + ((t1>>11)&0xF0) + ((t1>>7)&0xF) */
          static const unsigned pg[6] = { 0x16A, 0x17B, 0x17C, 0x17A, 0x17F, 0x87E };
          for (int i = 0; i < 6; i++) {
                unsigned p = pg[i], m = ((p >> 8) & 7) ^ 1;
                unsigned t1 = (i & 3) | ((p & 0xF) << 7) | (((p >> 4) & 0xF) << 15) | (m << 12);
                /* parse_27 takes the tens from (t1 >> 11) & 0xF0 = bits 15..18, an 18 bit triplet has bits 0..17:
                 * only tens 0..7 can be linked, hence the object pages 16A / 17A..17E of this alphabet */
                vbi_ham24p(d + 3 + 6 * i, t1 & 0x3FFFF);
                vbi_ham24p(d + 6 + 6 * i, (0xFFFFu << 3) & 0x3FFFF);
          } }

        /* X/28, M/29 */
        for (int v = 0; v < 4; v++) {
                int id = v == 0 ? P_X28_0 : v == 1 ? P_X28_0POP : v == 2 ? P_X28_4 : P_M29_0;
                d = PN(id, v == 0 ? "X/28/0 (LOP)" : v == 1 ? "X/28/0 (function POP)" : v == 2 ? "X/28/4" : "M/29/0");
                pk_enh(d, 1, v == 3 ? 29 : 28, v == 2 ? 4 : 0);
                struct bitw w; memset(&w, 0, sizeof w);
                bw_put(&w, v == 1 ? PAGE_FUNCTION_POP : PAGE_FUNCTION_LOP, 4); bw_put(&w, 0, 3);
                bw_put(&w, v == 2 ? 0x7F : 0x26, 7); bw_put(&w, 0x37, 7);
                bw_put(&w, 1, 1); bw_put(&w, 1, 1); bw_put(&w, 1, 1); bw_put(&w, v == 0 ? 0 : 15, 4);
                for (int i = 0; i < 16; i++) bw_put(&w, 0x123 * (i + 1 + v), 12);
                bw_put(&w, 0x1F, 5); bw_put(&w, 0x1F, 5); bw_put(&w, 1, 1); bw_put(&w, 7, 3);
                bw_store(&w, d);
        }
        for (int v = 0; v < 2; v++) {
                d = PN(v ? P_M29_1 : P_X28_1, v ? "M/29/1" : "X/28/1 (DRCS CLUT)"); pk_enh(d, 1, v ? 29 : 28, 1);
                struct bitw w; memset(&w, 0, sizeof w);
                bw_put(&w, 0x3FFFF, 18);
                for (int i = 0; i < 40; i++) bw_put(&w, (i * 7 + 3) & 31, 5);
                bw_store(&w, d);
        }
        d = PN(P_M29_4, "M/29/4"); memcpy(d, PKT[P_X28_4], 42); pk_addr(d, 1, 29); memcpy(d + 2, PKT[P_X28_4] + 2, 40);
        d = PN(P_X28_3, "X/28/3 (DRCS modes)"); pk_enh(d, 1, 28, 3);
        { struct bitw w; memset(&w, 0, sizeof w);
          bw_put(&w, PAGE_FUNCTION_DRCS, 4); bw_put(&w, 0, 3); bw_put(&w, 0, 11);
          static const int m[48] = { 0,0,1,14,2,14,14,14,3,0,15,4, 1,1,2,2,2,2,3,3,0,0,0,0, 0,1,0,1,0,1,0,1,0,2,14,14, 14,3,3,3,0,0,0,0,0,0,2,1 };
          for (int i = 0; i < 48; i++) bw_put(&w, m[i], 4);
          bw_store(&w, d); }

        /* 8/30 */
        for (int v = 0; v < 2; v++) {
                d = PN(v ? P_830_1B : P_830_1, v ? "8/30/1 (other network)" : "8/30/1"); pk_addr(d, 0, 30);
                d[2] = vbi_ham8(v);                                  /* designation 0 / 1 */
                pk_h16(d, 3, 0x00); pk_h16(d, 5, v ? 0x00 : 0x80); pk_h16(d, 7, v ? 0x40 : 0x00);  /* initial page 100 (v: 3FF -> mag bits) */
                if (v) pk_h16(d, 3, 0xFF);
                d[9] = rev8(cni_8301[v] >> 8); d[10] = rev8(cni_8301[v] & 0xFF);
                d[11] = v ? 0x42 : 0x04;
                unsigned mjd = enc_digits(51544 + v, 5), utc = enc_digits(v ? 235959 : 120000, 6);
                d[12] = (mjd >> 16) & 15; d[13] = mjd >> 8; d[14] = mjd; d[15] = utc >> 16; d[16] = utc >> 8; d[17] = utc;
                pk_text(d, 22, v ? "OTHER NETWORK STATUS" : "C01 STATUS DISPLAY  ");
        }
        for (int v = 0; v < 2; v++) {
                d = PN(v ? P_830_2B : P_830_2, v ? "8/30/2 (other network)" : "8/30/2"); pk_addr(d, 0, 30);
                memset(d + 2, vbi_ham8(0), 40);
                d[2] = vbi_ham8(2 + v);
                pk_h16(d, 3, 0x00); pk_h16(d, 5, 0x80); pk_h16(d, 7, 0x00);
                enc_8302(d, v, v, 1, 2, 1, cni_8302[v], v ? 0xFFFFF : 0x5A5A5, 0x3C);
                pk_text(d, 22, "PDC STATUS          ");
        }
        d = PN(P_IDL_31, "IDL packet 3/31"); pk_addr(d, 3, 31); for (int i = 2; i < 12; i++) d[i] = vbi_ham8(i);

        for (int i = 0; i < NPKT; i++) if (!PKTNAME[i]) harness_die("packet %d not built", i);
}

/* ======================================================================== */
/* cached page enumeration (private view, read only)                        */
/* ======================================================================== */

struct pgkey { int pgno, subno, function; };
#define MAXCP 24

static int cached_pages(struct pgkey *out, int max)
{
        vbi_cache *ca = G.vbi->ca; int n = 0, total = 0;
        for (int h = 0; h < HASH_SIZE; h++) {
                struct node *head = &ca->hash[h], *nd;
                int guard = 0;
                for (nd = head->_succ; nd != head && guard < 4096; nd = nd->_succ, guard++) {
                        cache_page *cp = PARENT(nd, cache_page, hash_node);
                        if (cp->network != G.vbi->cn) continue;
                        total++;
                        if (n < max) { out[n].pgno = cp->pgno; out[n].subno = cp->subno; out[n].function = cp->function; n++; }
                }
        }
        /* canonical order */
        for (int i = 1; i < n; i++) for (int j = i; j > 0; j--) {
                struct pgkey *a = &out[j - 1], *b = &out[j];
                if (a->pgno < b->pgno || (a->pgno == b->pgno && a->subno <= b->subno)) break;
                struct pgkey t = *a; *a = *b; *b = t;
        }
        (void) total;
        return n;
}

/* ======================================================================== */
/* read side helpers                                                        */
/* ======================================================================== */

static void fill_page(vbi_page *pg) { memset(pg, 0xA5, sizeof *pg); }

static void consume_page(vbi_page *pg, int is_cc, int full)
{
        vbi_link ld;
        if (pg->rows < 1 || pg->rows > 25 || pg->columns < 1 || pg->columns > 41) {
                viol("fetched page with rows/columns out of range", "rows=%d columns=%d pgno=%x | %s", pg->rows, pg->columns, pg->pgno, cur_ctx);
                return;
        }
        if (!is_cc) {
                int calls = 0;
                op("vbi_resolve_link");
                for (int row = 0; row < pg->rows; row++)
                        for (int col = 0; col < pg->columns; col++)
                                if (pg->text[row * pg->columns + col].link && calls < (full ? 400 : 12)) {
                                        memset(&ld, 0, sizeof ld);
                                        vbi_resolve_link(pg, col, row, &ld); calls++;
                                        G.sink += ld.type + ld.pgno + bounded_len(ld.url, sizeof ld.url);
                                }
                if (full) {
                        vbi_resolve_link(pg, 0, 0, &ld); vbi_resolve_link(pg, 40, pg->rows - 1, &ld);
                        vbi_resolve_link(pg, 39, pg->rows > 1 ? 1 : 0, &ld);
                }
                op("vbi_resolve_home");
                vbi_resolve_home(pg, &ld); G.sink += ld.pgno;
                if (calls) G.reached_flof++;
        }
        op("vbi_print_page_region");
        int size = pg->rows * (pg->columns + 1) * 4 + 16;
        char *buf = __real_malloc(size);
        int n = vbi_print_page_region(pg, buf, size, "UTF-8", /* table */ full ? 0 : 1, 0, 0, 0, pg->columns, pg->rows);
        if (n < 0 || n > size) viol("vbi_print_page_region returns more than the buffer holds", "n=%d size=%d | %s", n, size, cur_ctx);
        for (int i = 0; i < n && i < size; i += 7) G.sink += buf[i];
        __real_free(buf);
        if (full) {
                char small[40];
                n = vbi_print_page_region(pg, small, sizeof small, "ISO-8859-1", 1, 0, 0, 0, pg->columns, pg->rows);
                if (n < 0 || n > (int) sizeof small) viol("vbi_print_page_region returns more than the buffer holds", "n=%d size=40 | %s", n, cur_ctx);
        }
}

/* Uninitialised automatic variables of the library contain whatever the stack held before.  Painting the
 * stack below the caller with one fixed byte makes such reads deterministic (what ASan's malloc fill does for
 * the heap); '7' is a digit, a letter-free URL character and not a terminator. */
static void __attribute__((noinline)) stack_paint(void)
{
        volatile char a[40000];
        memset((void *) a, '7', sizeof a);
        __asm__ volatile("" : : "r"(a) : "memory");
}

static int fetch_vt(vbi_page *pg, int pgno, int subno, int level, int rows, int nav)
{
        stack_paint();
        fill_page(pg);
        if (getenv("C01_TRACE")) {
                cache_page *cp = _vbi_cache_get_page(G.vbi->ca, G.vbi->cn, pgno, subno, -1);
                if (cp) { fprintf(stderr, "TRACE fetch %x/%x level %d: function %d x26=%x x28=%x national=%d ext.charset=%d,%d size=%u mag charset=%d,%d\n", pgno, subno, level, cp->function, cp->x26_designations, cp->x28_designations,
                        cp->national, cache_page_size(cp) >= sizeof(cache_page) - sizeof(cp->data) + sizeof(cp->data.ext_lop) ? cp->data.ext_lop.ext.charset_code[0] : -99, cache_page_size(cp) >= sizeof(cache_page) - sizeof(cp->data) + sizeof(cp->data.ext_lop) ? cp->data.ext_lop.ext.charset_code[1] : -99, cache_page_size(cp),
                        cache_network_magazine(G.vbi->cn, pgno)->extension.charset_code[0], cache_network_magazine(G.vbi->cn, pgno)->extension.charset_code[1]); cache_page_unref(cp); }
        }
        op("vbi_fetch_vt_page");
        int ok = vbi_fetch_vt_page(G.vbi, pg, pgno, subno, (vbi_wst_level) level, rows, nav);
        if (ok) {
                /* text[] has 1056 cells, a page uses 25 x 41 = 1025: the rest must be untouched (fill pattern) */
                for (int i = 1025; i < 1056; i++) {
                        static const uint8_t fill[8] = { 0xA5, 0xA5, 0xA5, 0xA5, 0xA5, 0xA5, 0xA5, 0xA5 };
                        if (memcmp(&pg->text[i], fill, 8)) { viol("fetched vbi_page: text[] written beyond row 25", "text[%d] | page %x rows %d level %d | %s", i, pgno, rows, level, cur_ctx); break; }
                }
                G.reached_lop_fetch++;
                if (rows >= 25 && nav && pgno >= 0x100 && pgno <= 0x8FF && !vbi_is_bcd(pgno)) G.reached_hex_nav++;
                if (pgno == 0x900) G.reached_top_index++;
                for (int i = 16; i < 32; i++) if (pg->drcs[i]) { G.reached_drcs++; break; }
        }
        return ok;
}

static void unref(vbi_page *pg) { op("vbi_unref_page"); vbi_unref_page(pg); }

static const char *EXPORT_KW[6] = { "text", "html", "vtx", "ppm", "xpm", "png" };

static void export_page(vbi_page *pg, int module, int variant)
{
        char *err = NULL;
        op("vbi_export_new");
        vbi_export *e = vbi_export_new(EXPORT_KW[module], &err);
        if (!e) { if (err) free(err); mc_count("export_new_failed", 1); return; }
        if (variant) {
                op("vbi_export_option_set");
                if (module == 0) { vbi_export_option_set(e, "format", variant == 1 ? 2 : 0); vbi_export_option_set(e, "control", 2); vbi_export_option_set(e, "gfx_chr", "0x7e"); }
                else if (module == 1) { vbi_export_option_set(e, "color", FALSE); vbi_export_option_set(e, "header", FALSE); }
                else if (module >= 3) { vbi_export_option_set(e, "aspect", FALSE); vbi_export_option_set(e, "transparency", FALSE); vbi_export_option_set(e, "titled", FALSE); }
        }
        char key[40]; snprintf(key, sizeof key, "vbi_export_alloc(%s)", EXPORT_KW[module]);
        op(key);
        void *buf = NULL; size_t sz = 0;
        if (vbi_export_alloc(e, &buf, &sz, pg)) {
                for (size_t i = 0; i < sz; i += 61) G.sink += ((uint8_t *) buf)[i];
                free(buf);
                mc_count("exports_ok", 1);
        } else mc_count("exports_refused", 1);
        /* a too small memory target */
        if (module <= 1) {
                snprintf(key, sizeof key, "vbi_export_mem(%s)", EXPORT_KW[module]); op(key);
                char *small = __real_malloc(100);
                ssize_t r = vbi_export_mem(e, small, 100, pg);
                G.sink += (uint64_t) r;
                __real_free(small);
        }
        op("vbi_export_delete");
        vbi_export_delete(e);
}

static void draw_page(vbi_page *pg, int is_cc, int variant)
{
        int cw = is_cc ? 16 : 12, chh = is_cc ? 26 : 10;
        if (pg->rows < 1 || pg->rows > 25 || pg->columns < 1 || pg->columns > 41) return;
        if (variant == 0 || is_cc) {
                size_t sz = (size_t) pg->columns * cw * 4 * pg->rows * chh;
                uint8_t *canvas = __real_malloc(sz);
                if (is_cc) { op("vbi_draw_cc_page_region"); vbi_draw_cc_page_region(pg, VBI_PIXFMT_RGBA32_LE, canvas, -1, 0, 0, pg->columns, pg->rows); }
                else { op("vbi_draw_vt_page_region"); vbi_draw_vt_page_region(pg, VBI_PIXFMT_RGBA32_LE, canvas, -1, 0, 0, pg->columns, pg->rows, 1, 1); }
                for (size_t i = 0; i < sz; i += 4099) G.sink += canvas[i];
                __real_free(canvas);
        } else if (variant == 1) {
                size_t sz = (size_t) pg->columns * cw * pg->rows * chh;
                uint8_t *canvas = __real_malloc(sz);
                op("vbi_draw_vt_page_region");
                vbi_draw_vt_page_region(pg, VBI_PIXFMT_PAL8, canvas, pg->columns * cw, 0, 0, pg->columns, pg->rows, 0, 0);
                __real_free(canvas);
        } else {
                /* the last column / last row only, with the minimal stride */
                int w = 1, h = 1;
                size_t sz = (size_t) w * cw * 4 * h * chh;
                uint8_t *canvas = __real_malloc(sz);
                op("vbi_draw_vt_page_region");
                vbi_draw_vt_page_region(pg, VBI_PIXFMT_RGBA32_LE, canvas, w * cw * 4, pg->columns - 1, pg->rows - 1, w, h, 1, 0);
                __real_free(canvas);
        }
}

static int search_progress(vbi_page *pg)
{
        G.sink += pg->pgno;
        if (++G.search_visits > G.search_bound) { G.search_cuts++; return 0; }
        return 1;
}

static void do_search(int pat, int scheme)
{
        static const char *PATS[] = { "HELLO", "[a-z]+[0-9]", ".*", "(", "\\p1,2+\\x20?[:gfx:]*", "200" };
        static const int   RE[]   = { 0, 1, 1, 1, 1, 0 }, CF[] = { 1, 0, 0, 0, 1, 0 };
        uint16_t ucs[48]; int n = 0;
        for (const char *s = PATS[pat]; *s && n < 47; s++) ucs[n++] = (unsigned char) *s;
        ucs[n] = 0;
        struct pgkey pk[MAXCP]; int np = cached_pages(pk, MAXCP);
        int start = 0x100, sub = VBI_ANY_SUBNO;
        if (scheme >= 2 && np) { start = pk[np / 2].pgno; sub = pk[np / 2].subno; }       /* a cached page: terminates */
        if ((start & 0xFF) == 0xFF) start = 0x100;
        G.search_visits = 0; G.search_bound = 2 * np + 2;
        stack_paint();
        op("vbi_search_new");
        vbi_search *s = vbi_search_new(G.vbi, start, sub, ucs, CF[pat], RE[pat], search_progress);
        if (!s) { mc_count("search_new_refused", 1); return; }
        static const int DIRS[4][4] = { { 1, 1, 1, 1 }, { -1, -1, -1, -1 }, { 1, -1, 1, -1 }, { -1, 1, 1, -1 } };
        for (int k = 0; k < 4; k++) {
                vbi_page *pg = NULL;
                G.search_visits = 0;
                op("vbi_search_next");
                int r = vbi_search_next(s, &pg, DIRS[scheme & 3][k]);
                mc_count("search_next_calls", 1);
                if (r == VBI_SEARCH_SUCCESS && pg) { G.sink += pg->pgno; mc_count("search_hits", 1); }
                if (r == VBI_SEARCH_CANCELED) break;      /* visit bound: C17's territory */
        }
        op("vbi_search_delete");
        vbi_search_delete(s);
}

/* ======================================================================== */
/* letters                                                                  */
/* ======================================================================== */

enum { LK_TTX, LK_CC, LK_CCRAW, LK_CCTEXT, LK_ITV, LK_XDS, LK_XDSEND, LK_LINE, LK_FRAME, LK_TIME, LK_CTL, LK_READ };
typedef struct { char name[64]; int kind, a, b, c; const char *s; } letter_t;
static letter_t LT[320];
static int NLT, LT_TTX0, LT_CC0, LT_CC1, LT_MISC0, LT_MISC1, LT_READ0, LT_READ1;

static int add_letter(int kind, int a, int b, int c, const char *s, const char *fmt, ...)
{
        if (NLT >= 320) harness_die("more than 320 letters");
        letter_t *l = &LT[NLT];
        va_list ap; va_start(ap, fmt); vsnprintf(l->name, sizeof l->name, fmt, ap); va_end(ap);
        l->kind = kind; l->a = a; l->b = b; l->c = c; l->s = s;
        return NLT++;
}
static int letter_by_name(const char *name)
{
        for (int i = 0; i < NLT; i++) if (!strcmp(LT[i].name, name)) return i;
        harness_die("no letter named '%s'", name);
}
#define TTX(p) (LT_TTX0 + (p))

enum { CTL_CHSW, CTL_H_NONE, CTL_H_TTX, CTL_H_CC, CTL_H_IGNORE, CTL_H_ALL, CTL_H_LEGACY, CTL_BRIGHT, CTL_REGION, CTL_LEVEL };
enum { RD_FETCH_ALL, RD_FETCH_FIX, RD_EXPORT, RD_DRAW, RD_HOLD, RD_HELD_USE, RD_UNREF, RD_CLASSIFY, RD_CCFETCH, RD_SEARCH };
enum { LN_VPS, LN_WSS, LN_CPR, LN_UNKNOWN };

/* complete XDS packets: class, type, payload */
static const struct { int cls, type, len; const char *pay; const char *name; } XDSP[] = {
        { 0, 0x01, 4,  "\x55\x4A\x4F\x56", "current PIN" },
        { 0, 0x02, 6,  "\x7B\x41\x5E\x40\x7B\x40", "current length+elapsed" },
        { 0, 0x03, 32, "HELLO WORLD PROGRAM TITLE 012345", "current title 32" },
        { 0, 0x03, 5,  "TITLE", "current title 5" },
        { 0, 0x04, 32, "\x20\x21\x22\x27\x3F\x40\x5F\x60\x7E\x7F\x20\x21\x22\x27\x3F\x40\x5F\x60\x7E\x7F\x20\x21\x22\x27\x3F\x40\x5F\x60\x7E\x7F\x7F\x7F", "current program type 32" },
        { 0, 0x05, 2,  "\x7F\x7F", "current rating" },
        { 0, 0x06, 2,  "\x7F\x47", "current audio" },
        { 0, 0x07, 8,  "\x40\x47\x7F\x78\x41\x42\x43\x44", "current caption services 8" },
        { 0, 0x08, 2,  "\x5F\x40", "current CGMS" },
        { 0, 0x09, 4,  "\x7F\x40\x7F\x7F", "current aspect" },
        { 0, 0x10, 32, "DESCRIPTION ROW ONE   0123456789", "current description 1" },
        { 0, 0x17, 31, "DESCRIPTION ROW EIGHT 012345678", "current description 8 (31)" },
        { 1, 0x03, 32, "FUTURE PROGRAM TITLE xxxxxxxxxxx", "future title" },
        { 1, 0x01, 4,  "\x7F\x7F\x7F\x7F", "future PIN invalid" },
        { 2, 0x01, 32, "NETWORK NAME 0123456789 ABCDEFGH", "channel network name" },
        { 2, 0x02, 6,  "WXYZ42", "channel call letters" },
        { 2, 0x03, 2,  "\x7F\x5F", "channel tape delay" },
        { 3, 0x01, 6,  "\x7B\x57\x5F\x4C\x47\x7F", "misc time of day" },
        { 3, 0x04, 1,  "\x7F", "misc time zone" },
        { 3, 0x03, 3,  "\x41\x42\x43", "misc supplemental" },
};
#define NXDSP ((int)(sizeof XDSP / sizeof *XDSP))

static const char *ITVS[] = {
        "<http://a.b>[n:x][t:p]",
        "<http://a.b/c>[time:20380101]",
        "<http://a.b>[auto:true][view:t][tve:1][script:s()][expires:20380101T1200]",
        NULL /* long */, "x<y<z[", "<lid://x>[type:tve]", "<http://a.b/*>[n:%41%00]",
};
#define NITVS 7
static char itv_long[400], itv_cks[80], itv_256[260];

static void build_letters(void)
{
        for (int i = 0; i < 360; i++) itv_long[i] = i == 0 ? '<' : (i % 50 == 49 ? '>' : 'a' + i % 26);
        itv_long[360] = 0;
        for (int i = 0; i < 256; i++) itv_256[i] = 'a' + i % 26;
        itv_256[256] = 0;
        trigger_with_checksum(itv_cks, sizeof itv_cks, "<http://c.d>[n:k][e:20380101]");

        LT_TTX0 = NLT;
        for (int p = 0; p < NPKT; p++) add_letter(LK_TTX, p, 0, 0, NULL, "%s", PKTNAME[p]);

        LT_CC0 = NLT;
        /* field 1, channel 1 and 2: every branch of caption_command() */
        static const struct { int c1, c2; const char *n; } CMD[] = {
                { 0x14, 0x20, "RCL" }, { 0x14, 0x21, "BS" }, { 0x14, 0x24, "DER" }, { 0x14, 0x25, "RU2" }, { 0x14, 0x27, "RU4" },
                { 0x14, 0x28, "FON" }, { 0x14, 0x29, "RDC" }, { 0x14, 0x2A, "TR" }, { 0x14, 0x2B, "RTD" }, { 0x14, 0x2C, "EDM" },
                { 0x14, 0x2D, "CR" }, { 0x14, 0x2E, "ENM" }, { 0x14, 0x2F, "EOC" }, { 0x15, 0x2C, "EDM(c1=15)" },
                { 0x1C, 0x20, "RCL ch2" }, { 0x1C, 0x26, "RU3 ch2" }, { 0x1C, 0x2B, "RTD ch2 (T2)" }, { 0x1C, 0x2D, "CR ch2" }, { 0x1C, 0x2F, "EOC ch2" },
                { 0x17, 0x21, "TO1" }, { 0x17, 0x23, "TO3" }, { 0x17, 0x2D, "opt attr transparent" }, { 0x17, 0x2F, "opt attr black underline" },
                { 0x10, 0x40, "PAC row 11" }, { 0x10, 0x60, "PAC invalid row" }, { 0x11, 0x40, "PAC row 1" }, { 0x14, 0x7F, "PAC row 15 indent 28 u" },
                { 0x13, 0x5E, "PAC row 12 indent 28" }, { 0x17, 0x4E, "PAC row 9 italic" }, { 0x1F, 0x70, "PAC ch2 row 10 indent" },
                { 0x11, 0x20, "midrow white" }, { 0x11, 0x2F, "midrow italic u" }, { 0x11, 0x30, "special char" }, { 0x11, 0x39, "transparent space" },
                { 0x10, 0x2F, "background attr" }, { 0x12, 0x20, "extended char" },
        };
        for (unsigned i = 0; i < sizeof CMD / sizeof *CMD; i++) add_letter(LK_CC, 21, CMD[i].c1, CMD[i].c2, NULL, "F1 %s", CMD[i].n);
        add_letter(LK_CC, 21, 'A', 'B', NULL, "F1 text AB");
        add_letter(LK_CC, 21, ' ', ' ', NULL, "F1 text spaces");
        add_letter(LK_CC, 21, 'C', 0, NULL, "F1 text C+NUL");
        add_letter(LK_CC, 21, '<', 0x7F, NULL, "F1 text <,7F");
        add_letter(LK_CCRAW, 21, 0x80, 0x80, NULL, "F1 NUL pair");
        add_letter(LK_CCRAW, 21, 0x41, 0x42, NULL, "F1 bad parity pair");
        add_letter(LK_CCRAW, 21, 0x94, 0x00, NULL, "F1 command, 2nd byte bad parity");
        add_letter(LK_CC, 21, 0x05, 0x41, NULL, "F1 c1=05 (XDS code on field 1)");
        add_letter(LK_CCTEXT, 21, 0, 0, "ABCDEFGHIJKLMNOPQRSTUVWXYZabcdef 012", "F1 text 36 chars");
        for (int i = 0; i < NITVS; i++) add_letter(LK_ITV, i, 0, 0, NULL, "ITV string %d in T2 + CR", i);
        add_letter(LK_ITV, 100, 0, 0, NULL, "ITV string with checksum + CR");
        add_letter(LK_ITV, 101, 0, 0, NULL, "ITV 256 characters in T2, no CR");
        /* field 2 */
        add_letter(LK_CC, 284, 0x14, 0x20, NULL, "F2 RCL");
        add_letter(LK_CC, 284, 0x14, 0x27, NULL, "F2 RU4");
        add_letter(LK_CC, 284, 0x14, 0x2B, NULL, "F2 RTD");
        add_letter(LK_CC, 284, 0x14, 0x2D, NULL, "F2 CR");
        add_letter(LK_CC, 284, 0x14, 0x2F, NULL, "F2 EOC");
        add_letter(LK_CC, 284, 0x14, 0x7E, NULL, "F2 PAC row 15 indent");
        add_letter(LK_CC, 284, 'a', 'b', NULL, "F2 text ab");
        add_letter(LK_CCRAW, 284, 0x80, 0x80, NULL, "F2 NUL pair");
        add_letter(LK_CCRAW, 284, 0x00, 0x41, NULL, "F2 bad parity pair");
        add_letter(LK_CC, 335, 0x14, 0x25, NULL, "line 335 RU2");
        add_letter(LK_CC, 22, 'P', 'L', NULL, "line 22 text");
        /* XDS primitives */
        add_letter(LK_CC, 284, 0x01, 0x03, NULL, "XDS start current/title");
        add_letter(LK_CC, 284, 0x02, 0x03, NULL, "XDS continue current/title");
        add_letter(LK_CC, 284, 0x01, 0x17, NULL, "XDS start current/0x17");
        add_letter(LK_CC, 284, 0x01, 0x18, NULL, "XDS start type 0x18 (out of range)");
        add_letter(LK_CC, 284, 0x07, 0x40, NULL, "XDS start misc/0x40 (out of range)");
        add_letter(LK_CC, 284, 0x05, 0x01, NULL, "XDS start channel/name");
        add_letter(LK_CC, 284, 0x09, 0x01, NULL, "XDS start class 4 (out of range)");
        add_letter(LK_CC, 284, 0x0D, 0x02, NULL, "XDS start class 6 (out of range)");
        add_letter(LK_CC, 284, 0x0E, 0x7F, NULL, "XDS continue class 6 type 7F");
        add_letter(LK_CC, 284, 'X', 'Y', NULL, "XDS/F2 payload XY");
        add_letter(LK_CC, 284, 'Z', 0, NULL, "XDS/F2 payload Z+NUL");
        add_letter(LK_CCTEXT, 284, 0, 0, "0123456789abcdefghijklmnopqrst", "XDS/F2 payload 30 chars");
        add_letter(LK_XDSEND, 1, 0, 0, NULL, "XDS end (checksum good)");
        add_letter(LK_XDSEND, 0, 0, 0, NULL, "XDS end (checksum bad)");
        add_letter(LK_CCRAW, 284, 0x01, 0x83, NULL, "XDS start with parity error");
        for (int i = 0; i < NXDSP; i++) add_letter(LK_XDS, i, 0, 0, NULL, "XDS packet: %s", XDSP[i].name);
        add_letter(LK_XDS, 2, 33, 0, NULL, "XDS packet: current title 33 bytes");
        add_letter(LK_XDS, 2, 34, 0, NULL, "XDS packet: current title 15 pairs + (c,0) + pair");
        LT_CC1 = NLT;

        LT_MISC0 = NLT;
        add_letter(LK_LINE, LN_VPS, 0, 0, NULL, "VPS network A");
        add_letter(LK_LINE, LN_VPS, 1, 0, NULL, "VPS network B");
        add_letter(LK_LINE, LN_VPS, 2, 0, NULL, "VPS all zero");
        add_letter(LK_LINE, LN_VPS, 3, 0, NULL, "VPS all ones");
        add_letter(LK_LINE, LN_WSS, 0x08, 0x00, NULL, "WSS 4:3");
        add_letter(LK_LINE, LN_WSS, 0x07, 0x06, NULL, "WSS 16:9 anamorphic");
        add_letter(LK_LINE, LN_WSS, 0x03, 0x00, NULL, "WSS bad parity");
        add_letter(LK_LINE, LN_CPR, 0x00, 0, NULL, "CPR-1204 4:3");
        add_letter(LK_LINE, LN_CPR, 0xC0, 0, NULL, "CPR-1204 16:9 letterbox");
        add_letter(LK_LINE, LN_UNKNOWN, 0, 0, NULL, "line with id 0");
        add_letter(LK_LINE, LN_UNKNOWN, 1, 0, NULL, "line with id TELETEXT_B|CAPTION_525|VPS");
        add_letter(LK_LINE, LN_UNKNOWN, 2, 0, NULL, "line with id TELETEXT_A");
        add_letter(LK_FRAME, 0, 0, 0, NULL, "frame: H100E,row1,cc AB,VPS A,WSS");
        add_letter(LK_FRAME, 1, 0, 0, NULL, "frame: row1 mag1, H200S, row1 mag2, H1FF, H8FF");
        add_letter(LK_TIME, 0, 0, 0, NULL, "empty frame");
        add_letter(LK_TIME, 1, 0, 0, NULL, "empty frame dt=0");
        add_letter(LK_TIME, 2, 0, 0, NULL, "empty frame dt=-1s");
        add_letter(LK_TIME, 3, 0, 0, NULL, "empty frame dt=+10s");
        add_letter(LK_TIME, 4, 0, 0, NULL, "40 regular empty frames");
        add_letter(LK_TIME, 5, 0, 0, NULL, "300 regular empty frames");
        add_letter(LK_CTL, CTL_CHSW, 0, 0, NULL, "vbi_channel_switched");
        add_letter(LK_CTL, CTL_H_NONE, 0, 0, NULL, "unregister all handlers");
        add_letter(LK_CTL, CTL_H_TTX, 0, 0, NULL, "handler for TTX_PAGE only");
        add_letter(LK_CTL, CTL_H_CC, 0, 0, NULL, "handler for CAPTION only");
        add_letter(LK_CTL, CTL_H_IGNORE, 0, 0, NULL, "second handler (all events)");
        add_letter(LK_CTL, CTL_H_ALL, 0, 0, NULL, "handler for all events");
        add_letter(LK_CTL, CTL_H_LEGACY, 0, 0, NULL, "legacy handler_add / remove");
        add_letter(LK_CTL, CTL_BRIGHT, 0, 0, NULL, "brightness 0 contrast -128");
        add_letter(LK_CTL, CTL_BRIGHT, 1, 0, NULL, "brightness 255 contrast 127");
        add_letter(LK_CTL, CTL_REGION, 48, 0, NULL, "default region 48");
        add_letter(LK_CTL, CTL_REGION, 87, 0, NULL, "default region 87");
        add_letter(LK_CTL, CTL_LEVEL, 0, 0, NULL, "teletext level 1");
        add_letter(LK_CTL, CTL_LEVEL, 3, 0, NULL, "teletext level 3.5");
        LT_MISC1 = NLT;

        LT_READ0 = NLT;
        static const char *LV[4] = { "1", "1.5", "2.5", "3.5" };
        for (int lv = 0; lv < 4; lv++) add_letter(LK_READ, RD_FETCH_ALL, lv, 0, NULL, "fetch cached pages L%s 25 rows nav", LV[lv]);
        add_letter(LK_READ, RD_FETCH_ALL, 3, 1, NULL, "fetch cached pages L3.5 1 row");
        add_letter(LK_READ, RD_FETCH_ALL, 2, 2, NULL, "fetch cached pages L2.5 2 rows nav");
        add_letter(LK_READ, RD_FETCH_ALL, 1, 3, NULL, "fetch cached pages L1.5 24 rows");
        add_letter(LK_READ, RD_FETCH_FIX, 0, 0, NULL, "fetch 100,900,FF,8FF,0,-1,... L3.5");
        for (int m = 0; m < 6; m++) add_letter(LK_READ, RD_EXPORT, m, 0, NULL, "export %s of a cached page", EXPORT_KW[m]);
        add_letter(LK_READ, RD_EXPORT, 0, 1, NULL, "export text (options) of cc pages");
        add_letter(LK_READ, RD_EXPORT, 3, 1, NULL, "export ppm of cc pages");
        add_letter(LK_READ, RD_EXPORT, 5, 2, NULL, "export png (options) of a cached page");
        add_letter(LK_READ, RD_EXPORT, 1, 2, NULL, "export html (options) of a cached page");
        add_letter(LK_READ, RD_DRAW, 0, 0, NULL, "draw vt page RGBA");
        add_letter(LK_READ, RD_DRAW, 1, 0, NULL, "draw vt page PAL8");
        add_letter(LK_READ, RD_DRAW, 2, 0, NULL, "draw vt last cell");
        add_letter(LK_READ, RD_DRAW, 0, 1, NULL, "draw cc pages");
        add_letter(LK_READ, RD_HOLD, 2, 0, NULL, "hold page L2.5");
        add_letter(LK_READ, RD_HOLD, 3, 0, NULL, "hold page L3.5");
        add_letter(LK_READ, RD_HOLD, 0, 1, NULL, "hold cc page 1");
        add_letter(LK_READ, RD_HELD_USE, 0, 0, NULL, "held page: links, text, draw");
        add_letter(LK_READ, RD_HELD_USE, 1, 0, NULL, "held page: export png+html");
        add_letter(LK_READ, RD_UNREF, 0, 0, NULL, "unref held page");
        add_letter(LK_READ, RD_CLASSIFY, 0, 0, NULL, "classify/title/hi_subno/is_cached");
        add_letter(LK_READ, RD_CCFETCH, 0, 0, NULL, "fetch cc pages 1..8, 0, 9, -1");
        for (int p = 0; p < 6; p++) add_letter(LK_READ, RD_SEARCH, p, p & 3, NULL, "search pattern %d scheme %d", p, p & 3);
        add_letter(LK_READ, RD_SEARCH, 0, 2, NULL, "search pattern 0 from cached page fwd/rev");
        add_letter(LK_READ, RD_SEARCH, 2, 3, NULL, "search pattern 2 from cached page rev/fwd");
        LT_READ1 = NLT;
}

static void cc_string(int line, const char *s)
{
        size_t n = strlen(s);
        for (size_t i = 0; i < n; i += 2) feed_cc(line, (unsigned char) s[i], i + 1 < n ? (unsigned char) s[i + 1] : 0);
}

static void set_handlers(int mode)
{
        op("vbi_event_handler_unregister");
        vbi_event_handler_unregister(G.vbi, ev_consume, NULL);
        vbi_event_handler_unregister(G.vbi, ev_ignore, &G);
        op("vbi_event_handler_register");
        switch (mode) {
        case CTL_H_NONE: break;
        case CTL_H_TTX: vbi_event_handler_register(G.vbi, VBI_EVENT_TTX_PAGE, ev_consume, NULL); break;
        case CTL_H_CC: vbi_event_handler_register(G.vbi, VBI_EVENT_CAPTION, ev_consume, NULL); break;
        case CTL_H_IGNORE: vbi_event_handler_register(G.vbi, EV_ALL, ev_consume, NULL); vbi_event_handler_register(G.vbi, -1, ev_ignore, &G); break;
        case CTL_H_ALL: vbi_event_handler_register(G.vbi, EV_ALL, ev_consume, NULL); break;
        case CTL_H_LEGACY:
                vbi_event_handler_add(G.vbi, EV_ALL, ev_ignore, NULL);
                vbi_event_handler_add(G.vbi, VBI_EVENT_TTX_PAGE | VBI_EVENT_TRIGGER, ev_consume, NULL);
                vbi_event_handler_remove(G.vbi, ev_ignore);
                break;
        }
        G.hmode = mode;
}

/* A vbi_page the application still holds (vbi_unref_page() not called yet) must stay usable.  It carries raw
 * pointers into cache objects: drcs[] into DRCS pages, drcs_clut into the page's X/28 extension or the
 * network's magazine.  Asks ASan whether they address freed memory; the key names the pointer and what
 * happened to the cache in between, not the place where a renderer would crash. */
static int held_page_dangles(void)
{
#ifdef HAVE_ASAN
        const vbi_page *pg = G.held; int bad = 0;
        /* what freed it: if the held page itself is gone the cache was flushed (channel switch, network change),
         * otherwise a newer version replaced the page the pointer leads into */
        const char *cause = vbi_is_cached(G.vbi, pg->pgno, pg->subno) ? "the page it points into was received again" : "the cache was flushed (channel switch)";
        if (G.held_cc) return 0;
        for (int i = 0; i < 32 && !bad; i++)
                if (pg->drcs[i] && (__asan_address_is_poisoned(pg->drcs[i]) || __asan_address_is_poisoned(pg->drcs[i] + 59))) {
                        char key[200]; snprintf(key, sizeof key, "held page: vbi_page.drcs[] points into freed memory after %s", cause);
                        viol(key, "drcs[%d] of page %x/%x | %s", i, pg->pgno, pg->subno, cur_ctx); bad = 1;
                }
        if (pg->drcs_clut && (__asan_address_is_poisoned(pg->drcs_clut) || __asan_address_is_poisoned(pg->drcs_clut + 41))) {
                char key[200]; snprintf(key, sizeof key, "held page: vbi_page.drcs_clut points into freed memory after %s", cause);
                viol(key, "page %x/%x | %s", pg->pgno, pg->subno, cur_ctx); bad = 1;
        }
        if (bad) mc_count("held_page_dangling_pointer_uses_skipped", 1);
        return bad;
#else
        return 0;
#endif
}

static void do_read(const letter_t *l)
{
        vbi_page *pg = __real_malloc(sizeof *pg);
        struct pgkey pk[MAXCP]; int np = cached_pages(pk, MAXCP);
        switch (l->a) {
        case RD_FETCH_ALL: {
                static const int ROWS_[4] = { 25, 1, 2, 24 }, NAV_[4] = { 1, 0, 1, 0 };
                for (int i = 0; i < np; i++) {
                        if (fetch_vt(pg, pk[i].pgno, pk[i].subno, l->b, ROWS_[l->c], NAV_[l->c])) { consume_page(pg, 0, 1); unref(pg); }
                        if (l->c == 0 && fetch_vt(pg, pk[i].pgno, VBI_ANY_SUBNO, l->b, 25, 1)) { consume_page(pg, 0, 0); unref(pg); }
                }
                break; }
        case RD_FETCH_FIX: {
                static const int P[][2] = { { 0x100, VBI_ANY_SUBNO }, { 0x100, 1 }, { 0x900, VBI_ANY_SUBNO }, { 0x900, 5 }, { 0x900, 0x3F7E }, { 0x1FF, 0 }, { 0xFF, 0 },
                                            { 0x8FF, VBI_ANY_SUBNO }, { 0x899, 0x7F }, { 0, 0 }, { -1, -1 }, { 0x7FFFFFFF, 0x7FFFFFFF }, { 0x17B, 0 }, { 0x1F0, VBI_ANY_SUBNO }, { 0x1E7, 0 } };
                for (unsigned i = 0; i < sizeof P / sizeof *P; i++)
                        if (fetch_vt(pg, P[i][0], P[i][1], 3, 25, 1)) { consume_page(pg, 0, 1); unref(pg); }
                break; }
        case RD_EXPORT:
                if (l->c == 1) {
                        for (int p = 1; p <= 8; p += 3) { fill_page(pg); op("vbi_fetch_cc_page"); if (vbi_fetch_cc_page(G.vbi, pg, p, TRUE)) { export_page(pg, l->b, 1); unref(pg); } }
                } else {
                        int done = 0;
                        for (int i = 0; i < np && done < 2; i++)
                                if (fetch_vt(pg, pk[i].pgno, pk[i].subno, 2 + (i & 1), 25, 1)) { export_page(pg, l->b, l->c); unref(pg); done++; }
                }
                break;
        case RD_DRAW:
                if (l->c == 1) {
                        for (int p = 1; p <= 8; p += 4) { fill_page(pg); op("vbi_fetch_cc_page"); if (vbi_fetch_cc_page(G.vbi, pg, p, TRUE)) { draw_page(pg, 1, 0); unref(pg); } }
                } else {
                        int done = 0;
                        for (int i = 0; i < np && done < 2; i++)
                                if (fetch_vt(pg, pk[i].pgno, pk[i].subno, 3, i & 1 ? 1 : 25, 1)) { draw_page(pg, 0, l->b); unref(pg); done++; }
                }
                break;
        case RD_HOLD:
                drop_held();
                if (l->c == 1) {
                        fill_page(pg); op("vbi_fetch_cc_page");
                        if (vbi_fetch_cc_page(G.vbi, pg, 1, TRUE)) { G.held = pg; G.held_cc = 1; G.held_cn = G.vbi->cn; pg = NULL; }
                } else for (int i = 0; i < np; i++)
                        if (fetch_vt(pg, pk[i].pgno, pk[i].subno, l->b, 25, 1)) { G.held = pg; G.held_cc = 0; G.held_cn = G.vbi->cn; pg = NULL; break; }
                break;
        case RD_HELD_USE:
                if (G.held && held_page_dangles()) break;
                if (G.held) {
                        op_prefix = "held page after later input: ";
                        if (l->b == 0) { consume_page(G.held, G.held_cc, 1); draw_page(G.held, G.held_cc, 0); }
                        else { export_page(G.held, 5, 0); export_page(G.held, 1, 0); }
                        op_prefix = "";
                }
                break;
        case RD_UNREF: drop_held(); break;
        case RD_CLASSIFY: {
                static const int FIX[] = { 1, 2, 5, 8, 0, 9, -1, 0xFF, 0x100, 0x101, 0x17A, 0x199, 0x1FF, 0x8FF, 0x900, 0x7FFFFFFF };
                char title[64];
                for (unsigned i = 0; i < sizeof FIX / sizeof *FIX + np; i++) {
                        int pgno = i < sizeof FIX / sizeof *FIX ? FIX[i] : pk[i - sizeof FIX / sizeof *FIX].pgno;
                        vbi_subno sub = 0; char *lang = NULL;
                        op("vbi_classify_page");
                        G.sink += vbi_classify_page(G.vbi, pgno, &sub, &lang) + sub;
                        if (lang) G.sink += strlen(lang);
                        G.sink += vbi_classify_page(G.vbi, pgno, NULL, NULL);
                        op("vbi_page_title");
                        memset(title, 0x5A, sizeof title);
                        if (vbi_page_title(G.vbi, pgno, 0, title)) { G.reached_title++; G.sink += strnlen(title, 41); if (strnlen(title, 64) > 40) viol("vbi_page_title writes more than 41 bytes", "pgno=%x | %s", pgno, cur_ctx); }
                        if (pgno >= 0x100 && pgno <= 0x8FF) {
                                op("vbi_cache_hi_subno"); G.sink += vbi_cache_hi_subno(G.vbi, pgno);
                                op("vbi_is_cached"); G.sink += vbi_is_cached(G.vbi, pgno, VBI_ANY_SUBNO) + vbi_is_cached(G.vbi, pgno, 1);
                        }
                }
                break; }
        case RD_CCFETCH: {
                static const int P[] = { 1, 2, 3, 4, 5, 6, 7, 8, 0, 9, -1 };
                for (unsigned i = 0; i < sizeof P / sizeof *P; i++) {
                        fill_page(pg); op("vbi_fetch_cc_page");
                        if (vbi_fetch_cc_page(G.vbi, pg, P[i], i & 1)) { consume_page(pg, 1, 0); unref(pg); }
                }
                break; }
        case RD_SEARCH: do_search(l->b, l->c); break;
        }
        if (pg) __real_free(pg);
}

static void do_letter(int id)
{
        if (id < 0 || id >= NLT) harness_die("letter %d out of range", id);
        const letter_t *l = &LT[id];
        vbi_sliced s[8]; memset(s, 0, sizeof s);
        switch (l->kind) {
        case LK_TTX: feed_ttx(PKT[l->a]); break;
        case LK_CC: feed_cc(l->a, l->b, l->c); break;
        case LK_CCRAW: feed_cc_raw(l->a, l->b, l->c); break;
        case LK_CCTEXT: cc_string(l->a, l->s); break;
        case LK_ITV: {
                const char *str = l->a == 100 ? itv_cks : l->a == 101 ? itv_256 : (ITVS[l->a] ? ITVS[l->a] : itv_long);
                feed_cc(21, 0x1C, 0x2B);
                cc_string(21, str);
                if (l->a != 101) feed_cc(21, 0x1C, 0x2D);
                G.reached_itv++;
                break; }
        case LK_XDS: {
                int len = l->b ? l->b : XDSP[l->a].len, sum;
                const char *pay = XDSP[l->a].pay; int plen = XDSP[l->a].len;
                int c1 = XDSP[l->a].cls * 2 + 1, c2 = XDSP[l->a].type;
                feed_cc(284, c1, c2); sum = c1 + c2;
                for (int i = 0; i < len; i += 2) {
                        int a = (unsigned char) pay[i % plen], b = i + 1 < len ? (unsigned char) pay[(i + 1) % plen] : 0;
                        if (l->b == 34 && i == 30) { b = 0; i--; }       /* 15 full pairs, (c,0), one more pair: 33 bytes through the `filler' path */
                        feed_cc(284, a, b); sum += a + b;
                }
                feed_cc(284, 0x0F, (-(sum + 0x0F)) & 0x7F);
                break; }
        case LK_XDSEND: {
                xds_sub_packet *sp = G.vbi->cc.curr_sp;
                int sum = sp ? sp->chksum : 0;
                feed_cc(284, 0x0F, l->a ? ((-(sum + 0x0F)) & 0x7F) : ((-(sum + 0x0F) + 1) & 0x7F));
                break; }
        case LK_LINE:
                switch (l->a) {
                case LN_VPS:
                        s[0].id = VBI_SLICED_VPS; s[0].line = 16;
                        if (l->b < 2) vbi_encode_vps_cni(s[0].data, cni_vps[l->b]);
                        else memset(s[0].data, l->b == 2 ? 0 : 0xFF, 13);
                        break;
                case LN_WSS: s[0].id = VBI_SLICED_WSS_625; s[0].line = 23; s[0].data[0] = l->b; s[0].data[1] = l->c; break;
                case LN_CPR: s[0].id = VBI_SLICED_WSS_CPR1204; s[0].line = 20; s[0].data[0] = l->b; break;
                case LN_UNKNOWN:
                        s[0].id = l->b == 0 ? 0 : l->b == 1 ? (VBI_SLICED_TELETEXT_B | VBI_SLICED_CAPTION_525 | VBI_SLICED_VPS) : VBI_SLICED_TELETEXT_A;
                        s[0].line = 21; memcpy(s[0].data, PKT[P_R1_TEXT], 42);
                        break;
                }
                feed_lines(s, 1, 0.04);
                break;
        case LK_FRAME:
                if (l->a == 0) {
                        s[0].id = VBI_SLICED_TELETEXT_B; s[0].line = 7; memcpy(s[0].data, PKT[P_H100E], 42);
                        s[1].id = VBI_SLICED_TELETEXT_B; s[1].line = 8; memcpy(s[1].data, PKT[P_R1_TEXT], 42);
                        s[2].id = VBI_SLICED_CAPTION_525; s[2].line = 21; s[2].data[0] = vbi_par8('A'); s[2].data[1] = vbi_par8('B');
                        s[3].id = VBI_SLICED_VPS; s[3].line = 16; vbi_encode_vps_cni(s[3].data, cni_vps[0]);
                        s[4].id = VBI_SLICED_WSS_625; s[4].line = 23; s[4].data[0] = 0x08;
                        feed_lines(s, 5, 0.04);
                } else {
                        static const int P[5] = { P_R1_TEXT, P_H200S, P_R1_M2, P_H1FF, P_H8FF };
                        for (int i = 0; i < 5; i++) { s[i].id = VBI_SLICED_TELETEXT_B; s[i].line = 7 + i; memcpy(s[i].data, PKT[P[i]], 42); }
                        feed_lines(s, 5, 0.04);
                }
                break;
        case LK_TIME:
                switch (l->a) {
                case 0: feed_lines(s, 0, 0.04); break;
                case 1: feed_lines(s, 0, 0.0); break;
                case 2: feed_lines(s, 0, -1.0); break;
                case 3: feed_lines(s, 0, 10.0); break;
                case 4: for (int i = 0; i < 40; i++) feed_lines(s, 0, 0.04); break;
                case 5: for (int i = 0; i < 300; i++) feed_lines(s, 0, 0.04); break;
                }
                break;
        case LK_CTL:
                switch (l->a) {
                case CTL_CHSW: op("vbi_channel_switched"); vbi_channel_switched(G.vbi, 0); break;
                case CTL_BRIGHT: op("vbi_set_brightness"); vbi_set_brightness(G.vbi, l->b ? 255 : 0); vbi_set_contrast(G.vbi, l->b ? 127 : -128); break;
                case CTL_REGION: op("vbi_teletext_set_default_region"); vbi_teletext_set_default_region(G.vbi, l->b); break;
                case CTL_LEVEL: op("vbi_teletext_set_level"); vbi_teletext_set_level(G.vbi, l->b); break;
                default: set_handlers(l->a); break;
                }
                break;
        case LK_READ: do_read(l); break;
        }
}
