/* C09 - XDS packets are delivered intact, exactly once, and only with a valid
 * checksum (src/xds_demux.c vbi_xds_demux_feed; src/caption.c xds_separator /
 * xds_decoder reached through vbi_decode() line 284).
 *
 * One sender model drives both implementations.  A *stream* is the sequence of
 * field-2 byte pairs a sender emits: XDS packets (class, type, payload) cut
 * into <= 3 segments (start code, continue codes, 0x00 filler after an odd
 * segment, terminator 0x0F + checksum), caption bursts (control pair + text
 * pair) and null pairs, merged in every order that keeps each packet's own
 * segments in sequence, sent in 2..3 cycles; optionally one fault (pair
 * dropped, one byte with bad parity, checksum off by one).  Every stream is
 * executed pair by pair on the real objects (vbi_xds_demux_new; vbi_decoder_new
 * + vbi_decode line 284) in lock step with a reference reassembler written
 * here from the EIA-608 packet rules.  Reference semantics are those of the
 * *received* stream: a start code opens (restarts) its packet, a continue code
 * re-opens a started one, payload goes to the open packet, a caption control
 * code closes the XDS context (payload and terminators that follow without a
 * new start/continue code are not XDS), the terminator completes the open
 * packet if the mod-128 sum is zero and 1..32 bytes were stored, a 33rd byte
 * discards it.  A pair with a parity error discards the open packet - except
 * when only the second byte is damaged and the intact first byte shows a
 * null / packet header / caption control code: the pair is then no payload of
 * the open packet and whether that packet survives is left open (xds_demux
 * drops it, caption.c keeps it; delivery optional, content must be intact).
 *
 * Oracle, per fed pair:
 *  demux   X1 the callback runs exactly once when the reference completes a
 *             packet of a documented (class<=MISC, subclass of xds_demux.h) pair,
 *          X2 never when the reference completes nothing (bad checksum, parity,
 *             no start, > 32 bytes, empty),
 *          X3 with equal class, subclass, length, bytes and buffer[length]==0;
 *             other pairs may be dropped, but what is delivered must be intact.
 *  service S-a right after a completed packet of an observed type the matching
 *             member of vbi_program_info / vbi_network equals the harness's
 *             decoding (title, length, rating, audio, caption services,
 *             description rows, network name, call letters),
 *          S-b whenever a packet ends, an event is sent, and at the end of the
 *             stream every such member is its default or the decoding of a
 *             packet the reference has completed,
 *          (VBI_EVENT_NETWORK_ID counts as VBI_EVENT_NETWORK throughout: since repo commit
 *           a34c617 a confirmed name that does not change the station id - same call
 *           letters - is announced by VBI_EVENT_NETWORK_ID alone; both carry vbi_network)
 *          S-c VBI_EVENT_PROG_INFO / VBI_EVENT_NETWORK are sent only while a
 *             packet completes whose content was completed before (upper bound
 *             of "announced on the second occurrence"),
 *          S-d clean streams in which a packet directly repeats the previous
 *             packet of its (class,type) announce it at least once, and after
 *             three cycles the information is complete.
 *          S-e (phases announce, announce-history) a content sent three times
 *             in a row for its (class,type) - also one that replaced an
 *             announced content by a proper prefix, an extension or other bytes
 *             of the same length - was carried by the payload of at least one
 *             event of its class after its first appearance (call letters: by
 *             a VBI_EVENT_NETWORK once two name packets followed).
 *  both    A2 no reassembly slot counts bytes it cannot hold (count is 0 or
 *             2..34 in both implementations; anything else means a byte was or
 *             will be stored outside the 32-byte buffer: "never corrupt memory"),
 *          A1 bookkeeping, not an alarm: when a pair changes the slot of another
 *             started, unfinished packet, that packet inherits the input class of
 *             the writer, so that its later loss is keyed by the cause,
 *          ASan + UBSan through the engine (worker death = violation).
 *
 * Keys.  A violation is keyed by what the sender did, not by the symptom:
 * "<implementation>: <what the oracle saw> [<input class>]", the input class
 * being the fault of the stream, else the kind of packets interleaved with the
 * affected one.  The exception is the length guard: whatever the symptom (lost
 * packet, 33 bytes delivered, neighbour slot zeroed, count 1 or 35), an anomaly
 * of a packet that was fed a pair while holding 31 bytes has one key per
 * implementation.  After the first anomaly a stream is abandoned, so a defect
 * does not go on to crash the worker with value dependent sanitizer reports.
 *
 * Deviations from DESIGN.md C09 (forced by the code, see report):
 *  - E2 state hashing is not used: complete interleavings are enumerated
 *    statelessly; states = streams executed, transitions = pairs fed.
 *  - the service decoder is made new once per pool case; between the streams of
 *    a case it is reset with vbi_channel_switched() + one empty frame and the
 *    state the XDS path reads is compared with that of a new decoder (harness
 *    error otherwise); an anomaly is reported only after it reproduced on a
 *    decoder made new for that one stream (a new decoder costs 0.35 ms, which
 *    was the whole cost of the check).
 *  - UBSan "bounds" is not used on the library (see HARNESS_GUIDE); A1/A2 read
 *    the header-visible private slot tables instead.  Without them the length
 *    guard defect shows as a different crash for different byte values.
 *  - contents: position coded bytes 0x21..0x7E (two families), plus "balanced"
 *    contents whose running mod-128 sum returns to zero after a chosen pair
 *    (the checksum is then blind to a truncation there) - needed to make
 *    parity/drop faults observable; not all 96^n contents.
 *  - program length uses the 2, 4 and 5 byte forms only; rating uses two values
 *    hand-decoded from EIA-608; language names with Latin-1 letters are not
 *    compared; leading blanks of texts are dropped as the library does
 *    (normalisation, not verified).  Where the harness has no decoding (e.g. a
 *    one byte rating) the member is not compared for the rest of the stream.
 */
#include <stdio.h>
#include <stdlib.h>
#include <string.h>
#include <stdint.h>
#include <unistd.h>
#include "mc.h"
#include "src/vbi.h"
#include "src/xds_demux.h"

#define IMPL_DEMUX 1
#define IMPL_SVC   2

static void die(const char *msg)
{
        fprintf(stderr, "C09 harness error: %s\n", msg);
        _exit(42);
}

/* ------------------------------------------------------------------ sender */

enum { K_START, K_CONT, K_DATA, K_END, K_CCTL, K_CTXT, K_NULL };
static const char *kind_name[] = { "start", "continue", "data", "terminator", "caption control", "caption text", "null" };

typedef struct { uint8_t a, b, bad, kind; int8_t pkt; uint8_t reset_before; } pair_t;   /* reset_before: xds_demux only, vbi_xds_demux_reset() is called before the pair is fed */
#define MAXPAIRS 640
typedef struct { pair_t p[MAXPAIRS]; int n; } stream_t;

typedef struct { int cls, type, len, nseg; int seg[3]; uint8_t d[48]; } pkt_t;

static uint8_t par8(unsigned c)
{
        c &= 0x7F;
        unsigned p = c; p ^= p >> 4; p ^= p >> 2; p ^= p >> 1;
        return (uint8_t)(c | ((p & 1) ? 0 : 0x80));           /* odd parity */
}

static void push(stream_t *s, int a, int b, int kind, int pkt)
{
        if (s->n >= MAXPAIRS) die("stream too long");
        pair_t *p = &s->p[s->n++];
        p->a = a; p->b = b; p->bad = 0; p->kind = kind; p->pkt = pkt;
}

static unsigned pkt_chk(const pkt_t *p)
{
        unsigned s = 1 + 2 * p->cls + p->type + 0x0F;
        for (int i = 0; i < p->len; i++) s += p->d[i];
        return (0x80 - (s & 0x7F)) & 0x7F;
}

static void emit_seg(stream_t *s, const pkt_t *p, int id, int k)
{
        int off = 0;
        for (int i = 0; i < k; i++) off += p->seg[i];
        if (k == 0) push(s, 1 + 2 * p->cls, p->type, K_START, id);
        else        push(s, 2 + 2 * p->cls, p->type, K_CONT, id);
        for (int i = 0; i < p->seg[k]; i += 2)
                push(s, p->d[off + i], i + 1 < p->seg[k] ? p->d[off + i + 1] : 0, K_DATA, id);
        if (k == p->nseg - 1) push(s, 0x0F, pkt_chk(p), K_END, id);
}

static void emit_caption(stream_t *s, int c1, int c2)
{
        push(s, c1, c2, K_CCTL, -1);
        push(s, 'c', 'c', K_CTXT, -1);
}

/* position coded contents: distinct per packet (salt) and position */
static void fill_content(pkt_t *p, int family, int salt)
{
        for (int i = 0; i < p->len && i < 48; i++)
                p->d[i] = family == 0 ? 0x21 + ((salt * 37 + i * 7 + (i >> 2)) % 0x5E)
                                      : 0x7E - ((salt * 11 + i * 5 + (i >> 3)) % 0x5E);
}

/* make start + type + d[0..upto) == 0 (mod 128) by rewriting d[upto-2], d[upto-1] */
static int balance(pkt_t *p, int upto)
{
        if (upto < 2 || upto > p->len) return 0;
        unsigned s = 1 + 2 * p->cls + p->type;
        for (int i = 0; i < upto - 2; i++) s += p->d[i];
        unsigned r = (0x80 - (s & 0x7F)) & 0x7F;               /* needed c1+c2 mod 128 */
        unsigned t = r >= 0x40 ? r : r + 0x80;                  /* 0x40..0xBF */
        unsigned c1 = t > 0x7F + 0x20 ? t - 0x7F : 0x20;
        unsigned c2 = t - c1;
        if (c1 < 0x20 || c1 > 0x7F || c2 < 0x20 || c2 > 0x7F) die("balance");
        p->d[upto - 2] = c1; p->d[upto - 1] = c2;
        return 1;
}

/* chars of the packet covered when its data pair number k (0 based) has been sent */
static int chars_after_pair(const pkt_t *p, int k)
{
        int chars = 0, pairs = 0;
        for (int s = 0; s < p->nseg; s++) {
                int np = (p->seg[s] + 1) / 2;
                if (k < pairs + np) { int c = chars + (k - pairs + 1) * 2; return c > chars + p->seg[s] ? chars + p->seg[s] : c; }
                pairs += np; chars += p->seg[s];
        }
        return -1;
}
static int pkt_npairs(const pkt_t *p)
{
        int n = 0; for (int s = 0; s < p->nseg; s++) n += (p->seg[s] + 1) / 2; return n;
}

static void set_shape(pkt_t *p, int n, const int *seg)
{
        p->nseg = n; p->len = 0;
        for (int i = 0; i < n; i++) { p->seg[i] = seg[i]; p->len += seg[i]; }
        if (p->len > 44) die("packet too long");
}

static void stream_str(const stream_t *s, char *out, size_t cap)
{
        static const char hx[] = "0123456789abcdef";
        size_t o = 0;
        for (int i = 0; i < s->n; i++) {
                if (o + 12 >= cap) { if (o + 4 < cap) { memcpy(out + o, "...", 3); o += 3; } break; }
                const pair_t *p = &s->p[i];
                out[o++] = hx[p->a >> 4]; out[o++] = hx[p->a & 15]; if (p->bad & 1) out[o++] = '!';
                out[o++] = hx[p->b >> 4]; out[o++] = hx[p->b & 15]; if (p->bad & 2) out[o++] = '!';
                out[o++] = ' ';
        }
        out[o] = 0;
}

/* ------------------------------------------------------- reference model */

enum { R_NONE, R_NEVER, R_NOCUR, R_CHK, R_EMPTY, R_TOOLONG, R_PARITY, R_DELIVERED, R_RESTART };
static const char *reason_name[] = { "open", "never started", "no start", "bad checksum", "empty", "more than 32 bytes", "parity error", "already delivered", "restarted" };

#define F_ODD31     1u
#define F_INT_SUP   2u
#define F_INT_UNSUP 4u
#define F_INT_ALIAS 8u
#define F_INT_UNDOC 16u
#define F_INT_CC    32u

typedef struct { uint8_t live, n, reason, opt; uint8_t d[34]; unsigned sum, flags; } mpart_t;
typedef struct {
        mpart_t part[7 * 128];
        int cur;
        int nkeys; int keys[16];             /* keys ever started in this stream */
        int impl;
} model_t;
typedef struct { int delivered, optional, key, n; uint8_t d[34]; int parity, cur_before, cur_after, reject; } mstep_t;

static int documented_demux(int c, int t)
{
        if (c <= 1) return (t >= 1 && t <= 9) || t == 0x0C || t == 0x0D || (t >= 0x10 && t <= 0x17);
        if (c == 2) return t >= 1 && t <= 4;
        if (c == 3) return (t >= 1 && t <= 4) || (t >= 0x40 && t <= 0x43);
        return 0;
}
static int group_of(int c, int t);
/* delivery required for this key? */
static int required(int impl, int c, int t)
{
        return impl == IMPL_DEMUX ? documented_demux(c, t) : group_of(c, t) >= 0;
}
/* category of a key as interrupter */
static unsigned category(int impl, int c, int t)
{
        if (impl == IMPL_DEMUX) {
                if (c > 3) return F_INT_UNSUP;
                if (documented_demux(c, t)) return F_INT_SUP;
                if ((t >= 0x40 && t <= 0x48) || (c == 3 && t >= 0x10 && t <= 0x17)) return F_INT_ALIAS;   /* 0x40+n is kept in the slot of 0x10+n */
                if (t <= 0x18) return F_INT_UNDOC;
                return F_INT_UNSUP;
        }
        return (c < 4 && t < 0x18) ? F_INT_SUP : F_INT_UNSUP;
}

static void model_init(model_t *m, int impl)
{
        memset(m, 0, sizeof *m);
        for (int i = 0; i < 7 * 128; i++) m->part[i].reason = R_NEVER;
        m->cur = -1; m->impl = impl;
}

/* vbi_xds_demux_reset(): every started packet is forgotten, no packet is open */
static void model_reset(model_t *m)
{
        for (int k = 0; k < m->nkeys; k++) { mpart_t *q = &m->part[m->keys[k]]; if (q->live) { q->live = 0; q->reason = R_NEVER; } }
        m->cur = -1;
}

static void model_step(model_t *m, const pair_t *p, mstep_t *o)
{
        memset(o, 0, sizeof *o);
        o->cur_before = m->cur; o->key = -1;
        int a = p->a, b = p->b;
        if (p->bad) {
                o->parity = 1;
                if (m->cur >= 0) {
                        /* Only the second byte is damaged and the intact first byte says the pair is not payload
                         * or terminator of the open packet (null, packet header, caption control): the open packet
                         * is interrupted, whether it survives is left open (xds_demux drops it, caption.c keeps it
                         * for a caption control code); everything else damages the open packet. */
                        if (!(p->bad & 1) && (a <= 0x0E || (a >= 0x10 && a <= 0x1F))) m->part[m->cur].opt = 1;
                        else { m->part[m->cur].live = 0; m->part[m->cur].reason = R_PARITY; }
                }
                m->cur = -1;
        } else if (a == 0) {
                /* null: nothing */
        } else if (a <= 0x0E) {
                int c = (a - 1) >> 1, key = c * 128 + b;
                mpart_t *q = &m->part[key];
                if (m->cur >= 0 && m->cur != key) m->part[m->cur].flags |= category(m->impl, c, b);
                if (a & 1) {
                        q->live = 1; q->n = 0; q->sum = a + b; q->flags = 0; q->reason = R_NONE; q->opt = 0;
                        int k; for (k = 0; k < m->nkeys; k++) if (m->keys[k] == key) break;
                        if (k == m->nkeys && m->nkeys < 16) m->keys[m->nkeys++] = key;
                        m->cur = key;
                } else {
                        m->cur = q->live ? key : -1;
                }
        } else if (a == 0x0F) {
                if (m->cur >= 0) {
                        mpart_t *q = &m->part[m->cur];
                        q->sum += a + b;
                        if (q->sum & 0x7F) { q->reason = R_CHK; o->reject = R_CHK; }
                        else if (q->n == 0) { q->reason = R_EMPTY; o->reject = R_EMPTY; }
                        else {
                                o->delivered = 1; o->optional = q->opt; o->key = m->cur; o->n = q->n; memcpy(o->d, q->d, q->n);
                                q->reason = R_DELIVERED;
                        }
                        q->live = 0;
                        m->cur = -1;
                } else o->reject = R_NOCUR;
        } else if (a <= 0x1F) {
                if (m->cur >= 0) m->part[m->cur].flags |= F_INT_CC;
                m->cur = -1;
        } else {
                if (m->cur >= 0) {
                        mpart_t *q = &m->part[m->cur];
                        if (q->n == 31) q->flags |= F_ODD31;
                        int n2 = q->n + 1 + (b != 0);
                        if (n2 > 32) { q->live = 0; q->reason = R_TOOLONG; m->cur = -1; }
                        else { q->d[q->n] = a; if (b) q->d[q->n + 1] = b; q->n = n2; q->sum += a + b; }
                }
        }
        o->cur_after = m->cur;
}

/* ----------------------------------------------------- violation keying */

typedef struct {
        const stream_t *s;
        const char *fault;          /* NULL for a clean stream, else "parity error in data pair" ... */
        const char *phase_note;     /* input class given by the caller instead of the packet flags */
        int impl, step;
        int silent;                 /* first pass on a reused decoder: do not report, the caller re-runs */
} runctx_t;

static const char *impl_name(int impl) { return impl == IMPL_DEMUX ? "xds_demux" : "service decoder"; }

static const char *ctx_of(unsigned flags, const char *fault)
{
        if (fault) return fault;
        if (flags & F_INT_ALIAS) return "a packet of an undocumented type 0x10+n/0x40+n involved";
        if (flags & F_INT_UNSUP) return "a packet of unsupported class/type involved";
        if (flags & F_INT_UNDOC) return "a packet of undocumented type involved";
        if (flags & F_INT_SUP) return "several packets interleaved";
        if (flags & F_INT_CC) return "interrupted by caption";
        return "single packet";
}

static uint64_t n_anomalies;

static void anomaly(const runctx_t *rc, const char *kind, unsigned flags, const char *fmt, ...)
{
        char key[200], what[300], st[560];
        if (rc->silent) return;
        va_list ap; va_start(ap, fmt); vsnprintf(what, sizeof what, fmt, ap); va_end(ap);
        if (flags & F_ODD31)
                snprintf(key, sizeof key, "%s: a byte pair fed at 31 stored payload bytes (count 33) passes the length guard and is stored past the 32-byte buffer",
                         impl_name(rc->impl));
        else
                snprintf(key, sizeof key, "%s: %s [%s]", impl_name(rc->impl), kind, rc->phase_note ? rc->phase_note : ctx_of(flags, rc->fault));
        stream_str(rc->s, st, sizeof st);
        const pair_t *p = &rc->s->p[rc->step < rc->s->n ? rc->step : rc->s->n - 1];
        n_anomalies++;
        /* a worker reports each key a few times only (the unchanged tree can produce millions of anomalous streams) */
        static struct { uint64_t h; unsigned n; } seen[128];
        uint64_t kh = mc_hash64(key, strlen(key)) | 1;
        int slot;
        for (slot = 0; slot < 127 && seen[slot].h && seen[slot].h != kh; slot++) ;
        seen[slot].h = kh;
        if (!mc_replaying && seen[slot].n++ >= 4) { mc_count("anomalies_not_listed_individually", 1); return; }
        if (mc_replaying)
                fprintf(stderr, "C09: %s | %s | %s at pair #%d (%02x %02x, %s) | stream: %s\n", key, kind, what, rc->step, p->a, p->b, kind_name[p->kind], st);
        mc_violation(key, "%s: %s; at pair #%d (%02x %02x %s)%s%s; stream(hex, !=bad parity): %s", kind, what, rc->step, p->a, p->b,
                     kind_name[p->kind], rc->fault ? "; fault: " : "", rc->fault ? rc->fault : "", st);
}

/* ------------------------------------------------------------ demux run */

typedef struct { int n; struct { int cls, sub; unsigned size; int nul; uint8_t buf[36]; } e[4]; } cblog_t;

static vbi_bool demux_cb(vbi_xds_demux *xd, const vbi_xds_packet *xp, void *ud)
{
        cblog_t *l = ud;
        if (l->n < 4) {
                l->e[l->n].cls = xp->xds_class; l->e[l->n].sub = xp->xds_subclass; l->e[l->n].size = xp->buffer_size;
                memcpy(l->e[l->n].buf, xp->buffer, 36);
                l->e[l->n].nul = xp->buffer_size < 36 ? xp->buffer[xp->buffer_size] == 0 : 0;
        }
        l->n++;
        return TRUE;
}

static _vbi_xds_subpacket *demux_slot(vbi_xds_demux *xd, int key)
{
        int c = key >> 7, t = key & 127;
        if (!documented_demux(c, t)) return NULL;
        return &xd->subpacket[c][t < 0x40 ? t : t - 0x30];
}

typedef struct { uint64_t delivered, rejected; unsigned reasons; } runstat_t;

/* returns 1 when the stream ran to its end without anomaly */
static int run_demux(const stream_t *s, const char *fault, runstat_t *rs)
{
        runctx_t rc = { s, fault, NULL, IMPL_DEMUX, 0, 0 };
        static model_t m;
        model_init(&m, IMPL_DEMUX);
        cblog_t log; memset(&log, 0, sizeof log);
        vbi_xds_demux *xd = vbi_xds_demux_new(demux_cb, &log);
        if (!xd) die("vbi_xds_demux_new");
        int ok = 1;
        for (int i = 0; i < s->n && ok; i++) {
                const pair_t *p = &s->p[i];
                rc.step = i;
                /* A1 snapshot of the live documented slots */
                _vbi_xds_subpacket snap[16]; int snapkey[16], nsnap = 0;
                for (int k = 0; k < m.nkeys; k++) {
                        _vbi_xds_subpacket *sl;
                        if (m.part[m.keys[k]].live && (sl = demux_slot(xd, m.keys[k]))) { snap[nsnap] = *sl; snapkey[nsnap++] = m.keys[k]; }
                }
                if (p->reset_before) { vbi_xds_demux_reset(xd); model_reset(&m); nsnap = 0; mc_count("demux_resets", 1); }
                mstep_t ms; model_step(&m, p, &ms);
                uint8_t *buf = mc_exact(NULL, 2);
                buf[0] = par8(p->a) ^ ((p->bad & 1) ? 0x80 : 0); buf[1] = par8(p->b) ^ ((p->bad & 2) ? 0x80 : 0);
                log.n = 0;
                vbi_xds_demux_feed(xd, buf);
                free(buf);
                unsigned wflags = 0;
                int writer = ms.cur_after >= 0 ? ms.cur_after : ms.cur_before;
                if (ms.cur_before >= 0) wflags |= m.part[ms.cur_before].flags;
                if (writer >= 0) wflags |= m.part[writer].flags | (category(IMPL_DEMUX, writer >> 7, writer & 127) & ~F_INT_SUP);
                /* A2 */
                for (int c = 0; c < 7 && ok; c++) for (int t = 0; t < 0x18; t++) {
                        unsigned n = xd->subpacket[c][t].count;
                        if (n == 1 || n > 34) {
                                anomaly(&rc, "a reassembly slot counts bytes it cannot hold (count not 0, 2..34)", wflags, "slot[%d][0x%02x].count=%u", c, t, n);
                                ok = 0; break;
                        }
                }
                if (!ok) break;
                /* A1: not an alarm by itself - the victim inherits the cause, the oracle speaks when it is not delivered */
                for (int k = 0; k < nsnap; k++) {
                        if (snapkey[k] == ms.cur_before || snapkey[k] == ms.cur_after) continue;
                        if (memcmp(&snap[k], demux_slot(xd, snapkey[k]), sizeof snap[k])) {
                                m.part[snapkey[k]].flags |= wflags | (writer >= 0 ? F_INT_SUP : 0);
                                mc_count("foreign_slot_modified", 1);
                        }
                }
                /* X1..X4 */
                if (log.n > 1) { anomaly(&rc, "more than one callback for one terminator", wflags, "%d callbacks", log.n); ok = 0; break; }
                if (ms.delivered) {
                        int c = ms.key >> 7, t = ms.key & 127;
                        unsigned fl = m.part[ms.key].flags | (category(IMPL_DEMUX, c, t) & ~F_INT_SUP);
                        if (log.n == 0) {
                                if (required(IMPL_DEMUX, c, t) && !ms.optional) {
                                        anomaly(&rc, "a well-formed packet is not delivered", fl, "(%d,0x%02x) %d bytes", c, t, ms.n); ok = 0; break;
                                }
                                rs->rejected++;
                        } else {
                                if (log.e[0].cls != c || log.e[0].sub != t || (int) log.e[0].size != ms.n || memcmp(log.e[0].buf, ms.d, ms.n) || !log.e[0].nul) {
                                        anomaly(&rc, "a packet is delivered with wrong class, type, length, bytes or terminator", fl,
                                                "sent (%d,0x%02x) %d bytes, callback (%d,0x%02x) %u bytes nul=%d", c, t, ms.n, log.e[0].cls, log.e[0].sub, log.e[0].size, log.e[0].nul);
                                        ok = 0; break;
                                }
                                rs->delivered++;
                        }
                } else if (log.n) {
                        int c = log.e[0].cls, t = log.e[0].sub;
                        unsigned fl = wflags; int why = R_NEVER;
                        if (c >= 0 && c < 7 && t >= 0 && t < 128) { fl |= m.part[c * 128 + t].flags | (category(IMPL_DEMUX, c, t) & ~F_INT_SUP); why = m.part[c * 128 + t].reason; }
                        if (ms.reject) why = ms.reject;
                        char kind[120]; snprintf(kind, sizeof kind, "a packet that must not be delivered is delivered (%s)", reason_name[why]);
                        anomaly(&rc, kind, fl, "callback (%d,0x%02x) %u bytes", c, t, log.e[0].size);
                        ok = 0; break;
                } else if (ms.reject) { rs->rejected++; rs->reasons |= 1u << ms.reject; }
        }
        for (int k = 0; k < m.nkeys; k++) if (m.part[m.keys[k]].reason > R_NEVER && m.part[m.keys[k]].reason != R_DELIVERED) rs->reasons |= 1u << m.part[m.keys[k]].reason;
        vbi_xds_demux_delete(xd);
        return ok;
}

/* -------------------------------------------- service decoder: observation */

enum { G_LEN, G_TITLE, G_RATING, G_AUDIO, G_CAPS, G_DESC0, G_NAME = G_DESC0 + 8, G_CALL, NGROUPS };
static const char *group_name[NGROUPS] = { "program length", "title", "rating", "audio services", "caption services",
        "description row 0", "description row 1", "description row 2", "description row 3", "description row 4", "description row 5",
        "description row 6", "description row 7", "network name", "call letters" };

static int group_of(int c, int t)
{
        if (c <= 1) {
                if (t == 2) return G_LEN; if (t == 3) return G_TITLE; if (t == 5) return G_RATING;
                if (t == 6) return G_AUDIO; if (t == 7) return G_CAPS; if (t >= 0x10 && t <= 0x17) return G_DESC0 + (t & 7);
                return -1;
        }
        if (c == 2) { if (t == 1) return G_NAME; if (t == 2) return G_CALL; }
        return -1;
}

typedef struct { uint8_t b[100]; } gval_t;

static void put_str(gval_t *v, int off, const void *s, int max)
{
        if (!s) return;
        const char *c = s; int i;
        for (i = 0; i < max - 1 && c[i]; i++) v->b[off + i] = (uint8_t) c[i];
}
static void put_int(gval_t *v, int off, int x) { memcpy(v->b + off, &x, 4); }

static void net_group(const vbi_network *n, int g, gval_t *v)
{
        memset(v, 0, sizeof *v);
        if (g == G_NAME) put_str(v, 0, n->name, 64); else put_str(v, 0, n->call, 40);
}

static void pi_group(const vbi_program_info *pi, int g, gval_t *v)
{
        memset(v, 0, sizeof *v);
        switch (g) {
        case G_LEN: put_int(v, 0, pi->length_hour); put_int(v, 4, pi->length_min); put_int(v, 8, pi->elapsed_hour);
                    put_int(v, 12, pi->elapsed_min); put_int(v, 16, pi->elapsed_sec); break;
        case G_TITLE: put_str(v, 0, pi->title, 64); break;
        case G_RATING: put_int(v, 0, pi->rating_auth);
                    if (pi->rating_auth != VBI_RATING_AUTH_NONE) { put_int(v, 4, pi->rating_id); put_int(v, 8, pi->rating_dlsv); } break;
        case G_AUDIO: for (int i = 0; i < 2; i++) { put_int(v, i * 4, pi->audio[i].mode); put_str(v, 8 + i * 12, pi->audio[i].language, 12); } break;
        case G_CAPS: put_int(v, 0, pi->caption_services); for (int i = 0; i < 8; i++) put_str(v, 4 + i * 12, pi->caption_language[i], 12); break;
        default: put_str(v, 0, pi->description[g - G_DESC0], 33); break;
        }
}

/* value of one group as the decoder shows it */
static void lib_group(const vbi_decoder *vbi, int c, int g, gval_t *v)
{
        if (c == 2) net_group(&vbi->network.ev.network, g, v);
        else pi_group(&vbi->prog_info[c], g, v);
}

static void default_group(int g, gval_t *v)
{
        memset(v, 0, sizeof *v);
        switch (g) {
        case G_LEN: for (int i = 0; i < 5; i++) put_int(v, i * 4, -1); break;
        case G_RATING: put_int(v, 0, VBI_RATING_AUTH_NONE); break;
        case G_AUDIO: put_int(v, 0, VBI_AUDIO_MODE_UNKNOWN); put_int(v, 4, VBI_AUDIO_MODE_UNKNOWN); break;
        case G_CAPS: put_int(v, 0, -1); break;
        default: break;
        }
}

/* text normalisation of the library: leading bytes <= 0x20 dropped */
static void ref_text(gval_t *v, const uint8_t *d, int n, int max)
{
        int i = 0, o = 0;
        while (i < n && d[i] <= 0x20) i++;
        for (; i < n && o < max - 1; i++) v->b[o++] = d[i] < 0x20 ? 0x20 : d[i];
}

static const char *ref_language[8] = { NULL, "English", NULL /* Spanish, Latin-1: not used */, NULL, "Deutsch", "Italiano", NULL, NULL };

/* the harness's decoding of a packet: 1 valid (must be shown), 2 optional, 0 no effect defined */
static int ref_decode(int c, int t, const uint8_t *d, int n, gval_t *v)
{
        int g = group_of(c, t);
        memset(v, 0, sizeof *v);
        if (g < 0) return 0;
        switch (g) {
        case G_LEN:
                if (n != 2 && n != 4 && n != 5) return 0;
                put_int(v, 0, d[1] & 63); put_int(v, 4, d[0] & 63);
                put_int(v, 8, n >= 4 ? d[3] & 63 : -1); put_int(v, 12, n >= 4 ? d[2] & 63 : -1);
                put_int(v, 16, n >= 5 ? d[4] & 63 : 0);
                if ((d[0] & 63) > 59 || (n >= 4 && (d[2] & 63) > 59) || (n >= 5 && (d[4] & 63) > 59)) return 0;
                return 1;
        case G_TITLE:
                ref_text(v, d, n, 64);
                return n >= 2 ? 1 : 2;
        case G_RATING:
                if (n != 2) return 0;
                if (d[0] == 0x43 && d[1] == 0x40) { put_int(v, 0, VBI_RATING_AUTH_MPAA); put_int(v, 4, 3); put_int(v, 8, 0); return 1; }          /* MPAA PG-13 */
                if (d[0] == 0x68 && d[1] == 0x6D) { put_int(v, 0, VBI_RATING_AUTH_TV_US); put_int(v, 4, 5); put_int(v, 8, VBI_RATING_D | VBI_RATING_L | VBI_RATING_V); return 1; } /* TV-14 DLV */
                return 0;
        case G_AUDIO: {
                static const int main_mode[8] = { VBI_AUDIO_MODE_UNKNOWN, VBI_AUDIO_MODE_MONO, VBI_AUDIO_MODE_SIMULATED_STEREO, VBI_AUDIO_MODE_STEREO,
                        VBI_AUDIO_MODE_STEREO_SURROUND, VBI_AUDIO_MODE_DATA_SERVICE, VBI_AUDIO_MODE_UNKNOWN, VBI_AUDIO_MODE_NONE };
                static const int sap_mode[8] = { VBI_AUDIO_MODE_UNKNOWN, VBI_AUDIO_MODE_MONO, VBI_AUDIO_MODE_VIDEO_DESCRIPTIONS, VBI_AUDIO_MODE_NON_PROGRAM_AUDIO,
                        VBI_AUDIO_MODE_SPECIAL_EFFECTS, VBI_AUDIO_MODE_DATA_SERVICE, VBI_AUDIO_MODE_UNKNOWN, VBI_AUDIO_MODE_NONE };
                if (n != 2) return 0;
                for (int i = 0; i < 2; i++) {
                        int l = (d[i] >> 3) & 7;
                        if (l == 2 || l == 3) return 0;                 /* Latin-1 names: not compared */
                        put_int(v, i * 4, (i ? sap_mode : main_mode)[d[i] & 7]);
                        put_str(v, 8 + i * 12, ref_language[l], 12);
                }
                return 1;
        }
        case G_CAPS: {
                if (n > 8) return 0;
                int services = 0;
                for (int i = 0; i < n; i++) {
                        int l = (d[i] >> 3) & 7, f = (d[i] >> 2) & 1, ch = (d[i] >> 1) & 1, text = d[i] & 1;
                        if (l == 2 || l == 3) return 0;
                        int idx = text * 4 + f * 2 + ch;                 /* CC1..4, T1..4 */
                        services |= 1 << idx;
                        memset(v->b + 4 + idx * 12, 0, 12);
                        put_str(v, 4 + idx * 12, ref_language[l], 12);
                }
                put_int(v, 0, services);
                return 1;
        }
        case G_NAME: ref_text(v, d, n, 64); return 1;
        case G_CALL: ref_text(v, d, n, 40); return 1;
        default: ref_text(v, d, n, 33); return 1;
        }
}

#define MAXCAND 8
typedef struct { int n[3][NGROUPS]; gval_t v[3][NGROUPS][MAXCAND]; } cands_t;

static void cand_add(cands_t *cs, int c, int g, const gval_t *v)
{
        for (int i = 0; i < cs->n[c][g]; i++) if (!memcmp(&cs->v[c][g][i], v, sizeof *v)) return;
        if (cs->n[c][g] < MAXCAND) cs->v[c][g][cs->n[c][g]++] = *v;
}
static int cand_has(const cands_t *cs, int c, int g, const gval_t *v)
{
        for (int i = 0; i < cs->n[c][g]; i++) if (!memcmp(&cs->v[c][g][i], v, sizeof *v)) return 1;
        return 0;
}

typedef struct { int n; struct { int type, future; gval_t payload[NGROUPS]; } e[8]; } evlog_t;

/* the payload is copied while the handler runs: vbi_program_info behind the pointer, vbi_network by value */
static void svc_handler(vbi_event *e, void *ud)
{
        evlog_t *l = ud;
        if (l->n < 8) {
                l->e[l->n].type = e->type; l->e[l->n].future = 0;
                if (e->type == VBI_EVENT_PROG_INFO) {
                        l->e[l->n].future = e->ev.prog_info->future;
                        for (int g = 0; g < G_NAME; g++) pi_group(e->ev.prog_info, g, &l->e[l->n].payload[g]);
                } else if (e->type == VBI_EVENT_NETWORK || e->type == VBI_EVENT_NETWORK_ID) {
                        net_group(&e->ev.network, G_NAME, &l->e[l->n].payload[G_NAME]);
                        net_group(&e->ev.network, G_CALL, &l->e[l->n].payload[G_CALL]);
                }
        }
        l->n++;
}

static void gval_text(const gval_t *v, char *out, size_t cap)
{
        size_t o = 0;
        for (int i = 0; i < 40 && o + 4 < cap; i++) {
                uint8_t b = v->b[i];
                if (b >= 0x20 && b < 0x7F) out[o++] = b; else o += snprintf(out + o, cap - o, "\\%02x", b);
        }
        out[o] = 0;
}

typedef struct { int announce_check, cycles, history_check; } svcopt_t;

/* One decoder per pool case, made new at the first stream of the case.  Between
 * the streams of a case it is reset through the public channel switch
 * (vbi_channel_switched + one empty frame) and everything the XDS path reads is
 * compared with the state of a new decoder; an anomaly is reported only after
 * it has been reproduced on a decoder made new for that stream alone. */
static vbi_decoder *g_vbi;
static evlog_t g_ev;
static double g_T;
static void lib_group(const vbi_decoder *vbi, int c, int g, gval_t *v);
static void default_group(int g, gval_t *v);

static vbi_decoder *svc_new(void)
{
        vbi_decoder *vbi = vbi_decoder_new();
        if (!vbi) die("vbi_decoder_new");
        if (!vbi_event_handler_register(vbi, VBI_EVENT_PROG_INFO | VBI_EVENT_NETWORK | VBI_EVENT_NETWORK_ID, svc_handler, &g_ev)) die("register");
        return vbi;
}

static int svc_pristine(const vbi_decoder *vbi)
{
        static const xds_sub_packet zero[4][0x18];
        if (memcmp(vbi->cc.sub_packet, zero, sizeof zero) || vbi->cc.curr_sp || vbi->cc.xds || vbi->cc.info_cycle[0] || vbi->cc.info_cycle[1]) { fprintf(stderr, "pristine: caption state\n"); return 0; }
        if (vbi->network.ev.network.cycle || vbi->network.ev.network.nuid || vbi->prog_info[0].future || !vbi->prog_info[1].future) { fprintf(stderr, "pristine: network/future\n"); return 0; }
        for (int c = 0; c < 3; c++)
                for (int g = (c == 2 ? G_NAME : 0); g < (c == 2 ? NGROUPS : G_NAME); g++) {
                        gval_t got, def; lib_group(vbi, c, g, &got); default_group(g, &def);
                        if (memcmp(&got, &def, sizeof got)) { fprintf(stderr, "pristine: class %d group %s\n", c, group_name[g]); return 0; }
                }
        return 1;
}

static vbi_decoder *svc_acquire(int fresh)
{
        if (fresh) return svc_new();
        if (!g_vbi) { g_vbi = svc_new(); g_T = 1.0; }
        else {
                vbi_sliced none; memset(&none, 0, sizeof none);
                vbi_channel_switched(g_vbi, 0);
                g_T += 1.0 / 30;
                vbi_decode(g_vbi, &none, 0, g_T);
                mc_count("decoder_resets_verified", 1);
        }
        if (!svc_pristine(g_vbi)) {
                /* a verdict about the tree (the documented reset on a channel switch leaves XDS / programme state behind), not a
                 * harness error; go on with a new decoder */
                mc_violation("service decoder: a channel switch does not restore the initial XDS / programme information state", "after %llu streams on one decoder", (unsigned long long) 0);
                vbi_decoder_delete(g_vbi); g_vbi = svc_new(); g_T = 1.0;
        }
        return g_vbi;
}

static void svc_end_of_case(void)
{
        if (g_vbi) { vbi_decoder_delete(g_vbi); g_vbi = NULL; }
}

static int run_svc_on(const stream_t *s, const char *fault, const svcopt_t *opt, runstat_t *rs, int fresh, int report);

/* S-e: the current content of one observed (class,type): since which pair, how often in a row, announced with it? */
typedef struct { int key, c, g, n, first_step, nconsec, announced, names_after; const char *rel; uint8_t d[34]; gval_t want; } track_t;

/* A content sent three times in a row must have been carried by an event of its class after its first
 * appearance (the decoder announces on the second occurrence; an event caused by another type in between
 * carries it as well; the one flush a repeated title causes costs one more repeat).  Call letters are
 * announced by the network name packet: two name packets must have followed. */
static int history_ok(const track_t *q)
{
        if (q->n < 0 || q->nconsec < 3 || q->announced) return 1;
        if (q->g == G_CALL && q->names_after < 2) return 1;
        return 0;
}

static void gval_text(const gval_t *v, char *out, size_t cap);

static void history_anomaly(const runctx_t *rc, const track_t *q)
{
        runctx_t r2 = *rc; r2.phase_note = q->rel;
        char a[200]; gval_text(&q->want, a, sizeof a);
        char kind[96];
        snprintf(kind, sizeof kind, "%s repeated but never announced", q->g >= G_DESC0 && q->g < G_NAME ? "description row" : group_name[q->g]);
        anomaly(&r2, kind, 0, "(%d,0x%02x) %s [%s] sent %d times in a row from pair #%d on, no %s after that carried it",
                q->key >> 7, q->key & 127, group_name[q->g], a, q->nconsec, q->first_step, q->c == 2 ? "VBI_EVENT_NETWORK" : "VBI_EVENT_PROG_INFO");
}

static int run_svc(const stream_t *s, const char *fault, const svcopt_t *opt, runstat_t *rs)
{
        runstat_t tmp = *rs;
        if (run_svc_on(s, fault, opt, rs, 0, 0)) return 1;
        /* reproduce on a decoder made new for this stream, and report from there */
        *rs = tmp;
        if (run_svc_on(s, fault, opt, rs, 1, 1))
                mc_violation("service decoder: behaviour depends on what was received before a channel switch (anomaly on the reused decoder, none on a new one)", "%s", fault ? fault : "");
        return 0;
}

static int run_svc_on(const stream_t *s, const char *fault, const svcopt_t *opt, runstat_t *rs, int fresh, int report)
{
        runctx_t rc = { s, fault, NULL, IMPL_SVC, 0, !report };
        static model_t m;
        static cands_t cs;
        model_init(&m, IMPL_SVC);
        memset(cs.n, 0, sizeof cs.n);
        vbi_decoder *vbi = svc_acquire(fresh);
        double fresh_T = 1.0, *Tp = fresh ? &fresh_T : &g_T;
        int ok = 1;
        /* last completed packet per (class,type): hash of its bytes */
        uint64_t hist[96], any[96]; int hist_key[96], nhist = 0, nany = 0;
        int ndeliv[3][NGROUPS]; memset(ndeliv, 0, sizeof ndeliv);
        int nrepeat[3] = { 0, 0, 0 };                 /* completed packets of an observed type that repeat an earlier one */
        int nevents[3] = { 0, 0, 0 }, last_rep_type[3] = { 0, 0, 0 };
        gval_t last[3][NGROUPS]; int have_last[3][NGROUPS]; memset(have_last, 0, sizeof have_last);
        int wild[3][NGROUPS]; memset(wild, 0, sizeof wild);
        /* S-e: content history of every observed (class,type) */
        track_t tr[16];
        int ntr = 0;
        for (int i = 0; i < s->n && ok; i++) {
                const pair_t *p = &s->p[i];
                rc.step = i;
                xds_sub_packet snap[16]; int snapkey[16], nsnap = 0;
                for (int k = 0; k < m.nkeys; k++) {
                        int c = m.keys[k] >> 7, t = m.keys[k] & 127;
                        if (m.part[m.keys[k]].live && c < 4 && t < 0x18) { snap[nsnap] = vbi->cc.sub_packet[c][t]; snapkey[nsnap++] = m.keys[k]; }
                }
                mstep_t ms; model_step(&m, p, &ms);
                vbi_sliced sl; memset(&sl, 0, sizeof sl);
                sl.id = VBI_SLICED_CAPTION_525; sl.line = 284;
                sl.data[0] = par8(p->a) ^ ((p->bad & 1) ? 0x80 : 0); sl.data[1] = par8(p->b) ^ ((p->bad & 2) ? 0x80 : 0);
                g_ev.n = 0;
                *Tp += 1.0 / 30;
                vbi_decode(vbi, &sl, 1, *Tp);
                unsigned wflags = 0;
                int writer = ms.cur_after >= 0 ? ms.cur_after : ms.cur_before;
                if (ms.cur_before >= 0) wflags |= m.part[ms.cur_before].flags;
                if (writer >= 0) wflags |= m.part[writer].flags | (category(IMPL_SVC, writer >> 7, writer & 127) & ~F_INT_SUP);
                /* A2 */
                for (int c = 0; c < 4 && ok; c++) for (int t = 0; t < 0x18; t++) {
                        int n = vbi->cc.sub_packet[c][t].count;
                        if (n == 1 || n > 34 || n < 0) {
                                anomaly(&rc, "a reassembly slot counts bytes it cannot hold (count not 0, 2..34)", wflags, "sub_packet[%d][0x%02x].count=%d", c, t, n);
                                ok = 0; break;
                        }
                }
                if (!ok) break;
                /* A1: the victim inherits the cause; the oracle speaks when it is then not shown */
                for (int k = 0; k < nsnap; k++) {
                        if (snapkey[k] == ms.cur_before || snapkey[k] == ms.cur_after) continue;
                        if (memcmp(&snap[k], &vbi->cc.sub_packet[snapkey[k] >> 7][snapkey[k] & 127], sizeof snap[k])) {
                                m.part[snapkey[k]].flags |= wflags | (writer >= 0 ? F_INT_SUP : 0);
                                mc_count("foreign_slot_modified", 1);
                        }
                }
                /* the reference completed a packet: remember it, S-a */
                int repeat = 0, seen = 0, dc = -1, dg = -1;
                if (ms.delivered) {
                        int c = ms.key >> 7, t = ms.key & 127;
                        mc_hash h; mc_hash_init(&h); mc_hash_u64(&h, ms.key); mc_hash_add(&h, ms.d, ms.n);
                        /* repeat = same content as the previous completed packet of this (class,type) (S-d);
                         * seen = same content completed at any earlier time (S-c: packets the decoder has no
                         * use for, e.g. a rating of one byte, do not count as "previous") */
                        int k; for (k = 0; k < nhist; k++) if (hist_key[k] == ms.key) break;
                        if (k < nhist) repeat = hist[k] == h.a;
                        else if (nhist < 96) { nhist++; }
                        if (k < 96) { hist_key[k] = ms.key; hist[k] = h.a; }
                        for (k = 0; k < nany; k++) if (any[k] == h.a) seen = 1;
                        if (!seen && nany < 96) any[nany++] = h.a;
                        dc = c; dg = group_of(c, t);
                        gval_t want;
                        int valid = dg >= 0 ? ref_decode(c, t, ms.d, ms.n, &want) : 0;
                        if (valid) cand_add(&cs, c, dg, &want);
                        else if (dg >= 0) wild[c][dg] = 1;       /* no decoding defined here: that member is not compared any more */
                        if (valid == 1 && !ms.optional) {
                                gval_t got; lib_group(vbi, c, dg, &got);
                                if (memcmp(&got, &want, sizeof got)) {
                                        char a[200], b[200]; gval_text(&got, a, sizeof a); gval_text(&want, b, sizeof b);
                                        anomaly(&rc, "a completed packet is not shown in the programme/network information", m.part[ms.key].flags,
                                                "(%d,0x%02x) %d bytes, %s shows [%s], sent [%s]", c, t, ms.n, group_name[dg], a, b);
                                        ok = 0; break;
                                }
                                /* S-e bookkeeping */
                                {
                                        int k; for (k = 0; k < ntr; k++) if (tr[k].key == ms.key) break;
                                        if (k == ntr && ntr < 16) { memset(&tr[k], 0, sizeof tr[k]); tr[k].key = ms.key; tr[k].c = c; tr[k].g = dg; tr[k].n = -1; tr[k].rel = "first content"; ntr++; }
                                        if (k < ntr) {
                                                track_t *q = &tr[k];
                                                if (q->n == ms.n && !memcmp(q->d, ms.d, ms.n)) q->nconsec++;
                                                else {
                                                        if (opt && opt->history_check && !fault && !history_ok(q)) {
                                                                history_anomaly(&rc, q); ok = 0; break;
                                                        }
                                                        if (q->n >= 0)
                                                                q->rel = ms.n < q->n && !memcmp(q->d, ms.d, ms.n) ? "new content is a proper prefix of the previous content"
                                                                       : ms.n > q->n && !memcmp(q->d, ms.d, q->n) ? "new content extends the previous content"
                                                                       : ms.n == q->n ? "new content of the same length" : "new content of another length";
                                                        q->n = ms.n; memcpy(q->d, ms.d, ms.n); q->want = want;
                                                        q->first_step = i; q->nconsec = 1; q->announced = 0; q->names_after = 0;
                                                }
                                                if (dg == G_NAME) for (int j = 0; j < ntr; j++) if (tr[j].g == G_CALL && j != k) tr[j].names_after++;
                                        }
                                }
                                ndeliv[c][dg]++; last[c][dg] = want; have_last[c][dg] = 1;
                                if (repeat && (c != 2 || dg == G_NAME)) { nrepeat[c]++; last_rep_type[c] = t; }
                                rs->delivered++;
                        }
                } else if (ms.reject) { rs->rejected++; rs->reasons |= 1u << ms.reject; }
                /* S-b (the information can only change when a terminator or a parity error ends a packet, or an
                 * event was sent; looked at then and at the last pair) */
                if (p->a == 0x0F || p->bad || g_ev.n || i == s->n - 1)
                for (int c = 0; c < 3 && ok; c++)
                        for (int g = (c == 2 ? G_NAME : 0); g < (c == 2 ? NGROUPS : G_NAME); g++) {
                                gval_t got, def; lib_group(vbi, c, g, &got); default_group(g, &def);
                                if (wild[c][g] || !memcmp(&got, &def, sizeof got) || cand_has(&cs, c, g, &got)) continue;
                                unsigned fl = wflags;
                                char a[200]; gval_text(&got, a, sizeof a);
                                anomaly(&rc, "the programme/network information shows content no completed packet carried", fl,
                                        "class %d %s = [%s]", c, group_name[g], a);
                                ok = 0; break;
                        }
                if (!ok) break;
                /* S-c */
                for (int k = 0; k < g_ev.n && k < 8 && ok; k++) {
                        int isnet = g_ev.e[k].type == VBI_EVENT_NETWORK || g_ev.e[k].type == VBI_EVENT_NETWORK_ID;
                        int ec = isnet ? 2 : g_ev.e[k].future ? 1 : 0;
                        int legit = ms.delivered && dc == ec && seen && (ec != 2 || dg == G_NAME);
                        if (g_ev.e[k].type != VBI_EVENT_PROG_INFO && !isnet) continue;
                        nevents[ec]++;
                        for (int j = 0; j < ntr; j++)
                                if (tr[j].c == ec && i > tr[j].first_step && !memcmp(&g_ev.e[k].payload[tr[j].g], &tr[j].want, sizeof(gval_t))) tr[j].announced = 1;
                        if (!legit) {
                                anomaly(&rc, ms.delivered ? "information is announced before the packet has been repeated" : "information is announced although no packet was completed", wflags,
                                        "%s for class %d", isnet ? "VBI_EVENT_NETWORK(_ID)" : "VBI_EVENT_PROG_INFO", ec);
                                ok = 0;
                        }
                }
        }
        /* S-e */
        if (ok && opt && opt->history_check && !fault) {
                rc.step = s->n - 1;
                for (int j = 0; j < ntr && ok; j++) if (!history_ok(&tr[j])) { history_anomaly(&rc, &tr[j]); ok = 0; }
        }
        /* S-d */
        if (ok && opt && opt->announce_check && !fault) {
                rc.step = s->n - 1;
                for (int c = 0; c < 3 && ok; c++) {
                        int rep = nrepeat[c] > 0;
                        if (rep && nevents[c] == 0) {
                                anomaly(&rc, "a repeated packet is never announced", 0, "class %d: %d repeats (last type 0x%02x), no %s", c, nrepeat[c], last_rep_type[c], c == 2 ? "VBI_EVENT_NETWORK" : "VBI_EVENT_PROG_INFO");
                                ok = 0;
                        }
                        if (opt->cycles >= 3 && ok)
                                for (int g = 0; g < NGROUPS && ok; g++) {
                                        if (!have_last[c][g]) continue;
                                        gval_t got; lib_group(vbi, c, g, &got);
                                        if (memcmp(&got, &last[c][g], sizeof got)) {
                                                char a[200], b[200]; gval_text(&got, a, sizeof a); gval_text(&last[c][g], b, sizeof b);
                                                anomaly(&rc, "after three cycles the information is incomplete", 0, "class %d %s = [%s], sent [%s]", c, group_name[g], a, b);
                                                ok = 0;
                                        }
                                }
                }
        }
        for (int k = 0; k < m.nkeys; k++) if (m.part[m.keys[k]].reason > R_NEVER && m.part[m.keys[k]].reason != R_DELIVERED) rs->reasons |= 1u << m.part[m.keys[k]].reason;
        rs->rejected += 0;
        if (nevents[0] + nevents[1] + nevents[2]) rs->reasons |= 1u << 20;
        if (fresh) vbi_decoder_delete(vbi);
        return ok;
}

/* ------------------------------------------------------- stream execution */

static uint64_t n_streams[3], n_pairs[3];

static void run_stream(const stream_t *s, int impls, const char *fault, const svcopt_t *opt, const char *what)
{
        char st[600];
        uint64_t h = mc_hash64(s->p, sizeof(pair_t) * s->n);
        int any = 0;
        for (int impl = IMPL_DEMUX; impl <= IMPL_SVC; impl++) {
                if (!(impls & impl)) continue;
                stream_str(s, st, sizeof st);
                mc_case(impl == IMPL_DEMUX ? "xds_demux: stream" : "service decoder: stream", "%s%s%s; stream: %s", what, fault ? "; fault: " : "", fault ? fault : "", st);
                runstat_t rs = { 0, 0, 0 };
                int ok = impl == IMPL_DEMUX ? run_demux(s, fault, &rs) : run_svc(s, fault, opt, &rs);
                n_streams[impl]++; n_pairs[impl] += s->n;
                mc_outcome("%s %s: %s;%s%s%s%s%s%s%s", impl == IMPL_DEMUX ? "demux" : "svc", ok ? "ok" : "ANOMALY",
                           rs.delivered ? "completed" : "none completed",
                           rs.reasons & (1u << R_CHK) ? " bad-checksum" : "", rs.reasons & (1u << R_TOOLONG) ? " >32-bytes" : "",
                           rs.reasons & (1u << R_PARITY) ? " parity" : "", rs.reasons & (1u << R_NOCUR) ? " stray-terminator" : "",
                           rs.reasons & (1u << R_EMPTY) ? " empty" : "", rs.reasons & (1u << R_NONE) ? " left-open" : "",
                           rs.reasons & (1u << 20) ? " announced" : "");
                any = 1;
        }
        if (any) mc_distinct(h ^ ((uint64_t) impls << 56));
}

static void flush_counts(void)
{
        svc_end_of_case();
        mc_count("evaluations", n_streams[1] + n_streams[2]);
        mc_count("states", n_streams[1] + n_streams[2]);
        mc_count("transitions", n_pairs[1] + n_pairs[2]);
        mc_count("streams_xds_demux", n_streams[1]);
        mc_count("streams_service_decoder", n_streams[2]);
        mc_count("anomalous_streams", n_anomalies);
        n_streams[1] = n_streams[2] = n_pairs[1] = n_pairs[2] = 0; n_anomalies = 0;
}

/* ----------------------------------------------------- enumeration helpers */

/* all compositions of L into <= 3 positive parts; returns count, fills shapes[][4] = {nseg, a, b, c} */
static int compositions(int L, int (*out)[4], int cap)
{
        int n = 0;
        if (L == 0) { if (cap) { out[0][0] = 1; out[0][1] = 0; out[0][2] = out[0][3] = 0; } return 1; }
        if (n < cap) { out[n][0] = 1; out[n][1] = L; out[n][2] = out[n][3] = 0; } n++;
        for (int a = 1; a < L; a++) { if (n < cap) { out[n][0] = 2; out[n][1] = a; out[n][2] = L - a; out[n][3] = 0; } n++; }
        for (int a = 1; a < L; a++) for (int b = 1; a + b < L; b++) { if (n < cap) { out[n][0] = 3; out[n][1] = a; out[n][2] = b; out[n][3] = L - a - b; } n++; }
        return n;
}

typedef struct {
        int nthreads, units[5];
        int order[32], total;
        void (*fn)(const int *order, int n, void *arg); void *arg;
} merge_t;

static void merges_rec(merge_t *m, int *rem, int pos)
{
        if (pos == m->total) { m->fn(m->order, pos, m->arg); return; }
        for (int t = 0; t < m->nthreads; t++)
                if (rem[t]) { rem[t]--; m->order[pos] = t; merges_rec(m, rem, pos + 1); rem[t]++; }
}
static void merges(merge_t *m)
{
        int rem[5]; m->total = 0;
        for (int t = 0; t < m->nthreads; t++) { rem[t] = m->units[t]; m->total += rem[t]; }
        if (m->total > 32) die("merge too long");
        merges_rec(m, rem, 0);
}

/* builds cycles x (order of units) for np packets; thread np = caption bursts, np+1 = null pairs */
static void build(stream_t *s, const pkt_t *pk, int np, const int *order, int n, int cycles)
{
        s->n = 0;
        for (int cy = 0; cy < cycles; cy++) {
                int next[4] = { 0, 0, 0, 0 };
                for (int i = 0; i < n; i++) {
                        int t = order[i];
                        if (t < np) emit_seg(s, &pk[t], t, next[t]++);
                        else if (t == np) emit_caption(s, 0x14, 0x2C);
                        else push(s, 0, 0, K_NULL, -1);
                }
        }
}

/* semantic contents for the types the service decoder interprets */
static int canned(pkt_t *p, int variant)
{
        static const uint8_t len4[] = { 0x40 | 30, 0x40 | 1, 0x40 | 15, 0x40 | 0 }, len2[] = { 0x40 | 45, 0x40 | 2 }, len5[] = { 0x40 | 5, 0x40 | 3, 0x40 | 59, 0x40 | 1, 0x40 | 33 };
        static const uint8_t rat1[] = { 0x43, 0x40 }, rat2[] = { 0x68, 0x6D };
        static const uint8_t aud[] = { 0x40 | (1 << 3) | 3, 0x40 | (4 << 3) | 2 };
        static const uint8_t caps[] = { 0x40 | (1 << 3) | 0, 0x40 | (5 << 3) | 6, 0x40 | (1 << 3) | 1 };
        const uint8_t *src = NULL; int n = 0;
        if (p->cls > 1) return 0;
        switch (p->type) {
        case 2: if (variant % 3 == 0) { src = len4; n = 4; } else if (variant % 3 == 1) { src = len2; n = 2; } else { src = len5; n = 5; } break;
        case 5: if (variant & 1) { src = rat2; n = 2; } else { src = rat1; n = 2; } break;
        case 6: src = aud; n = 2; break;
        case 7: src = caps; n = 3; break;
        default: return 0;
        }
        memcpy(p->d, src, n); p->len = n; p->nseg = 1; p->seg[0] = n;
        return 1;
}

/* =================================================================== phases */

/* ---- phase single-matrix: every (class,type), lengths at the limits, simple cuts */

static void single_matrix_case(uint64_t idx, void *arg)
{
        static const int lens[] = { 1, 2, 3, 31, 32, 33, 34, 40 };
        pkt_t pk; memset(&pk, 0, sizeof pk);
        pk.cls = idx / 128; pk.type = idx % 128;
        stream_t s;
        svcopt_t opt = { 1, 2 };
        for (unsigned li = 0; li < sizeof lens / sizeof *lens; li++) {
                int L = lens[li];
                int shapes[12][3], ns = 0;
                shapes[ns][0] = L; shapes[ns][1] = 0; shapes[ns++][2] = 0;
                for (int tail = 1; tail <= 3 && tail < L; tail++) { shapes[ns][0] = L - tail; shapes[ns][1] = tail; shapes[ns++][2] = 0; }
                if (L > 4) { shapes[ns][0] = 1; shapes[ns][1] = L - 1; shapes[ns++][2] = 0; }
                if (L > 4) { shapes[ns][0] = L - 2; shapes[ns][1] = 1; shapes[ns++][2] = 1; }
                if (L > 4) { shapes[ns][0] = L - 3; shapes[ns][1] = 1; shapes[ns++][2] = 2; }
                if (L > 4) { shapes[ns][0] = L - 3; shapes[ns][1] = 2; shapes[ns++][2] = 1; }
                for (int k = 0; k < ns; k++) {
                        int seg[3], n = 0; for (int j = 0; j < 3; j++) if (shapes[k][j]) seg[n++] = shapes[k][j];
                        set_shape(&pk, n, seg);
                        fill_content(&pk, (int)(idx & 1), (int) idx);
                        int order[3] = { 0, 0, 0 };
                        build(&s, &pk, 1, order, pk.nseg, 2);
                        run_stream(&s, IMPL_DEMUX | IMPL_SVC, NULL, &opt, "single packet sent twice");
                }
                /* the same (class,type) re-sent with other, shorter contents: long, short, long */
                if (L >= 2 && L <= 32) {
                        pkt_t q = pk; int seg[1] = { L }, seg2[1] = { L - 1 };
                        set_shape(&pk, 1, seg); fill_content(&pk, 0, (int) idx);
                        set_shape(&q, 1, seg2); fill_content(&q, 1, (int) idx + 5);
                        s.n = 0; emit_seg(&s, &pk, 0, 0); emit_seg(&s, &q, 1, 0); emit_seg(&s, &pk, 0, 0);
                        run_stream(&s, IMPL_DEMUX | IMPL_SVC, NULL, &opt, "same (class,type) sent long, short, long");
                }
        }
        if (idx == 3 || idx == 0x110) mc_sample("single-matrix: class %d type 0x%02x, lengths 1,2,3,31,32,33,34,40, cuts [L],[L-1,1],[L-2,2],[L-3,3],[1,L-1],[L-2,1,1],[L-3,1,2],[L-3,2,1], each sent twice", pk.cls, pk.type);
        flush_counts();
}

/* ---- phase single-lengths: representative keys, all lengths 0..40, all <=3-segment cuts */

static const int sl_keys[][3] = {              /* class, type, impls */
        { 0, 0x10, 3 }, { 2, 0x01, 3 }, { 1, 0x03, 3 }, { 3, 0x43, 1 }, { 0, 0x17, 3 }, { 3, 0x01, 1 },
        { 1, 0x10, 3 }, { 0, 0x03, 3 }, { 2, 0x02, 3 }, { 0, 0x0D, 1 }, { 1, 0x17, 3 }, { 2, 0x04, 1 },
};
static int sl_nkeys;

static void single_lengths_case(uint64_t idx, void *arg)
{
        int ki = idx / 41, L = idx % 41;
        static int shapes[800][4];
        int ns = compositions(L, shapes, 800);
        if (ns > 800) die("compositions");
        pkt_t pk; memset(&pk, 0, sizeof pk);
        pk.cls = sl_keys[ki][0]; pk.type = sl_keys[ki][1];
        stream_t s;
        svcopt_t opt = { 1, 2 };
        for (int k = 0; k < ns; k++) {
                set_shape(&pk, shapes[k][0], &shapes[k][1]);
                for (int fam = 0; fam < (mc_tier == MC_THOROUGH ? 2 : 1); fam++) {
                        fill_content(&pk, fam, ki + 3);
                        int order[3] = { 0, 0, 0 };
                        build(&s, &pk, 1, order, pk.nseg, 2);
                        run_stream(&s, sl_keys[ki][2], NULL, &opt, "single packet, all cuts, sent twice");
                }
        }
        if (L >= 2 && L <= 33) {
                pkt_t q = pk; int seg[1] = { L }, seg2[2] = { (L - 1) / 2 + 1, 0 };
                seg2[1] = L - 1 - seg2[0];
                set_shape(&pk, 1, seg); fill_content(&pk, 0, ki + 3);
                set_shape(&q, seg2[1] ? 2 : 1, seg2); fill_content(&q, 1, ki + 8);
                s.n = 0; emit_seg(&s, &pk, 0, 0);
                for (int k = 0; k < q.nseg; k++) emit_seg(&s, &q, 1, k);
                emit_seg(&s, &pk, 0, 0);
                run_stream(&s, sl_keys[ki][2], NULL, &opt, "same (class,type) sent long, short (cut in two), long");
        }
        if (L == 32 && ki == 0) mc_sample("single-lengths: (%d,0x%02x) length %d: all %d cuts into <=3 segments, each stream = packet sent twice", pk.cls, pk.type, L, ns);
        flush_counts();
}

/* ---- phase interleave: 2..3 packets + caption burst, all merges */

typedef struct { int np; int keys[3][2]; } keyset_t;
static const keyset_t keysets[] = {
        { 3, { { 0, 0x10 }, { 0, 0x11 }, { 2, 0x01 } } },         /* neighbouring slots + channel name */
        { 3, { { 1, 0x03 }, { 0, 0x03 }, { 2, 0x02 } } },         /* same type in two classes + call letters */
        { 3, { { 0, 0x17 }, { 1, 0x10 }, { 3, 0x01 } } },
};

typedef struct { pkt_t pk[3]; int np, cycles, impls; const char *what; svcopt_t opt; uint64_t count; } il_arg_t;

static void il_fn(const int *order, int n, void *arg)
{
        il_arg_t *a = arg;
        static stream_t s;
        build(&s, a->pk, a->np, order, n, a->cycles);
        run_stream(&s, a->impls, NULL, &a->opt, a->what);
        a->count++;
}

/* small shapes: all compositions of L = 1..maxL */
static int small_shapes(int maxL, int (*out)[4], int cap)
{
        int n = 0;
        for (int L = 1; L <= maxL; L++) n += compositions(L, out + n, cap - n);
        return n;
}

/* shapes that end at the 32 byte limit */
static const int limit_shapes[][4] = {
        { 1, 32, 0, 0 }, { 2, 31, 1, 0 }, { 2, 30, 2, 0 }, { 3, 30, 1, 1 }, { 3, 29, 2, 1 }, { 3, 29, 1, 2 },
        { 1, 33, 0, 0 }, { 2, 32, 1, 0 }, { 2, 31, 2, 0 }, { 3, 31, 1, 1 }, { 3, 30, 2, 1 }, { 3, 30, 1, 2 }, { 3, 29, 2, 2 }, { 3, 29, 3, 1 },
};
#define N_LIMIT ((int)(sizeof limit_shapes / sizeof *limit_shapes))

typedef struct { int kind, ks, s0, s1, s2, ncap; } il_cfg_t;   /* kind 0: pair, 1: triple, 2: limit */
static il_cfg_t *il_cfgs; static uint64_t il_ncfg;
static int shapes4[32][4], nshapes4, nshapes2, nshapes3;

static void il_plan(void)
{
        nshapes4 = small_shapes(4, shapes4, 32);       /* 14 */
        nshapes2 = 3; nshapes3 = 7;
        int thorough = mc_tier == MC_THOROUGH;
        int nks = thorough ? 3 : 1;
        int ntrip = thorough ? nshapes4 : nshapes2;
        uint64_t cap = (uint64_t) nks * (nshapes4 * nshapes4 * 2 + (uint64_t) ntrip * ntrip * ntrip * 2 + N_LIMIT * nshapes4 * 2) + 16;
        il_cfgs = calloc(cap, sizeof *il_cfgs);
        for (int ks = 0; ks < nks; ks++) {
                for (int a = 0; a < nshapes4; a++) for (int b = 0; b < nshapes4; b++) for (int nc = 0; nc < 2; nc++)
                        il_cfgs[il_ncfg++] = (il_cfg_t) { 0, ks, a, b, 0, nc };
                for (int a = 0; a < ntrip; a++) for (int b = 0; b < ntrip; b++) for (int c = 0; c < ntrip; c++) {
                        /* thorough: all shapes up to 4 bytes, but at most 7 segments in total keep a case under a few seconds */
                        if (thorough && shapes4[a][0] + shapes4[b][0] + shapes4[c][0] > 7) continue;
                        il_cfgs[il_ncfg++] = (il_cfg_t) { 1, ks, a, b, c, 1 };
                }
                for (int a = 0; a < N_LIMIT; a++) for (int b = 0; b < nshapes4; b++) for (int nc = 0; nc < 2; nc++)
                        il_cfgs[il_ncfg++] = (il_cfg_t) { 2, ks, a, b, 0, nc };
        }
        if (il_ncfg > cap) die("il_plan");
}

static void interleave_case(uint64_t idx, void *arg)
{
        const il_cfg_t *c = &il_cfgs[idx];
        const keyset_t *ks = &keysets[c->ks];
        static il_arg_t a; memset(&a, 0, sizeof a);
        a.np = c->kind == 1 ? 3 : 2; a.cycles = 2; a.impls = IMPL_DEMUX | IMPL_SVC;
        a.opt = (svcopt_t) { 1, 2 };
        a.what = c->kind == 0 ? "two packets + caption, all merges, sent twice" : c->kind == 1 ? "three packets + caption, all merges, sent twice" : "packet at the 32 byte limit + neighbour, all merges, sent twice";
        const int *sh[3] = { c->kind == 2 ? limit_shapes[c->s0] : shapes4[c->s0], shapes4[c->s1], shapes4[c->s2] };
        for (int i = 0; i < a.np; i++) {
                a.pk[i].cls = ks->keys[i][0]; a.pk[i].type = ks->keys[i][1];
                set_shape(&a.pk[i], sh[i][0], &sh[i][1]);
                fill_content(&a.pk[i], (int)((idx + i) & 1), i + 1 + 3 * c->ks);
        }
        merge_t m; memset(&m, 0, sizeof m);
        m.nthreads = a.np + 1;
        for (int i = 0; i < a.np; i++) m.units[i] = a.pk[i].nseg;
        m.units[a.np] = c->ncap;
        m.fn = il_fn; m.arg = &a;
        merges(&m);
        if (c->kind == 0 && c->s0 == 5 && c->s1 == 2 && c->ncap == 1) {
                char st[600]; stream_t b; int order[5] = { 0, 1, 2, 0, 1 };
                build(&b, a.pk, 2, order, 5, 1); stream_str(&b, st, sizeof st);
                mc_sample("interleave stream (one cycle, hex pairs): %s = start(0,0x10) 2 bytes | start(0,0x11) 1 byte+filler | caption control, text | continue(0,0x10) 1 byte+filler, terminator | continue(0,0x11) 1 byte+filler, terminator", st);
        }
        if ((c->kind == 1 && c->ks == 0 && c->s0 == 2 && c->s1 == 2 && c->s2 == 1) || (c->kind == 2 && c->ks == 0 && c->s0 == 1 && c->s1 == 4 && c->ncap == 1))
                mc_sample("interleave: (%d,0x%02x) cut %d|%d|%d x (%d,0x%02x) cut %d|%d|%d%s + %d caption burst(s): %llu merges x 2 cycles", a.pk[0].cls, a.pk[0].type,
                          a.pk[0].seg[0], a.pk[0].nseg > 1 ? a.pk[0].seg[1] : 0, a.pk[0].nseg > 2 ? a.pk[0].seg[2] : 0, a.pk[1].cls, a.pk[1].type,
                          a.pk[1].seg[0], a.pk[1].nseg > 1 ? a.pk[1].seg[1] : 0, a.pk[1].nseg > 2 ? a.pk[1].seg[2] : 0, a.np == 3 ? " x third packet" : "", c->ncap,
                          (unsigned long long) a.count);
        flush_counts();
}

/* ---- phase interrupt-matrix: a documented packet interrupted by every (class,type), by every caption control code, by nulls */

static const int q_keys[][3] = { { 0, 0x10, 3 }, { 0, 0x03, 3 }, { 3, 0x43, 1 }, { 2, 0x01, 3 }, { 1, 0x17, 3 }, { 3, 0x01, 1 }, { 0, 0x0D, 1 }, { 1, 0x02, 3 } };
#define N_QKEYS 8

static void interrupt_case(uint64_t idx, void *arg)
{
        stream_t s;
        svcopt_t opt = { 1, 2 };
        int nq = mc_tier == MC_THOROUGH ? N_QKEYS : 5;
        if (idx < 896) {
                int uc = idx / 128, ut = idx % 128;
                for (int qi = 0; qi < nq; qi++) {
                        if (q_keys[qi][0] == uc && q_keys[qi][1] == ut) continue;       /* same key twice in flight is not a legal sender */
                        pkt_t pk[2]; memset(pk, 0, sizeof pk);
                        pk[0].cls = q_keys[qi][0]; pk[0].type = q_keys[qi][1];
                        pk[1].cls = uc; pk[1].type = ut;
                        static const int qshape[2][4] = { { 2, 2, 2, 0 }, { 3, 1, 2, 3 } };
                        static const int ushape[3][4] = { { 1, 2, 0, 0 }, { 2, 2, 1, 0 }, { 2, 1, 3, 0 } };
                        for (int v = 0; v < 3; v++) {
                                set_shape(&pk[0], qshape[v & 1][0], &qshape[v & 1][1]);
                                if (!canned(&pk[0], v)) fill_content(&pk[0], 0, qi + 1);
                                else if (v) continue;
                                set_shape(&pk[1], ushape[v][0], &ushape[v][1]);
                                fill_content(&pk[1], 1, 9 + v);
                                merge_t m; memset(&m, 0, sizeof m);
                                il_arg_t a; memset(&a, 0, sizeof a);
                                a.np = 2; a.cycles = 2; a.impls = q_keys[qi][2]; a.opt = opt; a.pk[0] = pk[0]; a.pk[1] = pk[1];
                                a.what = "documented packet interleaved with a packet of every (class,type)";
                                m.nthreads = 2; m.units[0] = pk[0].nseg; m.units[1] = pk[1].nseg; m.fn = il_fn; m.arg = &a;
                                merges(&m);
                        }
                }
                if (idx == 4 * 128 + 1 || idx == 0x40) mc_sample("interrupt-matrix: %d documented packets (cuts 2|2, 1|2|3) x packet (%d,0x%02x) (cuts 2, 2|1, 1|3), all merges, 2 cycles", nq, uc, ut);
        } else {
                /* caption control codes 0x10..0x1F x second byte, and null pairs, between the segments */
                int c1 = 0x10 + (int)(idx - 896);
                for (int qi = 0; qi < nq; qi++) {
                        pkt_t pk; memset(&pk, 0, sizeof pk);
                        pk.cls = q_keys[qi][0]; pk.type = q_keys[qi][1];
                        int seg[3] = { 2, 1, 2 }; set_shape(&pk, 3, seg);
                        if (canned(&pk, 0)) { int seg2[2] = { pk.len - 1, 1 }; set_shape(&pk, 2, seg2); }
                        else fill_content(&pk, 0, qi + 1);
                        for (int c2 = 0x20; c2 <= 0x7F; c2++) {
                                s.n = 0;
                                for (int cy = 0; cy < 2; cy++)
                                        for (int k = 0; k < pk.nseg; k++) {
                                                emit_seg(&s, &pk, 0, k);
                                                if (k < pk.nseg - 1) { if ((c2 + k) & 1) push(&s, 0, 0, K_NULL, -1); emit_caption(&s, c1, c2); }
                                                else push(&s, 0, 0, K_NULL, -1);
                                        }
                                run_stream(&s, q_keys[qi][2], NULL, &opt, "documented packet interrupted by a caption control code");
                        }
                }
                if (c1 == 0x14) mc_sample("interrupt-matrix: caption control 0x%02x x second byte 0x20..0x7f (+ null pairs) between the segments of %d documented packets", c1, nq);
        }
        flush_counts();
}

/* ---- phase faults: one fault per stream, every position, balanced contents */

static const int f_shapes0[][4] = { { 1, 4, 0, 0 }, { 2, 2, 2, 0 }, { 2, 1, 3, 0 }, { 2, 3, 1, 0 }, { 1, 6, 0, 0 }, { 2, 2, 4, 0 }, { 2, 4, 2, 0 }, { 3, 2, 2, 2 }, { 2, 3, 3, 0 }, { 1, 8, 0, 0 }, { 2, 6, 2, 0 }, { 2, 4, 4, 0 } };
static const int f_shapes1[][4] = { { 1, 2, 0, 0 }, { 2, 1, 1, 0 }, { 1, 4, 0, 0 }, { 2, 2, 2, 0 } };
#define N_FS0 12
#define N_FS1 4

typedef struct { pkt_t pk[2]; int impls; svcopt_t opt; } f_arg_t;

static void apply_fault_and_run(const stream_t *base, const f_arg_t *a)
{
        static stream_t s;
        static const char *kinds[4] = { "dropped", "first byte with bad parity in", "second byte with bad parity in", "checksum off by one in" };
        for (int pos = 0; pos < base->n; pos++) {
                for (int fk = 0; fk < 6; fk++) {
                        if ((fk == 3 || fk == 4) && base->p[pos].kind != K_END) continue;
                        if (base->p[pos].kind == K_NULL) continue;
                        if (fk == 5 && !(a->impls & IMPL_DEMUX)) continue;
                        s = *base;
                        char fault[96];
                        if (fk == 0) { memmove(&s.p[pos], &s.p[pos + 1], (s.n - pos - 1) * sizeof(pair_t)); s.n--; snprintf(fault, sizeof fault, "dropped %s pair", kind_name[base->p[pos].kind]); }
                        else if (fk <= 2) { s.p[pos].bad = fk; snprintf(fault, sizeof fault, "parity error in %s pair", kind_name[base->p[pos].kind]); }
                        else if (fk <= 4) { s.p[pos].b = (s.p[pos].b + (fk == 3 ? 1 : 127)) & 127; snprintf(fault, sizeof fault, "checksum off by one"); }
                        else { s.p[pos].reset_before = 1; snprintf(fault, sizeof fault, "vbi_xds_demux_reset() before a %s pair", kind_name[base->p[pos].kind]); }
                        (void) kinds;
                        run_stream(&s, fk == 5 ? IMPL_DEMUX : a->impls, fault, &a->opt, "two packets + caption with one fault");
                }
        }
}

static void f_fn(const int *order, int n, void *arg)
{
        f_arg_t *a = arg;
        static stream_t base;
        build(&base, a->pk, 2, order, n, 2);
        apply_fault_and_run(&base, a);
}

static const int f_keys[][2][2] = { { { 0, 0x10 }, { 0, 0x11 } }, { { 2, 0x01 }, { 0, 0x03 } }, { { 1, 0x17 }, { 3, 0x01 } } };

#define F_NBAL 5         /* balance variant: 0 = plain, k = running sum of packet 0 returns to zero after its data pair k-1 */

static void faults_case(uint64_t idx, void *arg)
{
        int nfs1 = mc_tier == MC_THOROUGH ? N_FS1 : 2;
        int bal = (int)(idx % F_NBAL) - 1; idx /= F_NBAL;
        int s0 = idx % N_FS0, s1 = (idx / N_FS0) % nfs1, kk = idx / (N_FS0 * nfs1);
        static f_arg_t a; memset(&a, 0, sizeof a);
        a.impls = IMPL_DEMUX | IMPL_SVC; a.opt = (svcopt_t) { 0, 2 };
        for (int i = 0; i < 2; i++) { a.pk[i].cls = f_keys[kk][i][0]; a.pk[i].type = f_keys[kk][i][1]; }
        set_shape(&a.pk[0], f_shapes0[s0][0], &f_shapes0[s0][1]);
        set_shape(&a.pk[1], f_shapes1[s1][0], &f_shapes1[s1][1]);
        int np0 = pkt_npairs(&a.pk[0]);
        if (np0 > F_NBAL - 1) die("F_NBAL");
        fill_content(&a.pk[0], 0, 1 + kk); fill_content(&a.pk[1], 1, 5 + kk);
        if (bal >= np0) { flush_counts(); return; }
        if (bal >= 0 && !balance(&a.pk[0], chars_after_pair(&a.pk[0], bal))) { flush_counts(); return; }
        if (bal >= 0 && a.pk[1].len >= 2) balance(&a.pk[1], a.pk[1].seg[0] >= 2 ? a.pk[1].seg[0] : a.pk[1].len);
        merge_t m; memset(&m, 0, sizeof m);
        m.nthreads = 3; m.units[0] = a.pk[0].nseg; m.units[1] = a.pk[1].nseg; m.units[2] = 1; m.fn = f_fn; m.arg = &a;
        merges(&m);
        if (s0 == 1 && s1 == 0 && bal == 0) {
                char st[600]; stream_t b; int order[4] = { 0, 2, 1, 0 };
                build(&b, a.pk, 2, order, 4, 2); b.p[1].bad = 1; stream_str(&b, st, sizeof st);
                mc_sample("faults: (%d,0x%02x) cut %d|%d + (%d,0x%02x) + caption burst, all merges x 2 cycles; every pair dropped / either byte bad parity, every checksum +-1; contents plain or balanced after one data pair; e.g. %s",
                          a.pk[0].cls, a.pk[0].type, a.pk[0].seg[0], a.pk[0].seg[1], a.pk[1].cls, a.pk[1].type, st);
        }
        flush_counts();
}

/* ---- phase announce (service decoder): ordered sets of programme / network packets, three cycles */

static const int an_keys[][2] = { { 0, 3 }, { 0, 2 }, { 0, 5 }, { 0, 6 }, { 0, 7 }, { 0, 0x12 }, { 2, 1 }, { 2, 2 }, { 1, 3 }, { 1, 2 } };
#define N_AN 10

static void announce_case(uint64_t idx, void *arg)
{
        /* idx = ordered selection of up to 4 distinct entries: digits base (N_AN+1), 0 = end */
        int sel[4], n = 0; uint64_t x = idx;
        for (int i = 0; i < 4; i++) { int d = x % (N_AN + 1); x /= N_AN + 1; if (!d) break; sel[n++] = d - 1; }
        /* canonical: no digit after a 0, no duplicates */
        uint64_t y = idx; int seen_end = 0;
        for (int i = 0; i < 4; i++) { int d = y % (N_AN + 1); y /= N_AN + 1; if (!d) seen_end = 1; else if (seen_end) return; }
        for (int i = 0; i < n; i++) for (int j = 0; j < i; j++) if (sel[i] == sel[j]) return;
        if (n == 0) return;
        pkt_t pk[4]; memset(pk, 0, sizeof pk);
        stream_t s;
        for (int variant = 0; variant < 2; variant++) {
                for (int i = 0; i < n; i++) {
                        pk[i].cls = an_keys[sel[i]][0]; pk[i].type = an_keys[sel[i]][1];
                        if (!canned(&pk[i], variant + i)) { int seg[2] = { 5 + 2 * i + variant, 0 }; set_shape(&pk[i], 1, seg); fill_content(&pk[i], variant, sel[i] + 1); }
                }
                s.n = 0;
                for (int cy = 0; cy < 3; cy++)
                        for (int i = 0; i < n; i++) { emit_seg(&s, &pk[i], i, 0); if (variant) emit_caption(&s, 0x14, 0x2C); }
                svcopt_t opt = { 1, 3, 1 };
                run_stream(&s, IMPL_SVC, NULL, &opt, "ordered set of programme/network packets, three cycles");
        }
        if (n == 4 && sel[0] == 0 && sel[1] == 6 && sel[2] == 1 && sel[3] == 7) mc_sample("announce: title, network name, length, call letters x 3 cycles, whole packets, without and with caption bursts between");
        flush_counts();
}

/* ---- phase announce-history (service decoder): one (class,type) changes its content to a proper prefix, to an
 * extension, to other bytes of the same length; every content is repeated; constant companions before / after */

static const int hk_keys[][2] = { { 0, 3 }, { 1, 3 }, { 0, 0x10 }, { 0, 0x17 }, { 1, 0x12 }, { 2, 1 }, { 2, 2 } };
#define N_HK 7
#define HK_MINLEN 2
#define HK_MAXLEN 32

/* companions of key k: class, type (class -1 = none) */
static void hk_companions(int k, int comp[3][2])
{
        int c = hk_keys[k][0], t = hk_keys[k][1];
        for (int i = 0; i < 3; i++) comp[i][0] = -1;
        if (c == 2 && t == 2) { comp[0][0] = 2; comp[0][1] = 1; return; }         /* call letters are announced by the name packet */
        if (c == 2) { comp[1][0] = 2; comp[1][1] = 2; comp[2][0] = 0; comp[2][1] = 3; comp[0][0] = -2; return; }
        comp[0][0] = -2;                                                          /* -2: run without companion */
        if (t == 3) { comp[1][0] = c; comp[1][1] = 0x13; comp[2][0] = 2; comp[2][1] = 1; }
        else { comp[1][0] = c; comp[1][1] = 3; comp[2][0] = c; comp[2][1] = 0x15; }
}

static void hk_run(const pkt_t *contents, const int *hist, int nh, const pkt_t *comp, int order, int caption, const char *what)
{
        static stream_t s;
        svcopt_t opt = { 1, 0, 1 };
        s.n = 0;
        for (int i = 0; i < nh; i++) {
                if (comp && order == 0) emit_seg(&s, comp, 1, 0);
                emit_seg(&s, &contents[hist[i]], 0, 0);
                if (caption) emit_caption(&s, 0x14, 0x2C);
                if (comp && order == 1) emit_seg(&s, comp, 1, 0);
        }
        run_stream(&s, IMPL_SVC, NULL, &opt, what);
}

static void announce_history_case(uint64_t idx, void *arg)
{
        int k = idx / (HK_MAXLEN - HK_MINLEN + 1), La = HK_MINLEN + idx % (HK_MAXLEN - HK_MINLEN + 1);
        int c = hk_keys[k][0], t = hk_keys[k][1];
        int minlen = t == 3 && c < 2 ? 2 : 1;                 /* a programme name has at least two characters */
        int comps[3][2]; hk_companions(k, comps);
        pkt_t ct[2]; memset(ct, 0, sizeof ct);
        uint64_t nstreams = 0;
        for (int ci = 0; ci < 3; ci++) {
                if (comps[ci][0] == -1) continue;
                pkt_t comp; memset(&comp, 0, sizeof comp);
                int have_comp = comps[ci][0] >= 0;
                if (have_comp) { comp.cls = comps[ci][0]; comp.type = comps[ci][1]; int seg[1] = { 6 }; set_shape(&comp, 1, seg); fill_content(&comp, 1, 3 + ci); }
                for (int order = 0; order < (have_comp ? 2 : 1); order++) {
                        int caption = (La + order + ci) & 1;
                        /* A of La bytes; B = proper prefix of A */
                        for (int Lb = minlen; Lb < La; Lb++) {
                                for (int i = 0; i < 2; i++) { ct[i].cls = c; ct[i].type = t; }
                                int sa[1] = { La }, sb[1] = { Lb };
                                set_shape(&ct[0], 1, sa); fill_content(&ct[0], 0, k + 1);
                                set_shape(&ct[1], 1, sb); memcpy(ct[1].d, ct[0].d, Lb);
                                static const int h1[] = { 0, 0, 1, 1, 1, 0, 0, 0 };        /* announced, then prefix x3, then back (extension) x3 */
                                static const int h2[] = { 1, 1, 0, 0, 0 };                 /* short announced, then its extension x3 */
                                hk_run(ct, h1, 8, have_comp ? &comp : NULL, order, caption, "content history: long, long, prefix x3, long x3");
                                hk_run(ct, h2, 5, have_comp ? &comp : NULL, order, caption, "content history: short, short, extension x3");
                                nstreams += 2;
                        }
                        /* same length, one byte different at the first / middle / last position */
                        for (int pv = 0; pv < 3; pv++) {
                                int pos = pv == 0 ? 0 : pv == 1 ? La / 2 : La - 1;
                                if (pv == 1 && (pos == 0 || pos == La - 1)) continue;
                                for (int i = 0; i < 2; i++) { ct[i].cls = c; ct[i].type = t; int sa[1] = { La }; set_shape(&ct[i], 1, sa); fill_content(&ct[i], 0, k + 1); }
                                ct[1].d[pos] = ct[1].d[pos] == 0x7A ? 0x41 : 0x7A;
                                static const int h3[] = { 0, 0, 1, 1, 1 };
                                hk_run(ct, h3, 5, have_comp ? &comp : NULL, order, caption, "content history: A, A, B x3 (same length)");
                                nstreams++;
                        }
                }
        }
        if ((k == 0 && La == 16) || (k == 5 && La == 9))
                mc_sample("announce-history: (%d,0x%02x) content of %d bytes x2, then each proper prefix (%d..%d bytes) x3, then the long one x3; short x2 then extension x3; one byte changed x3; alone / with constant companion before / after, with and without caption bursts: %llu streams",
                          c, t, La, minlen, La - 1, (unsigned long long) nstreams);
        flush_counts();
}

/* ------------------------------------------------------------------- main */

int main(int argc, char **argv)
{
        mc_init(argc, argv, "C09");
        mc_set_budget(240, 1700);
        int thorough = mc_tier == MC_THOROUGH;
        mc_meta("level", "model_checking");
        mc_meta("technique", "stateless bounded-exhaustive enumeration of sender streams (cut points x merge orders x single faults) executed pair by pair on fresh real decoders in lock step with a reference reassembler; state audit of the reassembly slots after every pair; ASan/UBSan");
        mc_meta("rule", "a stream = every merge order of the segments of 1..3 packets (each cut into <=3 segments, odd cuts padded with 0x00) with caption bursts / null pairs, sent in 2..3 cycles, optionally with one fault; distinct = distinct pair streams (hash of the pairs incl. parity flags); every stream reaches the reassembler (it starts with or contains a packet header); states = streams executed (both implementations), transitions = pairs fed");
        mc_meta("assume", "reference semantics are those of the received stream (EIA-608): a pair with bad parity ends the packet open at that moment; a continue code without a started packet, data after a caption control code and terminators without an open packet are ignored");
        mc_meta("assume", "a sender never has two unfinished packets of the same (class,type) in flight and uses 0x00 only as filler after an odd segment");
        mc_meta("assume", "xds_demux must deliver class<=MISC with a subclass named in xds_demux.h; the service decoder is observed for types 2,3,5,6,7,0x10..0x17 of CURRENT/FUTURE and 1,2 of CHANNEL; other pairs may be dropped or delivered, but intact and without effect on others");
        mc_meta("assume", "contents: position coded bytes 0x21..0x7E (two families) and contents balanced to a zero running sum after a chosen pair; not all 96^n contents");
        sl_nkeys = thorough ? 12 : 4;
        il_plan();
        int nfs1 = thorough ? N_FS1 : 2, nfk = thorough ? 3 : 1;
        mc_meta("bound", "single-matrix: 7x128 (class,type) x 8 lengths x <=8 cuts; single-lengths: %d keys x lengths 0..40 x all <=3-segment cuts; interleave: %llu configurations (2 packets of 1..4 bytes all cuts +-caption; 3 packets %s; 14 limit shapes x neighbour), all merges, 2 cycles; interrupt-matrix: %d documented packets x 896 interrupters x 3 cut pairs all merges, 16x96 caption control codes; faults: %d shape pairs x all merges x every pair x {drop, parity byte 1/2, checksum +-1} x balance points; announce: ordered selections of <=4 of 10 packets x 3 cycles; announce-history: 7 (class,type) x content lengths 2..32 x {every proper prefix x3 then back x3, extension x3, one byte changed x3} x {alone, constant companion before/after}",
                sl_nkeys, (unsigned long long) il_ncfg, thorough ? "of 1..4 bytes all cuts, <=7 segments in total" : "of 1..2 bytes all cuts", thorough ? N_QKEYS : 5, N_FS0 * nfs1 * nfk);

        mc_pool("single-matrix", 896, single_matrix_case, NULL, 60);
        mc_pool("single-lengths", (uint64_t) sl_nkeys * 41, single_lengths_case, NULL, 120);
        mc_pool("interleave", il_ncfg, interleave_case, NULL, 300);
        mc_pool("interrupt-matrix", 896 + 16, interrupt_case, NULL, 120);
        mc_pool("faults", (uint64_t) N_FS0 * nfs1 * nfk * F_NBAL, faults_case, NULL, 300);
        mc_pool("announce", (uint64_t)(N_AN + 1) * (N_AN + 1) * (N_AN + 1) * (N_AN + 1), announce_case, NULL, 60);
        mc_pool("announce-history", (uint64_t) N_HK * (HK_MAXLEN - HK_MINLEN + 1), announce_history_case, NULL, 120);
        return mc_finish();
}
