/* C05 - raw decoding never touches memory outside the raw image or the output array.
 *
 * Technique (DESIGN.md C05): the memory a bit slicer reads is a function of the
 * configured slicer state and of the CRI-search iteration at which CRI/FRC are
 * recognised; the image content only selects that iteration.  So
 *   (1) for every configuration (service row x sampling rate x samples_per_line x
 *       pixel format x sample_offset) the worst-case byte index is derived from the
 *       private slicer fields (skip, cri_samples, phase_shift, step, frc_bits,
 *       payload, bytes_per_sample; low-pass window 16) - independent restatement of
 *       the loops in bit_slicer.c / decoder.c - and compared with samples_per_line;
 *   (2) recognition is forced at every reachable iteration: a synthesised waveform
 *       of the service (soft = nominal levels and finite rise time, hard = 0x00/0xFF
 *       square wave) is placed at every horizontal shift, truncated at the line end,
 *       rest filled with {0x00,0xFF,0x80,checkerboard}, and sliced
 *         a. with the line ending exactly at a PROT_NONE guard page (precise,
 *            recoverable: the fault is caught, the over-read is attributed to a site,
 *            its extent is measured by moving the line away from the guard), and
 *         b. on an exactly sized heap block (mc_exact) under ASan: in process when
 *            (a) was clean, in a forked child (expected to abort) once per case and
 *            site when (a) faulted, so that one over-read does not end the exploration.
 *   The same is done for whole images (signal on the last line in memory) through
 *   vbi3_raw_decoder_decode() and the legacy vbi_raw_decode(), and for the legacy
 *   vbi_bit_slicer_init()/vbi_bit_slice().  Output side: payload buffers of exactly the
 *   payload size and sliced[] of exactly max_lines (0, 1, D-1, D of D decodable lines)
 *   records end at a second guard page (a write behind them is caught and keyed), then
 *   the same call runs on exact heap blocks under ASan; buffer_size smaller than the
 *   payload must be refused without a write (canary, then ASan); the sampling point
 *   arrays of the debug interface (caller's max_points, the decoder's points[512]) are
 *   exercised with long blank lines in a child under ASan.
 *
 * Oracle: a read past the end of the line / image (guard page fault confirmed by ASan)
 * or any ASan report.  The analytic bound alone is never a violation: where it is
 * exceeded but no image reaches it, that is logged ("bound exceeded, not reached").
 * Violation keys name the over-read SITE (slicer function + CRI-search/payload), never
 * the configuration.
 *
 * Deviations from DESIGN.md:
 *  - shifts: the full sweep s = 0..samples_per_line runs on a coarse rate grid; on the
 *    fine rate grid only the window of shifts around the CRI search limit (where the
 *    recognition iteration approaches cri_samples-1) is enumerated.  The recognition
 *    iteration actually reached is measured (sampling points API, Y8) and counted.
 *  - PAL8 is not enumerated: vbi3_bit_slicer_set_params() rejects it and the raw decoder
 *    then asserts - an abort, not a memory access (C01/C04 ground).
 *  - the legacy slicer cannot reject anything (returns void); it is only configured with
 *    raw_samples that vbi3_bit_slicer_set_params() admits for the same signal.
 *  - strict (0/1/2) and sp->offset are not varied: they only decide admission, the slicers never see them.
 *  - the window of template positions is placed relative to samples_per_line - data_samples as restated
 *    here (not relative to the tree's cri_samples), so that the set of lines is the same for every tree and
 *    the counters clean_decodes_in_fixed_line_set / clean_decodes_fingerprint_sum can be compared between
 *    the unchanged and a repaired tree ("which lines decode without over-read, and to what").
 *  - a "nominal" phase drives the library's own generator (_vbi_raw_vbi_image) through
 *    the raw decoder; it only counts decoded lines (functional clause = C04) so that a
 *    repair of the over-read can be shown not to refuse signals that decode today.
 */
#include <stdio.h>
#include <stdlib.h>
#include <string.h>
#include <signal.h>
#include <setjmp.h>
#include <unistd.h>
#include <fcntl.h>
#include <math.h>
#include <sys/mman.h>
#include <sys/wait.h>
#include "mc.h"
#include "src/misc.h"
#include "src/decoder.h"
#include "src/sampling_par.h"
#include "src/bit_slicer.h"
#include "src/raw_decoder.h"
#include "src/io-sim.h"

#if defined(__has_feature)
#  if __has_feature(address_sanitizer)
#    define HAVE_ASAN 1
#  endif
#endif
#if defined(__SANITIZE_ADDRESS__) && !defined(HAVE_ASAN)
#  define HAVE_ASAN 1
#endif
#ifndef HAVE_ASAN
#  define HAVE_ASAN 0
#endif

/* ------------------------------------------------------------------ formats */

struct fmtinfo { vbi_pixfmt f; const char *name; int bpp, goff; unsigned gmask; int be; };

/* byte layouts restated from the table in decoder.h (green / luma position) */
static const struct fmtinfo FM[] = {
        { VBI_PIXFMT_YUV420,   "YUV420",   1, 0, 0, 0 },
        { VBI_PIXFMT_YUYV,     "YUYV",     2, 0, 0, 0 },
        { VBI_PIXFMT_UYVY,     "UYVY",     2, 1, 0, 0 },
        { VBI_PIXFMT_RGB16_LE, "RGB16_LE", 2, 0, 0x07E0, 0 },
        { VBI_PIXFMT_RGB24,    "RGB24",    3, 1, 0, 0 },
        { VBI_PIXFMT_RGBA32_BE,"RGBA32_BE",4, 2, 0, 0 },
        /* -- the six above are the quick set -- */
        { VBI_PIXFMT_YVYU,     "YVYU",     2, 0, 0, 0 },
        { VBI_PIXFMT_VYUY,     "VYUY",     2, 1, 0, 0 },
        { VBI_PIXFMT_RGBA32_LE,"RGBA32_LE",4, 1, 0, 0 },
        { VBI_PIXFMT_BGRA32_LE,"BGRA32_LE",4, 1, 0, 0 },
        { VBI_PIXFMT_BGRA32_BE,"BGRA32_BE",4, 2, 0, 0 },
        { VBI_PIXFMT_BGR24,    "BGR24",    3, 1, 0, 0 },
        { VBI_PIXFMT_RGB16_BE, "RGB16_BE", 2, 0, 0x07E0, 1 },
        { VBI_PIXFMT_BGR16_LE, "BGR16_LE", 2, 0, 0x07E0, 0 },
        { VBI_PIXFMT_BGR16_BE, "BGR16_BE", 2, 0, 0x07E0, 1 },
        { VBI_PIXFMT_RGBA15_LE,"RGBA15_LE",2, 0, 0x03E0, 0 },
        { VBI_PIXFMT_RGBA15_BE,"RGBA15_BE",2, 0, 0x03E0, 1 },
        { VBI_PIXFMT_BGRA15_LE,"BGRA15_LE",2, 0, 0x03E0, 0 },
        { VBI_PIXFMT_BGRA15_BE,"BGRA15_BE",2, 0, 0x03E0, 1 },
        { VBI_PIXFMT_ARGB15_LE,"ARGB15_LE",2, 0, 0x07C0, 0 },
        { VBI_PIXFMT_ARGB15_BE,"ARGB15_BE",2, 0, 0x07C0, 1 },
        { VBI_PIXFMT_ABGR15_LE,"ABGR15_LE",2, 0, 0x07C0, 0 },
        { VBI_PIXFMT_ABGR15_BE,"ABGR15_BE",2, 0, 0x07C0, 1 },
};
#define NFMT_ALL   ((int)(sizeof FM / sizeof *FM))
#define NFMT_QUICK 6

static void y_to_fmt(const struct fmtinfo *fi, const uint8_t *y, int n, uint8_t *out)
{
        if (fi->gmask) {
                int gbits = __builtin_popcount(fi->gmask), gshift = __builtin_ctz(fi->gmask);
                for (int i = 0; i < n; i++) {
                        unsigned v = ((unsigned) y[i] >> (8 - gbits)) << gshift;
                        v |= ~fi->gmask & 0x8410;                 /* some red/blue/alpha bits: must be masked out */
                        out[2 * i + fi->be] = v & 255; out[2 * i + 1 - fi->be] = v >> 8;
                }
        } else if (fi->bpp == 1) {
                memcpy(out, y, n);
        } else {
                memset(out, 0x80, (size_t) n * fi->bpp);
                for (int i = 0; i < n; i++) out[i * fi->bpp + fi->goff] = y[i];
        }
}

/* ------------------------------------------------------------------ services */

#define MAXSVC 24
static const _vbi_service_par *SVC[MAXSVC];
static int nsvc;
static const char *svc_short(const _vbi_service_par *p)
{
        switch (p->id) {
        case VBI_SLICED_TELETEXT_A: return "TTX-A";
        case VBI_SLICED_TELETEXT_B_L10_625: return "TTX-B-L10";
        case VBI_SLICED_TELETEXT_B: return "TTX-B";
        case VBI_SLICED_TELETEXT_C_625: return "TTX-C-625";
        case VBI_SLICED_TELETEXT_D_625: return "TTX-D-625";
        case VBI_SLICED_VPS: return "VPS";
        case VBI_SLICED_VPS_F2: return "VPS-F2";
        case VBI_SLICED_WSS_625: return "WSS-625";
        case VBI_SLICED_CAPTION_625_F1: return "CC-625-F1";
        case VBI_SLICED_CAPTION_625_F2: return "CC-625-F2";
        case VBI_SLICED_TELETEXT_B_525: return "TTX-B-525";
        case VBI_SLICED_TELETEXT_C_525: return "TTX-C-525";
        case VBI_SLICED_TELETEXT_D_525: return "TTX-D-525";
        case VBI_SLICED_CAPTION_525_F1: return "CC-525-F1";
        case VBI_SLICED_CAPTION_525_F2: return "CC-525-F2";
        case VBI_SLICED_2xCAPTION_525: return "2xCC-525";
        }
        return p->label;
}
static int svc_is525(const _vbi_service_par *p) { return !!(p->videostd_set & VBI_VIDEOSTD_SET_525_60); }
static unsigned svc_maxrate(const _vbi_service_par *p) { return p->cri_rate > p->bit_rate ? p->cri_rate : p->bit_rate; }
static unsigned svc_minrate(const _vbi_service_par *p)
{
        unsigned r = svc_maxrate(p);
        if (p->id != VBI_SLICED_WSS_625) r = (r * 3) >> 1;           /* sampling_par.c admission */
        return r;
}
/* smallest samples_per_line vbi3_bit_slicer_set_params() admits (sample_offset 0) */
static unsigned spl_min_slicer(const _vbi_service_par *p, unsigned rate)
{
        return (unsigned)((rate * (int64_t) p->cri_bits) / p->cri_rate)
             + (unsigned)((rate * (int64_t)(p->frc_bits + p->payload)) / p->bit_rate);
}
/* smallest samples_per_line the raw decoder admits (strict 0): spl / rate >= signal */
static unsigned spl_min_decoder(const _vbi_service_par *p, unsigned rate)
{
        double signal = p->cri_bits / (double) p->cri_rate + (p->frc_bits + p->payload) / (double) p->bit_rate;
        unsigned s = (unsigned)(signal * rate);
        if (s > 4) s -= 4;
        while (s / (double) rate < signal) s++;
        return s;
}

/* ------------------------------------------------------------------ rate grid */

#define MAXRATES 1024
static unsigned RATES[MAXSVC][MAXRATES];
static int nrates[MAXSVC];
#define RATE_CAP 40000000u

static int cmp_u(const void *a, const void *b) { unsigned x = *(const unsigned *) a, y = *(const unsigned *) b; return x < y ? -1 : x > y; }
static void build_rates(int s, int coarse)
{
        const _vbi_service_par *p = SVC[s];
        unsigned lo = svc_minrate(p), mr = svc_maxrate(p), *r = RATES[s];
        int n = 0;
#define ADD(v) do { unsigned _v = (v); if (_v >= lo && _v <= RATE_CAP && n < MAXRATES) r[n++] = _v; } while (0)
        static const unsigned named[] = { 13500000, 14318180, 14750000, 17734475, 27000000, 28636360, 29500000, 35468950, 40000000 };
        static const unsigned named_coarse[] = { 13500000, 14750000, 27000000, 35468950 };
        ADD(lo); ADD(lo + 1);
        /* low-pass path is taken when sampling_rate / max(cri_rate, bit_rate) > 24 */
        ADD(25 * mr - 1); ADD(25 * mr); ADD(25 * mr + 1);
        if (coarse && mc_tier == MC_THOROUGH) {
                for (unsigned i = 0; i < sizeof named / sizeof *named; i++) ADD(named[i]);
        } else if (coarse) {
                for (unsigned i = 0; i < sizeof named_coarse / sizeof *named_coarse; i++) ADD(named_coarse[i]);
        } else {
                for (unsigned i = 0; i < sizeof named / sizeof *named; i++) ADD(named[i]);
                unsigned step = mc_tier == MC_THOROUGH ? 250000 : 2000000;
                /* ladder, offset so that it does not sit on round numbers only */
                for (unsigned v = (lo / step) * step + step / 3; v <= RATE_CAP; v += step) ADD(v);
                if (mc_tier == MC_THOROUGH)   /* dense where step/phase_shift rounding changes: integer samples per bit */
                        for (unsigned k = 2; (uint64_t) k * p->bit_rate <= RATE_CAP; k++)
                                for (int d = -1; d <= 1; d++) ADD((unsigned)((uint64_t) k * p->bit_rate + d * 12500));
        }
#undef ADD
        qsort(r, n, sizeof *r, cmp_u);
        int m = 0;
        for (int i = 0; i < n; i++) if (!m || r[m - 1] != r[i]) r[m++] = r[i];
        nrates[s] = m;
}

/* ------------------------------------------------------------------ waveform synthesis */

/* level (0/1) of the ideal signal t seconds after the first CRI bit starts */
static int ideal_level(const _vbi_service_par *p, double t, const uint8_t *pay)
{
        if (t < 0) return 0;
        unsigned cri = p->cri_frc >> p->frc_bits, frc = p->cri_frc & ((1u << p->frc_bits) - 1);
        double tc = p->cri_bits / (double) p->cri_rate;
        if (t < tc) {
                int k = (int)(t * p->cri_rate);
                if (k >= (int) p->cri_bits) k = p->cri_bits - 1;
                return (cri >> (p->cri_bits - 1 - k)) & 1;
        }
        double u = (t - tc) * p->bit_rate;
        int k = (int) u, nb = p->frc_bits + p->payload, bit;
        if (k >= nb) return 0;
        if (k < (int) p->frc_bits) bit = (frc >> (p->frc_bits - 1 - k)) & 1;
        else { int j = k - p->frc_bits; bit = (pay[j >> 3] >> (j & 7)) & 1; }
        if (p->modulation == VBI_MODULATION_BIPHASE_LSB || p->modulation == VBI_MODULATION_BIPHASE_MSB)
                return bit ^ ((u - k) >= 0.5);               /* '1' = high then low */
        return bit;
}

struct tmpl { int len; double cri_end; uint8_t *y; };

/* hard: 0x00/0xFF, box filter of one sample; soft: nominal levels, box filter of 0.7 of the shortest element */
static void synth(const _vbi_service_par *p, unsigned rate, int hard, double phase, struct tmpl *t)
{
        static const uint8_t pay[64] = { 0x15, 0xEA, 0x49, 0x5E, 0x02, 0xB6, 0xD0, 0x2F, 0x8C, 0x73, 0xA5, 0x5A, 0x31, 0xCE,
                                         0x15, 0xEA, 0x49, 0x5E, 0x02, 0xB6, 0xD0, 0x2F, 0x8C, 0x73, 0xA5, 0x5A, 0x31, 0xCE,
                                         0x15, 0xEA, 0x49, 0x5E, 0x02, 0xB6, 0xD0, 0x2F, 0x8C, 0x73, 0xA5, 0x5A, 0x31, 0xCE,
                                         0x15, 0xEA, 0x49, 0x5E, 0x02, 0xB6, 0xD0, 0x2F, 0x8C, 0x73, 0xA5, 0x5A, 0x31, 0xCE };
        double cb = rate / (double) p->cri_rate, db = rate / (double) p->bit_rate;
        double el = (p->modulation >= VBI_MODULATION_BIPHASE_LSB) ? db / 2 : db;
        double lead = 2 * cb;                                          /* two CRI bit times of low level */
        double total = lead + p->cri_bits * cb + (p->frc_bits + p->payload) * db + el;
        double w = hard ? 1.0 : 0.7 * (cb < el ? cb : el);
        if (w < 1.0) w = 1.0;
        int lo = hard ? 0 : 60, hi = hard ? 255 : 200;
        t->len = (int) ceil(total) + 1;
        t->cri_end = lead + p->cri_bits * cb + phase;
        t->y = malloc(t->len);
        for (int i = 0; i < t->len; i++) {
                double acc = 0;
                for (int m = 0; m < 8; m++) {
                        double ts = i + 0.5 - phase - w / 2 + (m + 0.5) * w / 8 - lead;  /* samples after CRI start */
                        acc += ideal_level(p, ts / rate, pay);
                }
                t->y[i] = (uint8_t)(lo + (hi - lo) * acc / 8 + 0.5);
        }
}

enum { FILL_00, FILL_FF, FILL_80, FILL_CHK, NFILL };
static const char *fill_name[NFILL] = { "0x00", "0xFF", "0x80", "checker" };
static void fill_y(uint8_t *y, int n, int fill)
{
        switch (fill) {
        case FILL_00: memset(y, 0x00, n); break;
        case FILL_FF: memset(y, 0xFF, n); break;
        case FILL_80: memset(y, 0x80, n); break;
        default: for (int i = 0; i < n; i++) y[i] = (i & 1) ? 0xFF : 0x00;
        }
}
/* template sample 0 at line sample pos (may be negative), truncated at both ends */
static void place(uint8_t *y, int n, const struct tmpl *t, int pos)
{
        int a = pos < 0 ? -pos : 0, b = t->len;
        if (pos + b > n) b = n - pos;
        if (b > a) memcpy(y + pos + a, t->y + a, b - a);
}

/* ------------------------------------------------------------------ guard page probe */

#define ARENA (1u << 20)
static uint8_t *arena, *guard;        /* input: line / image ends at guard */
static uint8_t *oarena, *oguard;      /* output: payload buffer / sliced[] ends at oguard */
static volatile int probe_which;      /* 1 = input guard, 2 = output guard */
static sigjmp_buf probe_jb;
static volatile sig_atomic_t probe_armed;
static volatile long probe_off;
static struct sigaction old_segv;

static void segv_handler(int sig, siginfo_t *si, void *uc)
{
        uint8_t *a = (uint8_t *) si->si_addr;
        if (probe_armed && a >= guard && a < guard + 65536) {
                probe_off = a - guard; probe_which = 1;
                probe_armed = 0;
                siglongjmp(probe_jb, 1);
        }
        if (probe_armed && a >= oguard && a < oguard + 65536) {
                probe_off = a - oguard; probe_which = 2;
                probe_armed = 0;
                siglongjmp(probe_jb, 1);
        }
        /* not ours: hand over to the previous handler (ASan) or die with the default action */
        if (old_segv.sa_flags & SA_SIGINFO) { if (old_segv.sa_sigaction) { old_segv.sa_sigaction(sig, si, uc); return; } }
        else if (old_segv.sa_handler != SIG_DFL && old_segv.sa_handler != SIG_IGN) { old_segv.sa_handler(sig); return; }
        signal(sig, SIG_DFL); raise(sig);
}
static void probe_init(void)
{
        if (arena) return;
        arena = mmap(NULL, ARENA + 65536, PROT_READ | PROT_WRITE, MAP_PRIVATE | MAP_ANONYMOUS, -1, 0);
        if (arena == MAP_FAILED) { perror("mmap"); _exit(42); }
        guard = arena + ARENA;
        if (mprotect(guard, 65536, PROT_NONE)) { perror("mprotect"); _exit(42); }
        oarena = mmap(NULL, 65536 + 65536, PROT_READ | PROT_WRITE, MAP_PRIVATE | MAP_ANONYMOUS, -1, 0);
        if (oarena == MAP_FAILED) { perror("mmap"); _exit(42); }
        oguard = oarena + 65536;
        if (mprotect(oguard, 65536, PROT_NONE)) { perror("mprotect"); _exit(42); }
        struct sigaction sa; memset(&sa, 0, sizeof sa);
        sa.sa_sigaction = segv_handler; sa.sa_flags = SA_SIGINFO | SA_NODEFER;
        sigemptyset(&sa.sa_mask);
        sigaction(SIGSEGV, &sa, &old_segv);
}
/* 1 if fn read (or wrote) at or behind the guard */
static int probe(void (*fn)(void *), void *arg)
{
        if (sigsetjmp(probe_jb, 0) == 0) {      /* handler runs with SA_NODEFER: no mask to restore */
                probe_armed = 1;
                fn(arg);
                probe_armed = 0;
                return 0;
        }
        return 1;
}
/* run fn in a forked child; 1 when the child was aborted (sanitizer verdict) */
static int child_aborts(void (*fn)(void *), void *arg)
{
        fflush(NULL);
        pid_t pid = fork();
        if (pid < 0) return -1;
        if (pid == 0) {
                alarm(60);
                if (!mc_replaying) { int fd = open("/dev/null", O_WRONLY); if (fd >= 0) { dup2(fd, 2); close(fd); } }
                fn(arg);
                _exit(0);
        }
        int st = 0;
        while (waitpid(pid, &st, 0) < 0) ;
        return WIFSIGNALED(st) && WTERMSIG(st) == SIGABRT;
}

/* ------------------------------------------------------------------ sites and reporting */

enum { API_V3, API_LEG, NAPI };
enum { SITE_CRI, SITE_PAY };
enum { PATH_V3N, PATH_V3LP, PATH_LEG, NPATH };
static const char *path_name[NPATH] = { "vbi3-normal", "vbi3-lowpass", "legacy" };
static const char *site_key[NPATH][2] = {
        { "bit_slicer_<fmt> (bit_slicer.c CORE template): CRI search reads past samples_per_line",
          "bit_slicer_<fmt> (bit_slicer.c PAYLOAD/SAMPLE template): payload sampling reads past samples_per_line" },
        { "low_pass_bit_slicer_Y8: CRI search window reads past samples_per_line",
          "low_pass_bit_slicer_Y8: payload sampling (LP_SAMPLE window) reads past samples_per_line" },
        { "legacy vbi_bit_slice (decoder.c bit_slicer_tmpl): CRI search reads past raw_samples",
          "legacy vbi_bit_slice (decoder.c bit_slicer_tmpl/sample): payload sampling reads past raw_samples" },
};

/* per pool case: a site is reported (and confirmed under ASan) once */
static int case_reported[NPATH][2], confirm_this_case;
/* the ASan confirmation forks and symbolises (~0.2 s): done in every 7th case */
static void case_begin(uint64_t idx) { memset(case_reported, 0, sizeof case_reported); confirm_this_case = mc_replaying || idx % 7 == 0; }

/* ------------------------------------------------------------------ one slicer configuration */

#define MAXSPL 4200
#define MAXPTS 20000

struct cfg {
        const _vbi_service_par *par; int svc;
        unsigned rate, spl, soff;
        const struct fmtinfo *fi;
        int have_leg;
        vbi3_bit_slicer bs0;          /* configured, pristine */
        vbi_bit_slicer lbs0;
        int lp;                       /* low-pass path configured */
        unsigned paybytes;
        /* analytic worst case, byte index of the last byte read; limit = last valid byte */
        long limit, v3_cri_last, v3_pay_last, leg_cri_last, leg_pay_last;
        /* observed */
        int obs[NAPI][2];             /* over-read seen, by site */
        long obs_over[NAPI][2];       /* max measured overshoot in bytes */
        int last_iter_reached, nrec_seen;
        long max_nrec;
};

static int cfg_setup(struct cfg *c)
{
        const _vbi_service_par *p = c->par;
        _vbi3_bit_slicer_init(&c->bs0);
        if (!vbi3_bit_slicer_set_params(&c->bs0, c->fi->f, c->rate, c->soff, c->spl,
                        p->cri_frc >> p->frc_bits, p->cri_frc_mask >> p->frc_bits, p->cri_bits, p->cri_rate,
                        ~0u, p->cri_frc & ((1u << p->frc_bits) - 1), p->frc_bits, p->payload, p->bit_rate,
                        (vbi3_modulation) p->modulation))
                return 0;
        c->paybytes = (p->payload + 7) / 8;
        const vbi3_bit_slicer *bs = &c->bs0;
        c->lp = (bs->oversampling_rate == c->rate);          /* oversampling factor 1 = low_pass_bit_slicer_Y8 */
        unsigned bps = bs->bytes_per_sample;
        unsigned nbits = bs->frc_bits + (bs->endian >= 2 ? bs->payload : bs->payload * 8);
        unsigned long imax = bs->phase_shift + (unsigned long)(nbits - 1) * bs->step;
        int gw = c->fi->gmask ? 2 : 1;
        c->limit = (long) c->spl * c->fi->bpp - 1;
        if (!c->lp) {
                /* CORE: iteration n (0..cri_samples-1) reads samples n, n+1; on recognition in iteration n
                 * SAMPLE reads samples n+(i>>8), n+(i>>8)+1 with i up to phase_shift+(nbits-1)*step */
                c->v3_cri_last = bs->cri_samples ? (long) bs->skip + (long) bs->cri_samples * bps + gw - 1 : -1;
                c->v3_pay_last = bs->cri_samples ? (long) bs->skip + ((long) bs->cri_samples - 1 + (long)(imax >> 8) + 1) * bps + gw - 1 : -1;
        } else {
                /* low pass: 16 samples are summed up front, iteration n reads sample n+16, raw is advanced
                 * before the break, LP_SAMPLE reads samples (n+1)+(i>>8) .. +15 */
                c->v3_cri_last = (long) bs->skip + ((long) bs->cri_samples - 1 + 16) * bps;
                c->v3_pay_last = (long) bs->skip + ((long) bs->cri_samples + (long)(imax >> 8) + 15) * bps;
        }
        c->have_leg = (c->soff == 0);
        if (c->have_leg) {
                vbi_bit_slicer_init(&c->lbs0, c->spl, c->rate, p->cri_rate, p->bit_rate, p->cri_frc, p->cri_frc_mask,
                                    p->cri_bits, p->frc_bits, p->payload, p->modulation, c->fi->f);
                const vbi_bit_slicer *d = &c->lbs0;
                unsigned lnbits = d->frc_bits + (d->endian >= 2 ? d->payload : d->payload * 8);
                long limax = d->phase_shift + (long)(lnbits - 1) * d->step;
                int bpp = c->fi->bpp;
                c->leg_cri_last = d->cri_bytes > 0 ? d->skip + (long) d->cri_bytes * bpp + gw - 1 : -1;
                c->leg_pay_last = d->cri_bytes > 0 ? d->skip + ((long) d->cri_bytes - 1 + (limax >> 8) + 1) * bpp + gw - 1 : -1;
        }
        memset(c->obs, 0, sizeof c->obs); memset(c->obs_over, 0, sizeof c->obs_over);
        c->last_iter_reached = 0; c->nrec_seen = 0; c->max_nrec = -1;
        return 1;
}

/* one slicer call */
struct slrun {
        int api, with_points;
        vbi3_bit_slicer bs; vbi_bit_slicer lbs;
        uint8_t *line; uint8_t *out; unsigned out_size;
        vbi3_bit_slicer_point *pts; unsigned npts;
        int ret;
};
static void sl_run(void *v)
{
        struct slrun *r = v;
        if (r->api == API_LEG) r->ret = vbi_bit_slice(&r->lbs, r->line, r->out);
        else if (r->with_points) r->ret = vbi3_bit_slicer_slice_with_points(&r->bs, r->out, r->out_size, r->pts, &r->npts, MAXPTS, r->line);
        else r->ret = vbi3_bit_slicer_slice(&r->bs, r->out, r->out_size, r->line);
}
/* the same call on an exactly sized heap copy of the line and an exactly sized output buffer */
struct exrun { struct slrun r; const uint8_t *bytes; size_t n; };
static void sl_run_exact(void *v)
{
        struct exrun *e = v;
        uint8_t *x = mc_exact(e->bytes, e->n);
        uint8_t *o = mc_exact(NULL, e->r.out_size);
        e->r.line = x; e->r.out = o; e->r.with_points = 0;
        sl_run(&e->r);
        memcpy(e->r.pts /* reuse as scratch for the payload */, o, e->r.out_size);
        free(o); free(x);
}

static vbi3_bit_slicer_point *PTS;
static uint8_t OUTBUF[64];
static int fingerprint_on = 1;

/* recognition iteration of a decoded line: last CRI point written by the sampling point API (Y8 only) */
static void note_nrec(struct cfg *c, const struct slrun *r, int site)
{
        if (!r->with_points || site != SITE_PAY) return;
        long nrec = -1;
        for (unsigned k = 0; k < r->npts; k++) if (PTS[k].kind == VBI3_CRI_BIT) nrec = PTS[k].index; else break;
        if (nrec < 0) return;
        /* normal: index = (raw - line) << 8 in iteration n; low pass: raw already advanced, + half the window */
        nrec = c->lp ? ((nrec - 2048) >> 8) - 1 - (long) c->soff : (nrec >> 8) - (long) c->soff;
        if (nrec > c->max_nrec) c->max_nrec = nrec;
        if (nrec == (long) c->bs0.cri_samples - 1) c->last_iter_reached = 1;
        mc_hash h; mc_hash_init(&h);
        mc_hash_u64(&h, c->svc); mc_hash_u64(&h, c->rate); mc_hash_u64(&h, c->spl); mc_hash_u64(&h, c->soff); mc_hash_u64(&h, nrec);
        mc_distinct(h.a);
        c->nrec_seen++;
}

/* Evaluates one line with one API.  Returns 1 when it over-read. */
static int eval_line(struct cfg *c, int api, const uint8_t *bytes, size_t n, int site, const char *what)
{
        struct slrun r; memset(&r, 0, sizeof r);
        int path = api == API_LEG ? PATH_LEG : (c->lp ? PATH_V3LP : PATH_V3N);
        r.api = api; r.bs = c->bs0; r.lbs = c->lbs0;
        r.out = oguard - c->paybytes; r.out_size = c->paybytes; r.pts = PTS;      /* a buffer of exactly the payload size */
        r.with_points = (api == API_V3 && c->fi->f == VBI_PIXFMT_YUV420);
        r.line = guard - n; memcpy(r.line, bytes, n);
        if (r.with_points) PTS[0].kind = 0;
        mc_count("evaluations", 1);
        int fault = probe(sl_run, &r);
        if (fault && probe_which == 2) {
                mc_violation(api == API_LEG ? "vbi_bit_slice writes past a buffer of the payload size"
                                            : "vbi3_bit_slicer_slice writes past a buffer of the payload size",
                             "%s rate=%u spl=%u soff=%u fmt=%s payload %u bytes, write at +%ld; line: %s", svc_short(c->par), c->rate, c->spl, c->soff, c->fi->name,
                             c->paybytes, (long) probe_off, what);
                return 0;
        }
        if (!fault && r.ret) note_nrec(c, &r, site);
        if (!fault) {
                int ret1 = r.ret; uint8_t o1[64]; memcpy(o1, r.out, c->paybytes);
                /* same call on exactly sized heap blocks, in process: ASan must stay silent too */
                struct exrun e; e.r = r; e.r.bs = c->bs0; e.r.lbs = c->lbs0; e.bytes = bytes; e.n = n;
                mc_case(api == API_LEG ? "vbi_bit_slice on exact heap line (guard probe was clean)"
                                       : "vbi3_bit_slicer_slice on exact heap line (guard probe was clean)",
                        "%s rate=%u spl=%u soff=%u fmt=%s %s", svc_short(c->par), c->rate, c->spl, c->soff, c->fi->name, what);
                sl_run_exact(&e);
                mc_count("asan_inprocess_runs", 1);
                if (e.r.ret != ret1 || (ret1 && memcmp(o1, PTS, c->paybytes)))
                        mc_violation("harness: guard run and exact-heap run disagree (non-deterministic slicer?)",
                                     "%s rate=%u spl=%u fmt=%s %s ret %d/%d", svc_short(c->par), c->rate, c->spl, c->fi->name, what, ret1, e.r.ret);
                if (ret1) {
                        mc_count("lines_decoded", 1);
                        if (fingerprint_on) {
                                /* tree independent line set (phase 0 templates): which lines decode cleanly, and to what */
                                mc_hash h; mc_hash_init(&h);
                                mc_hash_u64(&h, c->svc); mc_hash_u64(&h, c->rate); mc_hash_u64(&h, c->spl); mc_hash_u64(&h, c->soff);
                                mc_hash_u64(&h, c->fi->f); mc_hash_u64(&h, api); mc_hash_add(&h, what, strlen(what)); mc_hash_add(&h, o1, c->paybytes);
                                mc_count("clean_decodes_in_fixed_line_set", 1);
                                mc_count("clean_decodes_fingerprint_sum", h.a >> 20);
                        }
                }
                return 0;
        }
        /* over-read: measure how far (move the line d bytes away from the guard until it is clean) */
        long first = probe_off, over = 0;
        long pred = (api == API_LEG ? (site == SITE_CRI ? c->leg_cri_last : c->leg_pay_last)
                                    : (site == SITE_CRI ? c->v3_cri_last : c->v3_pay_last)) - c->limit;
        for (long d = 1; d <= 256; d++) {
                r.bs = c->bs0; r.lbs = c->lbs0;
                r.line = guard - n - d; memcpy(r.line, bytes, n); memset(guard - d, 0x5A, d);
                if (!probe(sl_run, &r)) { over = d; break; }
        }
        if (over && r.ret) note_nrec(c, &r, site);       /* the clean run with slack tells the iteration */
        c->obs[api][site] = 1;
        if (over > c->obs_over[api][site]) c->obs_over[api][site] = over;
        mc_count(site == SITE_CRI ? "overread_cri_lines" : "overread_payload_lines", 1);
        if (!case_reported[path][site]) {
                case_reported[path][site] = 1;
                struct exrun e; e.r = r; e.r.bs = c->bs0; e.r.lbs = c->lbs0; e.bytes = bytes; e.n = n;
                int conf = (HAVE_ASAN && confirm_this_case) ? child_aborts(sl_run_exact, &e) : -1;
                if (conf >= 0) mc_count(conf == 1 ? "asan_confirmed" : "asan_not_confirmed", 1);
                mc_violation(site_key[path][site],
                             "%s rate=%u samples_per_line=%u sample_offset=%u fmt=%s (%d B/sample) line: %s | first byte read at +%ld, reads up to %ld byte(s) past the %zu byte line; "
                             "analytic worst case +%ld; ASan on exact malloc: %s",
                             svc_short(c->par), c->rate, c->spl, c->soff, c->fi->name, c->fi->bpp, what, first, over, n, pred,
                             conf == 1 ? "heap-buffer-overflow confirmed" : conf == 0 ? "NOT confirmed" : "not run in this case (every 7th case is confirmed in a child)");
        }
        return 1;
}

/* outcome bookkeeping for one configuration and API once its lines are done */
static void cfg_verdict(struct cfg *c, int api)
{
        int path = api == API_LEG ? PATH_LEG : (c->lp ? PATH_V3LP : PATH_V3N);
        for (int site = 0; site < 2; site++) {
                long last = api == API_LEG ? (site ? c->leg_pay_last : c->leg_cri_last) : (site ? c->v3_pay_last : c->v3_cri_last);
                long pred = last - c->limit;                             /* > 0: bound exceeded by that many bytes */
                long ps = pred > 0 ? (pred + c->fi->bpp - 1) / c->fi->bpp : 0;     /* in samples */
                const char *sn = site ? "payload" : "cri-search";
                if (pred > 0) mc_count(site ? "cfg_bound_exceeded_payload" : "cfg_bound_exceeded_cri", 1);
                if (c->obs[api][site]) {
                        long os = (c->obs_over[api][site] + c->fi->bpp - 1) / c->fi->bpp;
                        if (pred <= 0) {
                                mc_outcome("%s %s: OVER-READ of %ld sample(s) although the analytic bound holds (model gap)", path_name[path], sn, os);
                                mc_note("model gap: %s rate=%u spl=%u fmt=%s %s %s", svc_short(c->par), c->rate, c->spl, c->fi->name, path_name[path], sn);
                        } else if (c->obs_over[api][site] > pred)
                                mc_outcome("%s %s: over-read of %ld sample(s) EXCEEDS analytic worst case %ld (model gap)", path_name[path], sn, os, ps);
                        else
                                mc_outcome("%s %s: bound exceeded by %ld sample(s), over-read reached (measured %ld)", path_name[path], sn, ps, os);
                } else if (pred > 0) {
                        mc_outcome("%s %s: bound exceeded by %ld sample(s), not reached by any line tried", path_name[path], sn, ps);
                        mc_count("cfg_bound_exceeded_unreached", 1);
                        /* the legacy 16 bit slicers never recognise a CRI: "(raw0 - tr) * ABS(..) >> 3" is evaluated
                         * unsigned (tr is unsigned int), so the first rising edge drives the threshold out of range */
                        if (api == API_LEG && c->fi->gmask) mc_count("cfg_unreached_legacy_16bit_formats", 1);
                        else { mc_count("cfg_unreached_other", 1);
                               if (c->fi == &FM[0] && api == API_V3) mc_note("unreached: %s %s rate=%u (%.2f samples/bit) spl=%u soff=%u fmt=%s +%ld", path_name[path], svc_short(c->par), c->rate, c->rate / (double) svc_maxrate(c->par), c->spl, c->soff, c->fi->name, ps); }
                } else
                        mc_outcome("%s %s: bound holds, no over-read", path_name[path], sn);
        }
}

/* ------------------------------------------------------------------ phase 1: fine grid, limit window */

static uint8_t YL[MAXSPL], LB[MAXSPL * 4];

struct job { int svc; unsigned rate; };
static struct job *JOBS; static uint64_t njobs;

static void nomatch_lines(struct cfg *c)
{
        char what[80];
        for (int fill = 0; fill < NFILL; fill++) {
                fill_y(YL, c->spl, fill);
                y_to_fmt(c->fi, YL, c->spl, LB);
                snprintf(what, sizeof what, "whole line %s (no CRI: search runs to its limit)", fill_name[fill]);
                eval_line(c, API_V3, LB, (size_t) c->spl * c->fi->bpp, SITE_CRI, what);
                if (c->have_leg) eval_line(c, API_LEG, LB, (size_t) c->spl * c->fi->bpp, SITE_CRI, what);
        }
}

/* forced recognition for template positions pos in [p0,p1] */
static void forced_lines(struct cfg *c, const struct tmpl tp[2], int p0, int p1, unsigned fillmask_hard, unsigned fillmask_soft)
{
        char what[160];
        int skip_rest[NAPI] = { 0, 0 };
        for (int pos = p0; pos <= p1; pos++)
                for (int w = 0; w < 2; w++) {
                        unsigned fm = w ? fillmask_hard : fillmask_soft;
                        for (int fill = 0; fill < NFILL; fill++) {
                                if (!(fm & (1u << fill))) continue;
                                fill_y(YL, c->spl, fill);
                                place(YL, c->spl, &tp[w], pos);
                                y_to_fmt(c->fi, YL, c->spl, LB);
                                snprintf(what, sizeof what, "%s waveform, CRI ends at sample %.1f (template at %d), rest %s",
                                         w ? "hard 0x00/0xFF" : "nominal-level", pos + tp[w].cri_end, pos, fill_name[fill]);
                                /* once the CRI search itself over-reads, every line does: do not repeat it per shift */
                                if (!(c->obs[API_V3][SITE_CRI] && skip_rest[API_V3]++))
                                        eval_line(c, API_V3, LB, (size_t) c->spl * c->fi->bpp, c->obs[API_V3][SITE_CRI] ? SITE_CRI : SITE_PAY, what);
                                if (c->have_leg && !(c->obs[API_LEG][SITE_CRI] && skip_rest[API_LEG]++))
                                        eval_line(c, API_LEG, LB, (size_t) c->spl * c->fi->bpp, c->obs[API_LEG][SITE_CRI] ? SITE_CRI : SITE_PAY, what);
                        }
                }
}

/* the round 0 input: 0x00 up to sample s, then 0xFF (recognised where the CRI word is as short as Caption 525's "0011") */
static void step_lines(struct cfg *c, int s0, int s1)
{
        char what[96];
        if (c->par->cri_bits > 4) return;
        if (s0 < 0) s0 = 0;
        if (s1 > (int) c->spl) s1 = c->spl;
        int first = -1, last = -1;
        for (int st = s0; st <= s1; st++) {
                memset(YL, 0x00, st); memset(YL + st, 0xFF, c->spl - st);
                y_to_fmt(c->fi, YL, c->spl, LB);
                snprintf(what, sizeof what, "0x00 up to sample %d, then 0xFF", st);
                if (!c->obs[API_V3][SITE_CRI] && eval_line(c, API_V3, LB, (size_t) c->spl * c->fi->bpp, SITE_PAY, what)) { if (first < 0) first = st; last = st; }
                if (c->have_leg && !c->obs[API_LEG][SITE_CRI]) eval_line(c, API_LEG, LB, (size_t) c->spl * c->fi->bpp, SITE_PAY, what);
        }
        /* the configuration of the round 0 experiment, written out */
        if (c->rate == 27000000 && c->par->id == VBI_SLICED_CAPTION_525_F1 && c->fi->f == VBI_PIXFMT_YUV420 && c->soff == 0 && first >= 0)
                mc_note("round-0 input reproduced: Caption 525 at 27 MHz, Y8, samples_per_line %u, line 0x00 up to sample s then 0xFF: %s reads past the line for s = %d..%d, up to %ld byte(s)",
                        c->spl, c->lp ? "low_pass_bit_slicer_Y8" : "bit_slicer_Y8", first, last, c->obs_over[API_V3][SITE_PAY]);
}

/* A bound that is exceeded on paper but was not reached: the recognition iteration depends on the
 * sub-sample phase of the signal too.  Try the other phases (1/8 sample steps) in the same window. */
static int bound_unreached(const struct cfg *c)
{
        if (c->v3_pay_last > c->limit && !c->obs[API_V3][SITE_PAY] && !c->obs[API_V3][SITE_CRI]) return 1;
        if (c->have_leg && c->leg_pay_last > c->limit && !c->obs[API_LEG][SITE_PAY] && !c->obs[API_LEG][SITE_CRI]) return 1;
        return 0;
}
static void more_phases(struct cfg *c, int p0, int p1)
{
        for (int ph = 1; ph < 8 && bound_unreached(c); ph++) {
                struct tmpl tx[2];
                synth(c->par, c->rate, 0, ph / 8.0, &tx[0]); synth(c->par, c->rate, 1, ph / 8.0, &tx[1]);
                fingerprint_on = 0;                 /* these passes depend on what the tree under test reached */
                forced_lines(c, tx, p0, p1, 1u << FILL_00, 1u << FILL_00);
                fingerprint_on = 1;
                mc_count("extra_phase_passes", 1);
                free(tx[0].y); free(tx[1].y);
        }
}

static int spl_variants(const _vbi_service_par *p, unsigned rate, unsigned *v)
{
        unsigned m = spl_min_slicer(p, rate), n = 0;
        v[n++] = m; v[n++] = m + 1; v[n++] = m + 7;
        unsigned k = ((m + 8 + 719) / 720) * 720;
        if (k <= 4096) v[n++] = k;
        if (m + 8 < 2048 && k != 2048) v[n++] = 2048;
        return n;
}

static void window_case(uint64_t idx, void *arg)
{
        const struct job *j = &JOBS[idx];
        const _vbi_service_par *p = SVC[j->svc];
        probe_init(); case_begin(idx);
        struct tmpl tp[2]; synth(p, j->rate, 0, 0.0, &tp[0]); synth(p, j->rate, 1, 0.0, &tp[1]);
        unsigned spls[8]; int ns = spl_variants(p, j->rate, spls);
        double cb = j->rate / (double) p->cri_rate;
        int nf = mc_tier == MC_THOROUGH ? NFMT_ALL : NFMT_QUICK;
        for (int si = 0; si < ns; si++) {
                /* quick: minimum, min+7 (with both sample offsets) and 2048 only */
                if (mc_tier != MC_THOROUGH && !(si == 0 || si == 2 || spls[si] == 2048)) continue;
                for (int fi = 0; fi < nf; fi++) {
                        /* all formats at the minimum length, the quick six at 2048; luma-8 and one 16 bit format elsewhere */
                        if (!(si == 0 || (spls[si] == 2048 && fi < NFMT_QUICK) || fi == 0 || fi == 3)) continue;
                        for (unsigned soff = 0; soff <= 3; soff += 3) {
                                if (soff && !(si == 2)) continue;          /* sample_offset 3 with the min+7 length */
                                struct cfg c; memset(&c, 0, sizeof c);
                                c.par = p; c.svc = j->svc; c.rate = j->rate; c.spl = spls[si]; c.soff = soff; c.fi = &FM[fi];
                                mc_case("C05 window case", "%s rate=%u spl=%u soff=%u fmt=%s", svc_short(p), c.rate, c.spl, soff, c.fi->name);
                                if (!cfg_setup(&c)) {
                                        /* not a C05 matter (nothing is read), but a repair must not get here: counted */
                                        mc_count("configurations_refused_by_set_params", 1);
                                        mc_outcome("set_params refuses a configuration with cri_samples + data_samples <= samples_per_line - sample_offset");
                                        mc_note("refused: %s rate=%u spl=%u soff=%u fmt=%s", svc_short(p), c.rate, c.spl, soff, c.fi->name);
                                        continue;
                                }
                                mc_count("configurations", 1);
                                nomatch_lines(&c);
                                /* window of template positions whose CRI ends around the search limit */
                                /* the limit as the unchanged library computes it (samples_per_line - data_samples), restated here so
                                 * that the set of lines does not depend on the tree under test; 20 more positions below it
                                 * for a tree that ends the search earlier */
                                double lim = c.spl - (unsigned)((c.rate * (int64_t)(p->frc_bits + p->payload)) / p->bit_rate);
                                int p0 = (int) floor(lim - tp[0].cri_end - 2.5 * cb - 44), p1 = (int) ceil(lim - tp[0].cri_end + 1.5 * cb + 10);
                                unsigned allf = (1u << NFILL) - 1;
                                forced_lines(&c, tp, p0, p1, si == 0 ? allf : 1u << FILL_00, si == 0 && fi == 0 ? allf : 1u << FILL_00);
                                step_lines(&c, (int) floor(lim - 4 * cb - 44), (int) ceil(lim + 8));
                                more_phases(&c, p0, p1);
                                cfg_verdict(&c, API_V3);
                                if (c.have_leg) cfg_verdict(&c, API_LEG);
                                if (c.fi->f == VBI_PIXFMT_YUV420) {
                                        mc_count(c.last_iter_reached ? "y8_cfg_last_iteration_reached" : "y8_cfg_last_iteration_not_reached", 1);
                                        if (idx % 97 == 0 && si == 0)
                                                mc_sample("%s rate=%u spl=%u Y8 %s: cri_samples=%u, recognition forced at %d iterations up to %ld; worst case byte %ld vs last valid %ld",
                                                          svc_short(p), c.rate, c.spl, c.lp ? "low-pass" : "normal", c.bs0.cri_samples, c.nrec_seen, c.max_nrec, c.v3_pay_last, c.limit);
                                }
                        }
                }
        }
        free(tp[0].y); free(tp[1].y);
}

/* ------------------------------------------------------------------ phase 2: coarse grid, every shift */

struct sjob { int svc; unsigned rate; int si, fi; };
static struct sjob *SJOBS; static uint64_t nsjobs;

static void sweep_case(uint64_t idx, void *arg)
{
        const struct sjob *j = &SJOBS[idx];
        const _vbi_service_par *p = SVC[j->svc];
        probe_init(); case_begin(idx);
        struct tmpl tp[2]; synth(p, j->rate, 0, 0.0, &tp[0]); synth(p, j->rate, 1, 0.0, &tp[1]);
        unsigned spls[8]; int ns = spl_variants(p, j->rate, spls);
        if (j->si >= ns) goto out;
        struct cfg c; memset(&c, 0, sizeof c);
        c.par = p; c.svc = j->svc; c.rate = j->rate; c.spl = spls[j->si]; c.soff = 0; c.fi = &FM[j->fi];
        mc_case("C05 sweep case", "%s rate=%u spl=%u fmt=%s", svc_short(p), c.rate, c.spl, c.fi->name);
        if (!cfg_setup(&c)) goto out;
        mc_count("configurations", 1);
        nomatch_lines(&c);
        /* s = 0 .. samples_per_line: template start at s (lead-in included), truncated at the line end;
         * a few negative positions cut the lead-in and the first CRI bits */
        forced_lines(&c, tp, -(int)(tp[0].cri_end / 2), (int) c.spl, mc_tier == MC_THOROUGH ? 0xF : 0x3, 0x1);
        step_lines(&c, 0, c.spl);
        {
                double cb = j->rate / (double) p->cri_rate, lim = c.spl - (unsigned)((c.rate * (int64_t)(p->frc_bits + p->payload)) / p->bit_rate);
                more_phases(&c, (int) floor(lim - tp[0].cri_end - 2.5 * cb - 44), (int) ceil(lim - tp[0].cri_end + 1.5 * cb + 10));
        }
        cfg_verdict(&c, API_V3); cfg_verdict(&c, API_LEG);
        if (c.fi->f == VBI_PIXFMT_YUV420) {
                mc_count(c.last_iter_reached ? "y8_cfg_last_iteration_reached" : "y8_cfg_last_iteration_not_reached", 1);
                mc_sample("sweep %s rate=%u spl=%u Y8 %s: cri_samples=%u, %d lines decoded with recognition iteration up to %ld",
                          svc_short(p), c.rate, c.spl, c.lp ? "low-pass" : "normal", c.bs0.cri_samples, c.nrec_seen, c.max_nrec);
        }
out:
        free(tp[0].y); free(tp[1].y);
}

/* ------------------------------------------------------------------ phase 3: whole images through the raw decoders */

struct layout { int start[2], count[2], interlaced, synchronous; };

/* layouts whose LAST line in memory is a line on which the service is looked for */
static int make_layouts(const _vbi_service_par *p, struct layout *L)
{
        int n = 0, f525 = svc_is525(p);
        int lf = p->last[1] ? 1 : 0;                       /* field whose lines come last in memory */
        for (int k = 1; k <= 3; k += 2)
                for (int il = 0; il <= 1; il++)
                        for (int sync = 1; sync >= 0; sync--) {
                                struct layout l; memset(&l, 0, sizeof l);
                                if (!sync && (p->flags & _VBI_SP_FIELD_NUM)) continue;
                                l.interlaced = il; l.synchronous = sync;
                                for (int f = 0; f < 2; f++) {
                                        if (!p->first[f]) continue;       /* no data on this field: no lines */
                                        l.count[f] = k;
                                        l.start[f] = (f == lf) ? (int) p->last[f] - (k - 1) : (int) p->first[f];
                                }
                                if (il && (l.count[0] != l.count[1] || !l.count[0])) continue;
                                if (!l.count[0] && !l.count[1]) continue;
                                (void) f525;
                                L[n++] = l;
                        }
        /* unknown line numbers (start 0), two lines per field that carries the service */
        if (!(p->flags & _VBI_SP_LINE_NUM)) {
                struct layout l; memset(&l, 0, sizeof l);
                l.count[0] = p->first[0] ? 2 : 0; l.count[1] = p->first[1] ? 2 : 0; l.synchronous = 1; L[n++] = l;
        }
        return n;
}

struct rdrun {
        int legacy;
        vbi3_raw_decoder *rd3; vbi_raw_decoder *rd;
        uint8_t *image; vbi_sliced *out; unsigned max_lines;
        int n;
};
static void rd_run(void *v)
{
        struct rdrun *r = v;
        if (r->legacy) r->n = vbi_raw_decode(r->rd, r->image, r->out);
        else r->n = (int) vbi3_raw_decoder_decode(r->rd3, r->out, r->max_lines, r->image);
}
struct rdex { struct rdrun r; const uint8_t *bytes; size_t n; };
static void rd_run_exact(void *v)
{
        struct rdex *e = v;
        uint8_t *x = mc_exact(e->bytes, e->n);
        vbi_sliced *o = mc_exact(NULL, e->r.max_lines * sizeof(vbi_sliced));
        e->r.image = x; e->r.out = o;
        rd_run(&e->r);
        free(o); free(x);
}

struct rjob { int svc; unsigned rate; int fi, big; };
static struct rjob *RJOBS; static uint64_t nrjobs;
static uint8_t *IMG;

static void rawdec_case(uint64_t idx, void *arg)
{
        const struct rjob *j = &RJOBS[idx];
        const _vbi_service_par *p = SVC[j->svc];
        const struct fmtinfo *fi = &FM[j->fi];
        probe_init(); case_begin(idx);
        if (!IMG) IMG = malloc(8 * MAXSPL * 4);
        struct tmpl tp[2]; synth(p, j->rate, 0, 0.0, &tp[0]); synth(p, j->rate, 1, 0.0, &tp[1]);
        unsigned spl = j->big ? 2048 : spl_min_decoder(p, j->rate);
        if (spl < spl_min_decoder(p, j->rate)) goto out;
        struct layout L[16]; int nl = make_layouts(p, L);
        double cb = j->rate / (double) p->cri_rate;
        for (int li = 0; li < nl; li++) {
                vbi_raw_decoder rd; vbi_raw_decoder_init(&rd);
                rd.scanning = svc_is525(p) ? 525 : 625;
                rd.sampling_format = fi->f; rd.sampling_rate = j->rate; rd.bytes_per_line = spl * fi->bpp;
                rd.offset = (int)(p->offset * 1e-9 * j->rate);
                rd.start[0] = L[li].start[0]; rd.start[1] = L[li].start[1];
                rd.count[0] = L[li].count[0]; rd.count[1] = L[li].count[1];
                rd.interlaced = L[li].interlaced; rd.synchronous = L[li].synchronous;
                mc_case("C05 raw decoder case", "%s rate=%u spl=%u fmt=%s start=%d,%d count=%d,%d il=%d sync=%d", svc_short(p), j->rate, spl, fi->name,
                        rd.start[0], rd.start[1], rd.count[0], rd.count[1], rd.interlaced, rd.synchronous);
                int strict = 0;
                unsigned got = vbi_raw_decoder_add_services(&rd, p->id, strict);
                if (!(got & p->id)) { mc_count("rawdec_layout_not_admitted", 1); vbi_raw_decoder_destroy(&rd); continue; }
                vbi3_raw_decoder *rd3 = vbi3_raw_decoder_new((vbi_sampling_par *) &rd);
                if (!rd3 || !(vbi3_raw_decoder_add_services(rd3, p->id, strict) & p->id)) {
                        mc_violation("harness: vbi3_raw_decoder refuses what vbi_raw_decoder admits", "%s", svc_short(p));
                        vbi_raw_decoder_destroy(&rd); continue;
                }
                mc_count("rawdec_layouts", 1);
                int nlines = rd.count[0] + rd.count[1];
                size_t bpl = rd.bytes_per_line, isz = bpl * nlines;
                const vbi3_bit_slicer *bs = &rd3->jobs[0].slicer;
                int lp = (bs->oversampling_rate == j->rate);
                int path = lp ? PATH_V3LP : PATH_V3N;
                /* the slicer state (adaptive threshold, pattern) is restored before every decode */
                vbi3_raw_decoder *rdl = (vbi3_raw_decoder *) rd.pattern;
                _vbi3_raw_decoder_job jobs3[_VBI3_RAW_DECODER_MAX_JOBS], jobsl[_VBI3_RAW_DECODER_MAX_JOBS];
                memcpy(jobs3, rd3->jobs, sizeof jobs3); memcpy(jobsl, rdl->jobs, sizeof jobsl);
                size_t psz = (size_t) nlines * _VBI3_RAW_DECODER_MAX_WAYS;
                int8_t *pat3 = malloc(psz), *patl = malloc(psz);
                memcpy(pat3, rd3->pattern, psz); memcpy(patl, rdl->pattern, psz);
                double lim = spl - (unsigned)((j->rate * (int64_t)(p->frc_bits + p->payload)) / p->bit_rate);
                int p0 = (int) floor(lim - tp[0].cri_end - 2.5 * cb - 44), p1 = (int) ceil(lim - tp[0].cri_end + 1.5 * cb + 10);
                int cri_over = 0;
                for (int pos = p0 - 1; pos <= p1; pos++)
                        for (int w = 0; w < 2; w++) {
                                int fill = (pos == p0 - 1) ? (w ? FILL_FF : FILL_80) : FILL_00;
                                /* all lines blank except the last one in memory */
                                for (int ln = 0; ln < nlines; ln++) {
                                        fill_y(YL, spl, ln == nlines - 1 ? fill : FILL_00);
                                        if (ln == nlines - 1 && pos >= p0) place(YL, spl, &tp[w], pos);
                                        y_to_fmt(fi, YL, spl, IMG + ln * bpl);
                                }
                                for (int legacy = 0; legacy <= 1; legacy++) {
                                        if (cri_over) continue;
                                        struct rdrun r; memset(&r, 0, sizeof r);
                                        r.legacy = legacy; r.rd3 = rd3; r.rd = &rd; r.max_lines = nlines;
                                        vbi_sliced *out = mc_exact(NULL, nlines * sizeof(vbi_sliced));
                                        r.out = out; r.image = guard - isz; memcpy(r.image, IMG, isz);
                                        memcpy(rd3->jobs, jobs3, sizeof jobs3); memcpy(rdl->jobs, jobsl, sizeof jobsl);
                                        memcpy(rd3->pattern, pat3, psz); memcpy(rdl->pattern, patl, psz);
                                        rd3->readjust = 1; rdl->readjust = 1;
                                        mc_count("evaluations", 1);
                                        int fault = probe(rd_run, &r);
                                        if (fault && legacy) pthread_mutex_unlock(&rd.mutex);   /* we jumped out of vbi_raw_decode */
                                        int site = (pos == p0 - 1) ? SITE_CRI : SITE_PAY;
                                        if (!fault) {
                                                if (r.n > 0) mc_count("image_lines_decoded", r.n);
                                                struct rdex e; e.r = r; e.bytes = IMG; e.n = isz;
                                                memcpy(rd3->jobs, jobs3, sizeof jobs3); memcpy(rdl->jobs, jobsl, sizeof jobsl);
                                                memcpy(rd3->pattern, pat3, psz); memcpy(rdl->pattern, patl, psz);
                                                rd3->readjust = 1; rdl->readjust = 1;
                                                rd_run_exact(&e);
                                                mc_count("asan_inprocess_runs", 1);
                                        } else {
                                                if (site == SITE_CRI) cri_over = 1;
                                                mc_count(site == SITE_CRI ? "overread_cri_lines" : "overread_payload_lines", 1);
                                                if (!case_reported[path][site]) {
                                                        case_reported[path][site] = 1;
                                                        struct rdex e; e.r = r; e.bytes = IMG; e.n = isz;
                                                        memcpy(rd3->jobs, jobs3, sizeof jobs3); memcpy(rdl->jobs, jobsl, sizeof jobsl);
                                                        memcpy(rd3->pattern, pat3, psz); memcpy(rdl->pattern, patl, psz);
                                                        int conf = (HAVE_ASAN && confirm_this_case) ? child_aborts(rd_run_exact, &e) : -1;
                                                        if (conf >= 0) mc_count(conf == 1 ? "asan_confirmed" : "asan_not_confirmed", 1);
                                                        mc_violation(site_key[path][site],
                                                                "through %s: %s rate=%u bytes_per_line=%zu fmt=%s image of %d line(s) (start %d,%d count %d,%d interlaced=%d), last line in memory: %s waveform with CRI ending at sample %.1f; first byte read at +%ld past the %zu byte image; ASan on exact malloc: %s",
                                                                legacy ? "vbi_raw_decode" : "vbi3_raw_decoder_decode", svc_short(p), j->rate, bpl, fi->name, nlines,
                                                                rd.start[0], rd.start[1], rd.count[0], rd.count[1], rd.interlaced, w ? "hard" : "nominal-level", pos + tp[w].cri_end,
                                                                (long) probe_off, isz, conf == 1 ? "heap-buffer-overflow confirmed" : conf == 0 ? "NOT confirmed" : "not run in this case");
                                                }
                                        }
                                        free(out);
                                }
                        }
                /* output side: an early (clean) signal on every line; sliced[] holds exactly max_lines records */
                if (!cri_over) {
                        /* earliest template position (hard, then nominal-level waveform) that this slicer decodes */
                        int early = -1, ew = 1;
                        for (int w = 1; w >= 0 && early < 0; w--)
                                for (int pos = 0; pos < 48 && early < 0; pos++) {
                                        vbi3_bit_slicer b1 = jobs3[0].slicer; uint8_t ob[64];
                                        fill_y(YL, spl, FILL_00); place(YL, spl, &tp[w], pos);
                                        y_to_fmt(fi, YL, spl, LB);
                                        if (vbi3_bit_slicer_slice(&b1, ob, sizeof ob, LB)) { early = pos; ew = w; }
                                }
                        if (early < 0) { mc_count("rawdec_no_decodable_early_signal", 1); goto layout_done; }
                        for (int ln = 0; ln < nlines; ln++) {
                                fill_y(YL, spl, FILL_00); place(YL, spl, &tp[ew], early);
                                y_to_fmt(fi, YL, spl, IMG + ln * bpl);
                        }
                        /* D = records an unrestricted decode yields; then max_lines in {0, 1, D-1, D} */
                        int D = -1;
                        for (int m = 0; m < 5; m++) {
                                int ml = m == 0 ? nlines : m == 1 ? 0 : m == 2 ? 1 : m == 3 ? D - 1 : D;
                                if (ml < 0 || ml > nlines) continue;
                                struct rdex e; memset(&e, 0, sizeof e);
                                e.r.legacy = 0; e.r.rd3 = rd3; e.r.max_lines = ml; e.bytes = IMG; e.n = isz;
                                memcpy(rd3->jobs, jobs3, sizeof jobs3); memcpy(rd3->pattern, pat3, psz); rd3->readjust = 1;
                                mc_case("vbi3_raw_decoder_decode writes past sliced[max_lines]", "%s rate=%u fmt=%s lines=%d max_lines=%d (a decodable signal on every line)",
                                        svc_short(p), j->rate, fi->name, nlines, ml);
                                /* sliced[max_lines] ending at the output guard first: a write behind it is caught and attributed */
                                e.r.image = guard - isz; memcpy(e.r.image, IMG, isz);
                                e.r.out = (vbi_sliced *)(oguard - (size_t) ml * sizeof(vbi_sliced));
                                if (probe(rd_run, &e.r)) {
                                        if (probe_which == 2) {
                                                memcpy(rd3->jobs, jobs3, sizeof jobs3); memcpy(rd3->pattern, pat3, psz); rd3->readjust = 1;
                                                int conf = (HAVE_ASAN && confirm_this_case) ? child_aborts(rd_run_exact, &e) : -1;
                                                mc_violation("vbi3_raw_decoder_decode writes past sliced[max_lines]",
                                                             "%s rate=%u fmt=%s image of %d lines with a decodable signal on every line, max_lines=%d: write at +%ld behind the array; ASan on exact malloc: %s",
                                                             svc_short(p), j->rate, fi->name, nlines, ml, (long) probe_off,
                                                             conf == 1 ? "heap-buffer-overflow confirmed" : conf == 0 ? "NOT confirmed" : "not run in this case");
                                        } else mc_count("output_test_signal_overreads_input", 1);
                                        if (m == 0) break;
                                        continue;
                                }
                                memcpy(rd3->jobs, jobs3, sizeof jobs3); memcpy(rd3->pattern, pat3, psz); rd3->readjust = 1;
                                rd_run_exact(&e);
                                mc_count("evaluations", 1); mc_count("asan_inprocess_runs", 1);
                                if (e.r.n > ml)
                                        mc_violation("vbi3_raw_decoder_decode returns more records than max_lines", "%s lines=%d max_lines=%d returned %d", svc_short(p), nlines, ml, e.r.n);
                                if (m == 0) {
                                        D = e.r.n;
                                        mc_count(D >= 2 ? "image_two_or_more_records" : D == 1 ? "image_one_record" : "image_no_record", 1);
                                        mc_outcome("output side: unrestricted decode yields %s", D >= 2 ? ">= 2 records" : D == 1 ? "1 record" : "no record (max_lines test vacuous here)");
                                } else if (e.r.n == ml && ml < D) mc_count("image_output_truncated_at_max_lines", 1);
                        }
                        /* legacy entry point: out[] of exactly count[0]+count[1] records */
                        struct rdex e; memset(&e, 0, sizeof e);
                        e.r.legacy = 1; e.r.rd = &rd; e.r.max_lines = nlines; e.bytes = IMG; e.n = isz;
                        memcpy(rdl->jobs, jobsl, sizeof jobsl); memcpy(rdl->pattern, patl, psz); rdl->readjust = 1;
                        mc_case("vbi_raw_decode writes past out[count0+count1]", "%s rate=%u fmt=%s lines=%d", svc_short(p), j->rate, fi->name, nlines);
                        e.r.image = guard - isz; memcpy(e.r.image, IMG, isz);
                        e.r.out = (vbi_sliced *)(oguard - (size_t) nlines * sizeof(vbi_sliced));
                        if (probe(rd_run, &e.r)) {
                                pthread_mutex_unlock(&rd.mutex);
                                if (probe_which == 2)
                                        mc_violation("vbi_raw_decode writes past out[count0+count1]", "%s rate=%u fmt=%s lines=%d: write at +%ld behind the array",
                                                     svc_short(p), j->rate, fi->name, nlines, (long) probe_off);
                        } else {
                                memcpy(rdl->jobs, jobsl, sizeof jobsl); memcpy(rdl->pattern, patl, psz); rdl->readjust = 1;
                                rd_run_exact(&e);
                        }
                        mc_count("evaluations", 1);
                }
        layout_done:
                { mc_hash h; mc_hash_init(&h); mc_hash_u64(&h, 0x5d); mc_hash_u64(&h, idx); mc_hash_u64(&h, li); mc_distinct(h.a); }
                free(pat3); free(patl);
                vbi3_raw_decoder_delete(rd3);
                vbi_raw_decoder_destroy(&rd);
        }
out:
        free(tp[0].y); free(tp[1].y);
}

/* ------------------------------------------------------------------ phase 4: output buffer of the single line API */

/* vbi3_bit_slicer_slice() must not write more than buffer_size bytes: canary behind the buffer, then ASan */
struct osrun { vbi3_bit_slicer bs; const uint8_t *line; size_t n; unsigned size; int ret; };
static void os_run_exact(void *v)
{
        struct osrun *o = v;
        uint8_t *x = mc_exact(o->line, o->n), *b = mc_exact(NULL, o->size);
        o->ret = vbi3_bit_slicer_slice(&o->bs, b, o->size, x);
        free(b); free(x);
}
static void outsize_case(uint64_t idx, void *arg)
{
        int svc = idx;
        const _vbi_service_par *p = SVC[svc];
        unsigned rate = svc_minrate(p) < 13500000 ? 13500000 : svc_minrate(p) + 1000000;
        struct tmpl tp; synth(p, rate, 1, 0.0, &tp);
        struct cfg c; memset(&c, 0, sizeof c);
        c.par = p; c.svc = svc; c.rate = rate; c.spl = 2048; c.fi = &FM[0];
        case_begin(0);
        mc_case("C05 output size case", "%s", svc_short(p));
        if (!cfg_setup(&c)) { free(tp.y); return; }
        fill_y(YL, c.spl, FILL_00); place(YL, c.spl, &tp, 2);
        int reported = 0;
        for (unsigned size = 1; size <= c.paybytes; size++) {
                uint8_t buf[128]; memset(buf, 0xC3, sizeof buf);
                vbi3_bit_slicer bs = c.bs0;
                int ret = vbi3_bit_slicer_slice(&bs, buf, size, YL);
                mc_count("evaluations", 1);
                int touched = 0;
                for (unsigned k = size; k < sizeof buf; k++) if (buf[k] != 0xC3) touched++;
                if (size == c.paybytes) { mc_count(ret ? "outsize_full_buffer_decoded" : "outsize_full_buffer_not_decoded", 1); }
                if (touched && !reported) {
                        reported = 1;
                        struct osrun o; o.bs = c.bs0; o.line = YL; o.n = c.spl; o.size = size;
                        int conf = HAVE_ASAN ? child_aborts(os_run_exact, &o) : -1;
                        mc_violation("vbi3_bit_slicer_slice: buffer_size check compares payload bytes with buffer bits, writes past the output buffer",
                                     "%s: payload %u bytes, buffer_size %u accepted (returned %d), %d byte(s) written behind the buffer; ASan on exact malloc: %s",
                                     svc_short(p), c.paybytes, size, ret, touched, conf == 1 ? "heap-buffer-overflow confirmed" : conf == 0 ? "NOT confirmed" : "n/a");
                } else if (!touched && size == c.paybytes) {
                        struct osrun o; o.bs = c.bs0; o.line = YL; o.n = c.spl; o.size = size;
                        mc_case("vbi3_bit_slicer_slice writes past a payload sized buffer", "%s size=%u", svc_short(p), size);
                        os_run_exact(&o);
                }
        }
        mc_hash h; mc_hash_init(&h); mc_hash_u64(&h, 0x05); mc_hash_u64(&h, idx); mc_distinct(h.a);
        free(tp.y);
}

/* ------------------------------------------------------------------ phase 5: nominal signals of the library's generator */

struct njob { int svc; unsigned rate; int tight; };
static struct njob *NJOBS; static uint64_t nnjobs;

static int gen_supported(const _vbi_service_par *p) { return p->id != VBI_SLICED_2xCAPTION_525; }

static void nominal_case(uint64_t idx, void *arg)
{
        const struct njob *j = &NJOBS[idx];
        const _vbi_service_par *p = SVC[j->svc];
        int cc = !!(p->id & (VBI_SLICED_CAPTION_525 | VBI_SLICED_CAPTION_625));
        double signal = p->cri_bits / (double) p->cri_rate + (p->frc_bits + p->payload) / (double) p->bit_rate;
        /* the generator evaluates (unsigned)(negative double) for Closed Caption samples before the CRI: start just inside */
        double t_first = p->offset * 1e-9 - (cc ? 0.45e-6 : 1.0e-6);
        /* end of the generated signal, from the formulas in io-sim.c */
        double t_end;
        if (cc) t_end = 10.5e-6 + 25.5 / p->bit_rate;
        else if (p->id & (VBI_SLICED_VPS | VBI_SLICED_VPS_F2)) t_end = 12.5e-6 + 239.5 / 5e6;
        else if (p->id == VBI_SLICED_WSS_625) t_end = 11.0e-6 + 137.5 / 5e6;
        else t_end = 12e-6 + (p->payload + 12) / (double) p->bit_rate;
        t_end += j->tight ? 0.05e-6 : 1.0e-6;
        (void) signal;
        vbi_raw_decoder rd; vbi_raw_decoder_init(&rd);
        rd.scanning = svc_is525(p) ? 525 : 625;
        rd.sampling_format = VBI_PIXFMT_YUV420; rd.sampling_rate = j->rate;
        rd.offset = (int) ceil(t_first * j->rate);
        unsigned spl = (unsigned) ceil(t_end * j->rate) - rd.offset;
        if (spl < spl_min_decoder(p, j->rate)) spl = spl_min_decoder(p, j->rate);
        rd.bytes_per_line = spl;
        int f = p->first[0] ? 0 : 1;
        rd.start[f] = p->first[f]; rd.count[f] = 1;
        if (p->first[1 - f]) { rd.start[1 - f] = p->first[1 - f]; rd.count[1 - f] = 1; }
        rd.interlaced = 0; rd.synchronous = 1;
        mc_case("C05 nominal case", "%s rate=%u spl=%u offset=%d", svc_short(p), j->rate, spl, rd.offset);
        vbi_sliced in[2], out[2]; memset(in, 0, sizeof in);
        int nin = 0;
        for (int k = 0; k < 2; k++) if (rd.count[k]) {
                in[nin].id = p->id; in[nin].line = rd.start[k];
                for (unsigned b = 0; b < (p->payload + 7) / 8; b++) in[nin].data[b] = (uint8_t)(0x15 + 0x3B * b + 0x40 * k);
                if (p->id == VBI_SLICED_WSS_625) in[nin].data[1] &= 0x3F;
                nin++;
        }
        size_t isz = (size_t) spl * nin;
        uint8_t *img = mc_exact(NULL, isz);
        if (!_vbi_raw_vbi_image(img, isz, (vbi_sampling_par *) &rd, 0, 0, 0, in, nin)) { mc_count("nominal_generator_refused", 1); free(img); vbi_raw_decoder_destroy(&rd); return; }
        if (!(vbi_raw_decoder_add_services(&rd, p->id, 0) & p->id)) { mc_count("nominal_not_admitted", 1); free(img); vbi_raw_decoder_destroy(&rd); return; }
        int n = vbi_raw_decode(&rd, img, out);
        int ok = (n == nin);
        for (int k = 0; ok && k < nin; k++)
                if (!(out[k].id & p->id) || out[k].line != in[k].line || memcmp(out[k].data, in[k].data, (p->payload + 7) / 8)) {
                        if (p->id == VBI_SLICED_WSS_625 && (out[k].id & p->id) && out[k].data[0] == in[k].data[0] && (out[k].data[1] & 0x3F) == in[k].data[1]) continue;
                        ok = 0;
                }
        mc_count("evaluations", 1);
        mc_count(ok ? (j->tight ? "nominal_tight_roundtrip_ok" : "nominal_roundtrip_ok") : (j->tight ? "nominal_tight_roundtrip_failed" : "nominal_roundtrip_failed"), 1);
        if (!ok) { mc_outcome("nominal %s: generator signal %s not decoded bit-exactly (C04 ground, counted only)", j->tight ? "tight" : "roomy", svc_short(p));
                   mc_note("nominal %s not decoded: %s rate=%u (%.2f samples per bit) spl=%u n=%d of %d", j->tight ? "tight" : "roomy", svc_short(p), j->rate, j->rate / (double) svc_maxrate(p), spl, n, nin); }
        else mc_outcome("nominal %s: generator signal decoded bit-exactly", j->tight ? "tight" : "roomy");
        mc_hash h; mc_hash_init(&h); mc_hash_u64(&h, 0x0e); mc_hash_u64(&h, idx); mc_distinct(h.a);
        free(img); vbi_raw_decoder_destroy(&rd);
}

/* ------------------------------------------------------------------ phase 6: sampling point arrays (debug interface) */

/* vbi3_bit_slicer_slice_with_points() documents "max_points: one sampling point for all cri_bits, frc_bits and
 * payload_bits"; the raw decoder's debug mode gives it sp_lines[].points[512].  Library owned heap arrays:
 * ASan is the oracle, in a child so that the finding gets one key. */
struct ptrun { int mode; const _vbi_service_par *par; unsigned rate, spl; int fill; const struct tmpl *tp; int ret; };
static void pt_run(void *v)
{
        struct ptrun *r = v;
        const _vbi_service_par *p = r->par;
        uint8_t *y = malloc(r->spl);
        fill_y(y, r->spl, r->fill);
        if (r->tp) place(y, r->spl, r->tp, 2);
        uint8_t *line = mc_exact(y, r->spl);
        if (r->mode == 0) {
                vbi3_bit_slicer bs; _vbi3_bit_slicer_init(&bs);
                if (vbi3_bit_slicer_set_params(&bs, VBI_PIXFMT_YUV420, r->rate, 0, r->spl, p->cri_frc >> p->frc_bits, p->cri_frc_mask >> p->frc_bits,
                                p->cri_bits, p->cri_rate, ~0u, p->cri_frc & ((1u << p->frc_bits) - 1), p->frc_bits, p->payload, p->bit_rate, (vbi3_modulation) p->modulation)) {
                        unsigned total = p->cri_bits + p->frc_bits + p->payload, n = 0;
                        vbi3_bit_slicer_point *pts = mc_exact(NULL, total * sizeof *pts);
                        uint8_t *buf = mc_exact(NULL, (p->payload + 7) / 8);
                        r->ret = vbi3_bit_slicer_slice_with_points(&bs, buf, (p->payload + 7) / 8, pts, &n, total, line);
                        free(buf); free(pts);
                }
        } else {
                vbi_raw_decoder rd; vbi_raw_decoder_init(&rd);
                rd.scanning = svc_is525(p) ? 525 : 625; rd.sampling_format = VBI_PIXFMT_YUV420; rd.sampling_rate = r->rate; rd.bytes_per_line = r->spl;
                int f = p->last[1] ? 1 : 0;
                rd.start[f] = p->last[f]; rd.count[f] = 1;
                if (p->first[1 - f]) { /* services on both fields need both */ rd.start[1 - f] = p->first[1 - f]; rd.count[1 - f] = 1; }
                rd.synchronous = 1;
                vbi3_raw_decoder *rd3 = vbi3_raw_decoder_new((vbi_sampling_par *) &rd);
                if (rd3 && (vbi3_raw_decoder_add_services(rd3, p->id, 0) & p->id) && vbi3_raw_decoder_debug(rd3, TRUE)) {
                        int nl = rd.count[0] + rd.count[1];
                        uint8_t *img = mc_exact(NULL, (size_t) nl * r->spl);
                        for (int k = 0; k < nl; k++) memcpy(img + (size_t) k * r->spl, line, r->spl);
                        vbi_sliced *out = mc_exact(NULL, nl * sizeof *out);
                        r->ret = vbi3_raw_decoder_decode(rd3, out, nl, img);
                        free(out); free(img);
                }
                if (rd3) vbi3_raw_decoder_delete(rd3);
                vbi_raw_decoder_destroy(&rd);
        }
        free(line); free(y);
}
struct pjob { int svc; unsigned rate; };
static struct pjob *PJOBS; static uint64_t npjobs;
static void points_case(uint64_t idx, void *arg)
{
        const struct pjob *j = &PJOBS[idx];
        const _vbi_service_par *p = SVC[j->svc];
        struct tmpl tp; synth(p, j->rate, 1, 0.0, &tp);
        int reported = 0;
        /* per entry point: long lines first, the first abort ends it (a sanitizer report with symbolisation costs ~0.2 s) */
        for (int mode = 0; mode <= 1; mode++) {
                int aborted = 0;
                for (int big = 1; big >= 0 && !aborted; big--) {
                        unsigned spl = big ? 2048 : spl_min_decoder(p, j->rate);
                        if (big && spl_min_decoder(p, j->rate) > 2048) continue;
                        for (int fill = 0; fill <= NFILL && !aborted; fill++) {
                                struct ptrun r = { mode, p, j->rate, spl, fill == NFILL ? FILL_00 : fill, fill == NFILL ? &tp : NULL, 0 };
                                mc_count("evaluations", 1);
                                if (!HAVE_ASAN) { pt_run(&r); continue; }
                                if (child_aborts(pt_run, &r) != 1) continue;
                                aborted = 1;
                                mc_count(mode ? "points_overrun_raw_decoder_debug_cases" : "points_overrun_slice_with_points_cases", 1);
                                if (reported) continue;
                                reported = 1;
                                mc_violation("sampling points: the CRI search stores a point per clocked CRI bit without limit (max_points / sp_lines[].points[512] overrun)",
                                             "%s: %s rate=%u Y8 samples_per_line=%u line %s: ASan abort (heap-buffer-overflow WRITE) with points[] of exactly %s entries",
                                             mode ? "vbi3_raw_decoder_decode in debug mode" : "vbi3_bit_slicer_slice_with_points", svc_short(p), j->rate, spl,
                                             fill == NFILL ? "with an early signal" : fill_name[fill], mode ? "512 (library owned)" : "cri_bits+frc_bits+payload_bits");
                        }
                }
        }
        mc_hash h; mc_hash_init(&h); mc_hash_u64(&h, 0x9f); mc_hash_u64(&h, idx); mc_distinct(h.a);
        free(tp.y);
}

/* ------------------------------------------------------------------ analytic map over the whole grid (parent, no image) */

/* ------------------------------------------------------------------ phase 7: every field layout the decoders admit */

/* The image handed to the raw decoders holds exactly count[0] + count[1] lines.  Which (count[0], count[1], interlaced,
 * synchronous, start) combinations are valid is decided by the library (_vbi_sampling_par_valid_log, add_services); whatever
 * it admits must be decodable from an exactly sized image.  All counts 0..3 x 0..3 (equal and unequal), interlaced or
 * sequential, synchronous or not, line numbers known or unknown; image blank, white, or with a decodable signal on every
 * line.  Oracle: ASan on exact heap blocks (the engine turns the abort into a violation keyed by the mc_case key). */
struct ljob { int svc; unsigned rate; int fi; };
static struct ljob *LJOBS; static uint64_t nljobs;

static void layout_case(uint64_t idx, void *arg)
{
        const struct ljob *j = &LJOBS[idx];
        const _vbi_service_par *p = SVC[j->svc];
        const struct fmtinfo *fi = &FM[j->fi];
        if (!IMG) IMG = malloc(8 * MAXSPL * 4);
        struct tmpl tp; synth(p, j->rate, 1, 0.0, &tp);
        unsigned spl = spl_min_decoder(p, j->rate) + 7;
        int f525 = svc_is525(p);
        static const int dflt[2][2] = { { 7, 320 }, { 10, 273 } };
        for (int c0 = 0; c0 <= 3; c0++) for (int c1 = 0; c1 <= 3; c1++)
        for (int il = 0; il <= 1; il++) for (int sync = 0; sync <= 1; sync++) for (int known = 0; known <= 1; known++) {
                if (!c0 && !c1) continue;
                vbi_raw_decoder rd; vbi_raw_decoder_init(&rd);
                rd.scanning = f525 ? 525 : 625;
                rd.sampling_format = fi->f; rd.sampling_rate = j->rate; rd.bytes_per_line = spl * fi->bpp;
                rd.offset = (int)(p->offset * 1e-9 * j->rate);
                rd.count[0] = c0; rd.count[1] = c1; rd.interlaced = il; rd.synchronous = sync;
                for (int f = 0; f < 2; f++) {
                        int cnt = f ? c1 : c0;
                        rd.start[f] = (!known || !cnt) ? 0 : p->first[f] ? (int) p->first[f] : dflt[f525][f];
                        if (known && cnt && p->first[f] && rd.start[f] + cnt - 1 > (int) p->last[f] + 2) rd.start[f] = p->last[f] - cnt + 1;
                }
                mc_case("raw decoder, admitted field layout: decode touches memory outside the (count[0] + count[1]) x bytes_per_line image",
                        "%s rate=%u spl=%u fmt=%s start=%d,%d count=%d,%d interlaced=%d synchronous=%d", svc_short(p), j->rate, spl, fi->name,
                        rd.start[0], rd.start[1], c0, c1, il, sync);
                mc_count("evaluations", 1);
                unsigned got = vbi_raw_decoder_add_services(&rd, p->id, 0);
                vbi3_raw_decoder *rd3 = vbi3_raw_decoder_new((vbi_sampling_par *) &rd);
                unsigned got3 = rd3 ? vbi3_raw_decoder_add_services(rd3, p->id, 0) : 0;
                mc_outcome("layout count %s, %s: %s", c0 == c1 ? "equal" : c0 && c1 ? "unequal" : "one field only", il ? "interlaced" : "sequential",
                           (got | got3) & p->id ? "admitted" : "refused");
                if ((got | got3) & p->id) {
                        int nlines = c0 + c1; size_t bpl = rd.bytes_per_line, isz = bpl * nlines;
                        { mc_hash h; mc_hash_init(&h); mc_hash_u64(&h, 0x1a70); mc_hash_u64(&h, idx); mc_hash_u64(&h, c0 * 64 + c1 * 16 + il * 4 + sync * 2 + known); mc_distinct(h.a); }
                        for (int content = 0; content < 3; content++) {
                                for (int ln = 0; ln < nlines; ln++) {
                                        fill_y(YL, spl, content == 1 ? FILL_FF : FILL_00);
                                        if (content == 2) place(YL, spl, &tp, 8);
                                        y_to_fmt(fi, YL, spl, IMG + ln * bpl);
                                }
                                for (int ml = nlines; ml >= 0; ml -= (nlines > 1 ? nlines - 1 : 1)) {    /* max_lines = all, 1 (or 0) */
                                        if (got3 & p->id) {
                                                uint8_t *x = mc_exact(IMG, isz); vbi_sliced *o = mc_exact(NULL, (size_t) ml * sizeof(vbi_sliced));
                                                unsigned n = vbi3_raw_decoder_decode(rd3, o, ml, x);
                                                if (n > (unsigned) ml) mc_violation("vbi3_raw_decoder_decode returns more records than max_lines", "%s count=%d,%d max_lines=%d returned %u", svc_short(p), c0, c1, ml, n);
                                                if (n) mc_count("layout_records", n);
                                                free(o); free(x);
                                        }
                                        if ((got & p->id) && ml == nlines) {
                                                uint8_t *x = mc_exact(IMG, isz); vbi_sliced *o = mc_exact(NULL, (size_t) nlines * sizeof(vbi_sliced));
                                                int n = vbi_raw_decode(&rd, x, o);
                                                if (n > nlines) mc_violation("vbi_raw_decode returns more records than count[0] + count[1]", "%s count=%d,%d returned %d", svc_short(p), c0, c1, n);
                                                free(o); free(x);
                                        }
                                        if (ml == 0) break;
                                }
                        }
                        /* legacy vbi_raw_decoder_resize(): one field grows or shrinks by a line, the next image has exactly the new size */
                        if (got & p->id) {
                                static const int dd[4][2] = { { 0, -1 }, { 0, 1 }, { -1, 0 }, { 1, 0 } };
                                for (int d = 0; d < 4; d++) {
                                        int nc[2] = { c0 + dd[d][0], c1 + dd[d][1] };
                                        if (nc[0] < 0 || nc[1] < 0 || nc[0] > 3 || nc[1] > 3 || (!nc[0] && !nc[1])) continue;
                                        int st[2], st0[2] = { rd.start[0], rd.start[1] }; unsigned ct[2] = { nc[0], nc[1] }, ct0[2] = { c0, c1 };
                                        for (int f = 0; f < 2; f++) {
                                                st[f] = (!known || !nc[f]) ? 0 : p->first[f] ? (int) p->first[f] : dflt[f525][f];
                                                if (known && nc[f] && p->first[f] && st[f] + nc[f] - 1 > (int) p->last[f] + 2) st[f] = p->last[f] - nc[f] + 1;
                                        }
                                        mc_case("raw decoder after vbi_raw_decoder_resize(): decode touches memory outside the new (count[0] + count[1]) x bytes_per_line image",
                                                "%s rate=%u spl=%u fmt=%s count=%d,%d -> %d,%d start=%d,%d -> %d,%d interlaced=%d synchronous=%d", svc_short(p), j->rate, spl, fi->name,
                                                c0, c1, nc[0], nc[1], st0[0], st0[1], st[0], st[1], il, sync);
                                        vbi_raw_decoder_resize(&rd, st, ct);
                                        int nl = nc[0] + nc[1]; size_t isz2 = bpl * nl;
                                        for (int ln = 0; ln < nl; ln++) { fill_y(YL, spl, FILL_00); place(YL, spl, &tp, 8); y_to_fmt(fi, YL, spl, IMG + ln * bpl); }
                                        uint8_t *x = mc_exact(IMG, isz2); vbi_sliced *o = mc_exact(NULL, (size_t) nl * sizeof(vbi_sliced));
                                        int n = vbi_raw_decode(&rd, x, o);
                                        mc_count("evaluations", 1); mc_count("layout_resizes", 1);
                                        if (n > nl) mc_violation("vbi_raw_decode returns more records than count[0] + count[1] after a resize", "%s count=%d,%d -> %d,%d returned %d", svc_short(p), c0, c1, nc[0], nc[1], n);
                                        free(o); free(x);
                                        vbi_raw_decoder_resize(&rd, st0, ct0);
                                        if (!(vbi3_raw_decoder_services((vbi3_raw_decoder *) rd.pattern) & p->id)) vbi_raw_decoder_add_services(&rd, p->id, 0);   /* an invalid intermediate layout drops the services */
                                }
                        }
                        /* debug mode (sampling points are stored per scan line) across a reconfiguration to another number of scan
                         * lines: vbi3_raw_decoder_set_sampling_par() from a one-line layout to this one and back (seed C05-10: the
                         * per-line point arrays kept the old line count, decode wrote behind them) */
                        if (got3 & p->id) {
                                vbi_raw_decoder small = rd;
                                small.count[0] = c0 ? 1 : 0; small.count[1] = c0 ? 0 : 1;
                                if (c0) small.start[1] = 0; 
                                vbi3_raw_decoder *rdd = vbi3_raw_decoder_new((vbi_sampling_par *) &small);
                                if (rdd) {
                                        mc_case("raw decoder in debug mode after vbi3_raw_decoder_set_sampling_par(): decode touches memory outside its objects",
                                                "%s rate=%u spl=%u fmt=%s count=%d,%d -> %d,%d interlaced=%d synchronous=%d", svc_short(p), j->rate, spl, fi->name,
                                                small.count[0], small.count[1], c0, c1, il, sync);
                                        vbi3_raw_decoder_add_services(rdd, p->id, 0);
                                        vbi_bool dbg = vbi3_raw_decoder_debug(rdd, TRUE);
                                        for (int dir = 0; dir < 3; dir++) {             /* grow, shrink, grow again */
                                                const vbi_raw_decoder *to = (dir == 1) ? &small : &rd;
                                                unsigned g = vbi3_raw_decoder_set_sampling_par(rdd, (vbi_sampling_par *) to, 0);
                                                g = vbi3_raw_decoder_add_services(rdd, p->id, 0);
                                                int nl = to->count[0] + to->count[1]; size_t isz2 = bpl * nl;
                                                for (int ln = 0; ln < nl; ln++) { fill_y(YL, spl, FILL_00); place(YL, spl, &tp, 8); y_to_fmt(fi, YL, spl, IMG + ln * bpl); }
                                                uint8_t *x = mc_exact(IMG, isz2); vbi_sliced *o = mc_exact(NULL, (size_t) nl * sizeof(vbi_sliced));
                                                unsigned n = (g & p->id) ? vbi3_raw_decoder_decode(rdd, o, nl, x) : 0;
                                                if (n > (unsigned) nl) mc_violation("vbi3_raw_decoder_decode returns more records than max_lines", "%s debug mode count=%d,%d returned %u", svc_short(p), to->count[0], to->count[1], n);
                                                if (dbg && n) {
                                                        vbi3_bit_slicer_point pt;
                                                        for (int row = 0; row < nl; row++) (void) vbi3_raw_decoder_sampling_point(rdd, &pt, row, 0);
                                                        mc_count("debug_reconfigured_decodes_with_points", 1);
                                                }
                                                mc_count("evaluations", 1); mc_count(dbg ? "debug_reconfigured_decodes" : "debug_reconfigured_decodes_format_without_debug_support", 1);
                                                if (n) mc_count("debug_reconfigured_records", n);
                                                free(o); free(x);
                                        }
                                        vbi3_raw_decoder_delete(rdd);
                                }
                        }
                        mc_count("layouts_admitted", 1);
                } else mc_count("layouts_refused", 1);
                if (rd3) vbi3_raw_decoder_delete(rd3);
                vbi_raw_decoder_destroy(&rd);
        }
        free(tp.y);
}

static void analytic_map(void)
{
        for (int s = 0; s < nsvc; s++) {
                const _vbi_service_par *p = SVC[s];
                long n[NPATH] = { 0 }, ex[NPATH] = { 0 }, mx[NPATH] = { 0 };
                unsigned lo[NPATH] = { 0 }, hi[NPATH] = { 0 };
                for (int k = 0; k < nrates[s]; k++) {
                        unsigned spls[8]; int ns = spl_variants(p, RATES[s][k], spls);
                        for (int si = 0; si < ns; si++)
                                for (int fi = 0; fi < NFMT_ALL; fi++) {
                                        struct cfg c; memset(&c, 0, sizeof c);
                                        c.par = p; c.svc = s; c.rate = RATES[s][k]; c.spl = spls[si]; c.fi = &FM[fi];
                                        if (!cfg_setup(&c)) continue;
                                        mc_count("analytic_configurations", 1);
                                        int pv = c.lp ? PATH_V3LP : PATH_V3N;
                                        long o3 = c.v3_pay_last - c.limit, ol = c.leg_pay_last - c.limit;
                                        long o3s = o3 > 0 ? (o3 + c.fi->bpp - 1) / c.fi->bpp : 0, ols = ol > 0 ? (ol + c.fi->bpp - 1) / c.fi->bpp : 0;
                                        n[pv]++; n[PATH_LEG]++;
                                        if (o3 > 0) { ex[pv]++; if (o3s > mx[pv]) mx[pv] = o3s; if (!lo[pv] || c.rate < lo[pv]) lo[pv] = c.rate; if (c.rate > hi[pv]) hi[pv] = c.rate; }
                                        if (ol > 0) { ex[PATH_LEG]++; if (ols > mx[PATH_LEG]) mx[PATH_LEG] = ols; if (!lo[PATH_LEG] || c.rate < lo[PATH_LEG]) lo[PATH_LEG] = c.rate; if (c.rate > hi[PATH_LEG]) hi[PATH_LEG] = c.rate; }
                                        if (c.v3_cri_last > c.limit || c.leg_cri_last > c.limit) mc_note("analytic: CRI search bound exceeded: %s rate=%u spl=%u fmt=%s", svc_short(p), c.rate, c.spl, c.fi->name);
                                }
                }
                mc_note("analytic map %s (%d rates %u..%u Hz x lengths x %d formats): payload bound exceeded in vbi3-normal %ld/%ld (max +%ld samples, rates %u..%u), vbi3-lowpass %ld/%ld (max +%ld, rates %u..%u), legacy %ld/%ld (max +%ld, rates %u..%u)",
                        svc_short(p), nrates[s], RATES[s][0], RATES[s][nrates[s] - 1], NFMT_ALL,
                        ex[0], n[0], mx[0], lo[0], hi[0], ex[1], n[1], mx[1], lo[1], hi[1], ex[2], n[2], mx[2], lo[2], hi[2]);
        }
}

/* ------------------------------------------------------------------ main */

/* ------------------------------------------------------------------ phase: legacy slicer, lines shorter than the signal */

/* vbi_bit_slicer_init() returns void: every raw_samples value is admissible, also a line shorter than the signal
 * (fewer samples than FRC + payload need).  The slicer then must find nothing and read nothing beyond raw_samples
 * (seed C05-9: the two clamps of cri_bytes merged in the wrong order, a negative count looped as unsigned).
 * Every length 1 .. reach + 8 x service x rate x quick pixel formats x 4 fills + hard square wave, exact heap block. */
struct shjob { int svc; unsigned rate; };
static struct shjob *SJ; static uint64_t nsj;
static void shortline_case(uint64_t idx, void *arg)
{
        const _vbi_service_par *p = SVC[SJ[idx].svc]; unsigned rate = SJ[idx].rate;
        uint64_t ev = 0;
        int nf = mc_tier == MC_THOROUGH ? NFMT_ALL : NFMT_QUICK;
        static uint8_t y[MAXSPL], lb[MAXSPL * 4];
        for (int f = 0; f < nf; f++) {
                const struct fmtinfo *fi = &FM[f];
                vbi_bit_slicer probe;
                vbi_bit_slicer_init(&probe, 2048, rate, p->cri_rate, p->bit_rate, p->cri_frc, p->cri_frc_mask, p->cri_bits, p->frc_bits, p->payload, p->modulation, fi->f);
                unsigned nbits = probe.frc_bits + (probe.endian >= 2 ? probe.payload : probe.payload * 8);
                long reach = ((probe.phase_shift + (long)(nbits - 1) * probe.step) >> 8) + 1;
                long maxl = reach + 8; if (maxl > MAXSPL) maxl = MAXSPL;
                for (long L = 1; L <= maxl; L++) {
                        for (int fill = 0; fill <= NFILL; fill++) {
                                if (fill == NFILL) { unsigned half = rate / (2 * p->cri_rate) ? rate / (2 * p->cri_rate) : 1; for (long i = 0; i < L; i++) y[i] = ((i / half) & 1) ? 0xFF : 0x00; }
                                else fill_y(y, (int) L, fill);
                                y_to_fmt(fi, y, (int) L, lb);
                                vbi_bit_slicer bs;
                                mc_case("legacy vbi_bit_slice: line shorter than the signal, read past raw_samples",
                                        "%s rate=%u fmt=%s raw_samples=%ld (signal needs %ld) fill=%s", svc_short(p), rate, fi->name, L, reach, fill == NFILL ? "square wave at the CRI rate" : fill_name[fill]);
                                vbi_bit_slicer_init(&bs, (int) L, rate, p->cri_rate, p->bit_rate, p->cri_frc, p->cri_frc_mask, p->cri_bits, p->frc_bits, p->payload, p->modulation, fi->f);
                                uint8_t *blk = mc_exact(lb, (size_t) L * fi->bpp);
                                uint8_t out[64 + 8]; memset(out, 0xC3, sizeof out);
                                vbi_bit_slice(&bs, blk, out);
                                for (int i = 64; i < 72; i++) if (out[i] != 0xC3) mc_violation("legacy vbi_bit_slice: writes past the payload buffer", "%s raw_samples=%ld", svc_short(p), L);
                                free(blk);
                                ev++;
                        }
                }
        }
        mc_count("evaluations", ev); mc_count("legacy_short_line_decodes", ev);
        mc_distinct(0x5107000000ull + idx);
        if (idx == 0) mc_sample("legacy-short-lines: %s at %u Hz, every raw_samples 1..reach+8, %d pixel formats, 5 line contents, exactly sized heap block", svc_short(p), rate, nf);
}

int main(int argc, char **argv)
{
        mc_init(argc, argv, "C05");
        mc_set_budget(240, 1800);
        mc_meta("level", "model_checking");
        mc_meta("technique", "bounded-exhaustive configuration x recognition-position enumeration on the real slicers: analytic worst-case read index from the configured slicer state + forced CRI/FRC recognition at every reachable search iteration, line/image ending at a guard page (recoverable, measures the extent) and on exactly sized heap blocks under ASan");
        mc_meta("rule", "a case is one (service row, sampling rate); inside it every samples_per_line variant x pixel format x sample_offset is configured, 4 no-CRI lines drive the CRI search to its limit, and synthesised waveforms (nominal-level and hard) are placed at every template position of the window around the search limit (fine grid) or at every position of the line (coarse grid), rest of the line in 4 fill patterns; distinct = (service, rate, length, offset, recognition iteration) measured through the sampling point API on Y8, plus one per image layout / output case");
        PTS = malloc(sizeof *PTS * MAXPTS);

        for (const _vbi_service_par *p = _vbi_service_table; p->id; p++) {
                if (p->id == VBI_SLICED_VBI_625 || p->id == VBI_SLICED_VBI_525) continue;
                SVC[nsvc++] = p;
        }
        for (int s = 0; s < nsvc; s++) build_rates(s, 0);
        for (int s = 0; s < nsvc; s++) njobs += nrates[s];
        JOBS = calloc(njobs, sizeof *JOBS);
        uint64_t q = 0;
        /* interleave services so that the expensive ones spread over the workers */
        for (int k = 0; k < MAXRATES; k++) for (int s = 0; s < nsvc; s++) if (k < nrates[s]) { JOBS[q].svc = s; JOBS[q].rate = RATES[s][k]; q++; }
        uint64_t fine_rates = njobs;
        mc_meta("bound", "%d service rows x fine rate grid (%llu (service,rate) pairs, admission minimum .. 40 MHz, %s ladder + named capture rates + low-pass threshold +-1 Hz%s) x samples_per_line {min, min+7, 2048; thorough also min+1, next multiple of 720} x %d pixel formats x sample_offset {0,3}: no-CRI lines + limit window; coarse grid (%s capture rates + admission minimum + low-pass threshold): every template position and every 0x00->0xFF step position; images: 1 and 3 lines per field, sequential/interlaced, synchronous or not, unknown line numbers, last line in memory carries the late signal, max_lines {0,1,D-1,D}; buffer_size 1..payload bytes; sampling point arrays with blank 2048 sample lines; admitted layouts: every (count[0], count[1]) in 0..3 x 0..3 (equal, unequal, one field), interlaced/sequential, synchronous or not, line numbers known/unknown - whatever add_services admits is decoded from an exactly sized image (blank, white, signal on every line)",
                nsvc, (unsigned long long) fine_rates, mc_tier == MC_THOROUGH ? "250 kHz" : "2 MHz", mc_tier == MC_THOROUGH ? " + 0/+-12.5 kHz around every integer samples-per-bit rate" : "",
                mc_tier == MC_THOROUGH ? NFMT_ALL : NFMT_QUICK, mc_tier == MC_THOROUGH ? "9" : "4");
        mc_meta("assume", "sampling rates above 40 MHz and PAL8 are not enumerated; in the grid phases the legacy slicer is only configured with raw_samples that vbi3_bit_slicer_set_params admits; phase legacy-short-lines gives it every shorter line");
        mc_meta("assume", "image content only selects the CRI-search iteration at which CRI/FRC are recognised; read addresses are a function of that iteration and the configuration (checked: the measured extent never exceeds the analytic worst case, see outcomes)");

        if (!mc_replaying) analytic_map();

        mc_pool("slicer-window", njobs, window_case, NULL, 120);

        /* coarse grid for the full sweep */
        {
                uint64_t n = 0;
                for (int s = 0; s < nsvc; s++) build_rates(s, 1);
                int nfi = mc_tier == MC_THOROUGH ? NFMT_QUICK : 2;
                for (int s = 0; s < nsvc; s++) n += (uint64_t) nrates[s] * 3 * nfi;
                SJOBS = calloc(n, sizeof *SJOBS);
                static const int fsel[NFMT_QUICK] = { 0, 3, 1, 2, 4, 5 };
                for (int k = 0; k < MAXRATES; k++) for (int s = 0; s < nsvc; s++) if (k < nrates[s])
                        for (int si = 0; si < 3; si += 2)             /* min and min+7 */
                                for (int f = 0; f < nfi; f++) {
                                        if (mc_tier != MC_THOROUGH && si == 2 && f) continue;
                                        SJOBS[nsjobs].svc = s; SJOBS[nsjobs].rate = RATES[s][k]; SJOBS[nsjobs].si = si; SJOBS[nsjobs].fi = fsel[f]; nsjobs++;
                                }
                mc_pool("slicer-sweep", nsjobs, sweep_case, NULL, 300);

                uint64_t rn = 0;
                int rnf = mc_tier == MC_THOROUGH ? NFMT_ALL : 3;
                for (int s = 0; s < nsvc; s++) rn += (uint64_t) nrates[s] * (rnf + 1);
                RJOBS = calloc(rn, sizeof *RJOBS); rn = 0;
                for (int k = 0; k < MAXRATES; k++) for (int s = 0; s < nsvc; s++) if (k < nrates[s])
                        for (int f = 0; f < rnf; f++) for (int big = 0; big <= 1; big++) {
                                if (big && f) continue;
                                RJOBS[rn].svc = s; RJOBS[rn].rate = RATES[s][k]; RJOBS[rn].fi = mc_tier == MC_THOROUGH ? f : fsel[f]; RJOBS[rn].big = big; rn++;
                        }
                nrjobs = rn;
                mc_pool("rawdec-images", nrjobs, rawdec_case, NULL, 120);

                mc_pool("slicer-output-size", nsvc, outsize_case, NULL, 60);

                NJOBS = calloc((uint64_t) nsvc * MAXRATES * 2, sizeof *NJOBS);
                for (int k = 0; k < MAXRATES; k++) for (int s = 0; s < nsvc; s++) if (k < nrates[s] && gen_supported(SVC[s]))
                        for (int t = 0; t <= 1; t++) { NJOBS[nnjobs].svc = s; NJOBS[nnjobs].rate = RATES[s][k]; NJOBS[nnjobs].tight = t; nnjobs++; }
                mc_pool("nominal-generator", nnjobs, nominal_case, NULL, 60);

                PJOBS = calloc((uint64_t) nsvc * MAXRATES, sizeof *PJOBS);
                for (int k = 0; k < MAXRATES; k++) for (int s = 0; s < nsvc; s++) if (k < nrates[s]) { PJOBS[npjobs].svc = s; PJOBS[npjobs].rate = RATES[s][k]; npjobs++; }
                mc_pool("debug-sampling-points", npjobs, points_case, NULL, 120);

                LJOBS = calloc((uint64_t) nsvc * MAXRATES * 2, sizeof *LJOBS);
                for (int k = 0; k < MAXRATES; k++) for (int s = 0; s < nsvc; s++) if (k < nrates[s])
                        for (int f = 0; f < (mc_tier == MC_THOROUGH ? 2 : 1); f++) {
                                if (mc_tier != MC_THOROUGH && k > 1) continue;
                                LJOBS[nljobs].svc = s; LJOBS[nljobs].rate = RATES[s][k]; LJOBS[nljobs].fi = f ? 1 : 0; nljobs++;
                        }
                mc_pool("admitted-layouts", nljobs, layout_case, NULL, 120);

                SJ = calloc((uint64_t) nsvc * MAXRATES, sizeof *SJ);
                for (int k = 0; k < MAXRATES; k++) for (int s = 0; s < nsvc; s++) if (k < nrates[s]) {
                        if (mc_tier != MC_THOROUGH && k > 2) continue;
                        SJ[nsj].svc = s; SJ[nsj].rate = RATES[s][k]; nsj++;
                }
                mc_pool("legacy-short-lines", nsj, shortline_case, NULL, 120);
        }
        return mc_finish();
}
