/* C13 - station, programme, time and aspect announcements are faithful and
 * debounced.
 *
 * E2 (mc_bfs) over reception histories fed to the real vbi_decode(), plus flat
 * exhaustive phases over the value ranges, with an event-log oracle: every
 * VBI_EVENT_NETWORK / NETWORK_ID / PROG_ID / LOCAL_TIME / ASPECT callback raised
 * while one reception is decoded is recorded and audited against a reference
 * model of what was transmitted (audit, not prediction: the property says
 * "only after", so most clauses forbid events; the few that demand one are
 * listed under MUST below).
 *
 * Sliced lines are BUILT here from independent layouts (VPS: EN 300 231 bit
 * placement as in harness/C12.c; 8/30 format 1/2: EN 300 706 9.8.1/9.8.2 reference
 * encoders as in C12.c; WSS: EN 300 294 group 1..4; XDS: EIA-608 channel
 * information class packets with parity and checksum).  Station names and ids are
 * looked up by an own scan of vbi_cni_table (data), not through station_lookup().
 *
 * Reference model (PAL carriers VPS, 8/30-1, 8/30-2), per carrier c:
 *   last value, rep = number of consecutive identical receptions on c,
 *   confirmed = last value that reached rep >= 2, announced = a NETWORK_ID was
 *   raised for the current run of identical values; ident = table id of the
 *   station announced by the last legitimate NETWORK event (0 = none).
 * Clauses checked for a reception of value v on carrier c (sid = table id of v):
 *   FORBID  any NETWORK/NETWORK_ID when rep < 2                  (debounce)
 *   FORBID  a second NETWORK_ID while the same value keeps arriving
 *   FORBID  NETWORK unless rep >= 2 and sid != ident; never two for one reception
 *   FAITH   event cni field of c == v; (nuid, name) == a table entry listing v,
 *           or (0, "") when no entry does; fields of the OTHER carriers are 0 or
 *           a value confirmed on that carrier (an identifier is announced only
 *           after it has been received again unchanged)
 *   MUST    rep == 2, v != 0, sid != 0, sid != ident: exactly one NETWORK
 *   CACHE   legit NETWORK with ident != 0 before: vbi_is_cached(page) false after;
 *           every other reception: vbi_is_cached unchanged (first identification
 *           keeps the pages: they are this station's)
 *   PROG_ID VPS: only when the previous VPS line carried the same CNI/PIL/PCS/PTY,
 *           values as transmitted; 8/30-2: values as transmitted.  A PROG_ID or
 *           LOCAL_TIME repeated with an unchanged value is accepted (the decoder
 *           documents it as a heartbeat; the "not again" clause of the property
 *           is about identifiers and WSS).
 *   ASPECT  on a WSS line: only with valid parity, on the 4th or later identical
 *           reception in a row (>= 3 repeats), values per EN 300 294, not equal to
 *           the aspect announced last, and DEMANDED then when it differs from the aspect announced last
 *           (seed C13 round 5, see below); on a CNI line: only the documented blank
 *           revocation {23,310,1.0,0,UNKNOWN} in the same reception as a legit
 *           station change of an identified station.
 *   a rejected packet (8/30-2 with an uncorrectable Hamming error, XDS with a bad
 *   checksum) raises nothing and changes nothing.
 * XDS (line 284): a station is identified by its call letters when it sends any,
 *   else by its network name (this is how vbi_network.nuid is derived); the name
 *   packet is debounced as above and triggers the announcement, the call letters
 *   are checksum protected and taken as received; NETWORK only when the station
 *   or its network name differs from the identified one, MUST when a name is
 *   confirmed (rep == 2) and the station differs.
 * Flat phases additionally DEMAND the announcement on a fresh decoder: value
 *   twice -> exactly one NETWORK_ID (+ NETWORK iff the table knows it), PROG_ID /
 *   LOCAL_TIME per reception, WSS word 4 times -> exactly one ASPECT iff parity ok.
 *
 * Decision on the DESIGN note (shared network.cycle): it does contradict the
 * property.  VPS A ; VPS A ; 8/30-x first reception ; VPS A raises a second
 * NETWORK_ID for the unchanged VPS CNI and that event carries the 8/30 CNI after a
 * single reception; both clauses ("not announced again", "only after it has been
 * received again unchanged") are violated by the same event.  Keys, minimal
 * histories and proposed patches: mutants/C13/README.md.
 *
 * Channel-switch countdown (phase pal-gap: VPS A, VPS B, Teletext page 201, letter
 * "gap" = the next frame carries a timestamp jump of +1 s, letter "45 regular
 * empty frames"): reference model in frame().  A timestamp step outside 25..50 ms
 * arms 40 regular frames; an identified station change ends the countdown (that
 * is what vbi_chsw_reset() does and the only thing demanded here: a first
 * identification or the same station confirmed again after the gap do NOT end it
 * in the decoder, see the outcome labels); when it runs out: exactly one
 * NETWORK with an all-zero vbi_network if a station was identified, pages
 * dropped.  Any other all-zero NETWORK is a violation ("NETWORK event with nuid 0
 * and no identifier although no channel-switch countdown is pending [...]").  Page
 * 201 (magazine 2, parallel mode, > 199) is no rolling header and does not end the
 * countdown; vbi_is_cached() is observed after every letter (no probe letter).
 *
 * Rolling Teletext headers (seed C13 round 5, phase pal-hdr): the plain Teletext letter (page 201, one canned
 * header without a page number) never reaches the decoder's rolling-header comparison, so what a Teletext page
 * of the NEW station does after an identified station change was never observed.  Letters: pages 100 / 101 with
 * the header text of station A or B containing the page number, page 200 in magazine serial mode (other
 * magazine), page 100 with a header that lacks its page number (inconclusive), next to VPS A / B / unknown CNI,
 * 8/30-1 B and page 201; vbi_is_cached() of 201, 100, 101, 200 is observed after every letter (a bit mask).
 * Oracle in audit_roll(): a page raises no network event and drops nothing, the page itself is cached - in
 * particular the first pages of the new station after an identified change ("exactly one network event", and the
 * pages dropped are those of the OLD station); only a header that contradicts the header learned since the last
 * reset, in the same magazine, may be taken as an unidentified channel switch (all-zero NETWORK iff a station was
 * identified, everything dropped) - accepted as documented, not demanded.  Rolling pages and timestamp gaps are
 * not combined in one phase (a matching header ends the countdown in the decoder; not modelled).
 *
 * WSS transitions (seed C13 round 5): pal_feed() DEMANDS the ASPECT event when a word with valid parity has been
 * received four times in a row and decodes to something else than the aspect announced last (key: which decoded
 * members differ) - otherwise the application keeps stale values while other ones are on air.  Phase
 * sweep-wss-transition drives every ordered pair of the 64 decodable classes (format x film bit x open
 * subtitles) through one decoder, phase pal-wss has a third valid word that differs from the first one in the
 * open-subtitles bits only.
 *
 * Violation keys of the CNI carriers carry a cause class computed from the
 * history alone: "[another CNI carrier received since this carrier's last
 * announcement]" (or since the start of the history when it was never announced;
 * CNI carriers: VPS, 8/30-1, 8/30-2) versus "[single carrier since its last
 * announcement]"; "more than one NETWORK event" carries "[confirmed CNI is not in
 * the station table (nuid 0)]" versus "[... is a table station]"; XDS keys end in
 * "[XDS]".  The known findings (shared network.cycle, vbi_chsw_reset(vbi, 0) on an
 * unknown CNI) exist only in the first class of each pair.
 *
 * Deviations from DESIGN.md C13:
 *   - VBI_EVENT_NETWORK documents that VPS/Teletext and XDS identifiers "will not
 *     combine in real life, feeding the decoder with artificial data can confuse
 *     the logic": XDS histories are a BFS phase of their own (with Teletext page
 *     and empty frame), not interleaved with VPS/8/30.
 *   - the alphabet is explored in PAL sub-alphabets (the first 18 letters shallow,
 *     CNI carriers without WSS deeper, WSS + two VPS stations deepest, rolling
 *     Teletext headers + CNI carriers, timestamp gaps) because WSS needs >= 4 letters
 *     per announcement and multiplies the state space.
 *   - frame drops only in the dedicated phase pal-gap; elsewhere every frame
 *     advances time by 0.04 s and chswcd stays 0.
 *   - time() is not reached from vbi_decode() on these paths (only pdc.c PIL
 *     conversion calls it), so no --wrap=time is needed.
 *   - CNI 0xDC3 (VPS) / 0x0DC3 (8/30-2) is skipped in the flat phases: the
 *     decoder rewrites it to ARD/ZDF by TR 101 231 (covered as specified by C12).
 */
#include <stdio.h>
#include <stdlib.h>
#include <string.h>
#include <stdarg.h>
#include "mc.h"
#include "src/vbi.h"
#include "src/hamm.h"
#include "src/tables.h"

/* ======================================================================== */
/* independent layouts (see harness/C12.c)                                   */

struct bitpos { unsigned char byte, bit; };
static const struct bitpos vps_cni_pos[12] = {
        {11,0},{11,1},{11,2},{11,3},{11,4},{11,5}, { 8,6},{ 8,7}, {11,6},{11,7}, {10,0},{10,1},
};
static const struct bitpos vps_pil_pos[20] = {
        {10,2},{10,3},{10,4},{10,5},{10,6},{10,7},
        { 9,0},{ 9,1},{ 9,2},{ 9,3},{ 9,4},{ 9,5},{ 9,6},{ 9,7},
        { 8,0},{ 8,1},{ 8,2},{ 8,3},{ 8,4},{ 8,5},
};
static const struct bitpos vps_pcs_pos[2] = { {2,6},{2,7} };
static const struct bitpos vps_pty_pos[8] = { {12,0},{12,1},{12,2},{12,3},{12,4},{12,5},{12,6},{12,7} };

static void put_field(uint8_t *b, const struct bitpos *p, int n, unsigned v)
{
        for (int i = 0; i < n; i++) {
                b[p[i].byte] &= ~(1u << p[i].bit);
                b[p[i].byte] |= ((v >> i) & 1u) << p[i].bit;
        }
}
static unsigned ref_rev8(unsigned c)
{
        unsigned r = 0;
        for (int i = 0; i < 8; i++) if (c & (1u << i)) r |= 0x80u >> i;
        return r;
}
static unsigned enc_digits(unsigned v, int n) { unsigned r = 0; for (int i = 0; i < n; i++) { r |= ((v % 10) + 1) << (4 * i); v /= 10; } return r; }

/* ---- what one reception carries ---------------------------------------- */

enum { K_VPS, K_8301, K_8302, K_WSS, K_TTX, K_EMPTY, K_XNAME, K_XCALL, K_GAP, K_IDLE40, K_ROLL };
enum { CAR_VPS, CAR_8301, CAR_8302, NCAR };
static const char *CARN[NCAR] = { "VPS", "8/30-1", "8/30-2" };
enum { DMG_NONE, DMG_SINGLE, DMG_DOUBLE };    /* 8/30-2: corrected / uncorrectable Hamming error; XDS: DOUBLE = bad checksum */

struct rx {
        int kind;
        unsigned cni, pil, pcs, pty;             /* VPS, 8/30-2 */
        unsigned lci, luf, prf, mi;              /* 8/30-2 */
        unsigned mjd, h, m, s, lto;              /* 8/30-1 */
        int damage;
        unsigned wss;                            /* 14 (16) bit word, bit 0 first */
        const char *str;                         /* XDS */
        const char *name;
        unsigned pgno; int stn, serial, nopgno;  /* K_ROLL: rolling Teletext page, header text of station stn (0 = A, 1 = B) */
};

static void build_vps(vbi_sliced *sl, const struct rx *r)
{
        memset(sl, 0, sizeof *sl);
        sl->id = VBI_SLICED_VPS; sl->line = 16;
        put_field(sl->data, vps_cni_pos, 12, r->cni);
        put_field(sl->data, vps_pil_pos, 20, r->pil);
        put_field(sl->data, vps_pcs_pos, 2, r->pcs);
        put_field(sl->data, vps_pty_pos, 8, r->pty);
}
static void ttx_address(uint8_t *b, int mag, int packet)
{
        unsigned pmag = (mag & 7) | (packet << 3);
        b[0] = vbi_ham8(pmag & 15); b[1] = vbi_ham8(pmag >> 4);
}
/* EN 300 706 9.8.1 */
static void build_8301(vbi_sliced *sl, const struct rx *r)
{
        memset(sl, 0, sizeof *sl);
        sl->id = VBI_SLICED_TELETEXT_B; sl->line = 20;
        uint8_t *b = sl->data;
        ttx_address(b, 8, 30);
        b[2] = vbi_ham8(0);                                 /* designation code: format 1, multiplexed */
        for (int i = 3; i <= 8; i++) b[i] = vbi_ham8(0);    /* initial page */
        b[9] = ref_rev8(r->cni >> 8); b[10] = ref_rev8(r->cni & 0xFF);
        b[11] = r->lto;
        unsigned mraw = enc_digits(r->mjd, 5), uraw = enc_digits(r->h * 10000 + r->m * 100 + r->s, 6);
        b[12] = (mraw >> 16) & 15; b[13] = mraw >> 8; b[14] = mraw;
        b[15] = uraw >> 16; b[16] = uraw >> 8; b[17] = uraw;
        for (int i = 18; i < 42; i++) b[i] = vbi_par8(' ');
}
static void ref_8301_time(const struct rx *r, int64_t *t, int *east)
{
        *t = ((int64_t) r->mjd - 40587) * 86400 + r->h * 3600 + r->m * 60 + r->s;
        int off = ((r->lto >> 1) & 31) * 1800;
        *east = (r->lto & 0x40) ? -off : off;
}
/* EN 300 706 9.8.2 / EN 300 231 */
static void build_8302(vbi_sliced *sl, const struct rx *r)
{
        memset(sl, 0, sizeof *sl);
        sl->id = VBI_SLICED_TELETEXT_B; sl->line = 21;
        uint8_t *buf = sl->data;
        unsigned B[13];
        for (int i = 0; i < 42; i++) buf[i] = vbi_ham8(0);
        ttx_address(buf, 8, 30);
        buf[2] = vbi_ham8(2);                               /* format 2, multiplexed */
        B[6]  = (r->lci << 2) | (r->luf << 1) | r->prf;
        B[7]  = (r->pcs << 6) | (r->mi << 5) | ((r->cni >> 12) & 15);
        B[8]  = (((r->cni >> 6) & 3) << 6) | ((r->pil >> 14) & 0x3F);
        B[9]  = (r->pil >> 6) & 0xFF;
        B[10] = ((r->pil & 0x3F) << 2) | ((r->cni >> 10) & 3);
        B[11] = (((r->cni >> 8) & 3) << 6) | (r->cni & 0x3F);
        B[12] = r->pty;
        buf[9] = vbi_ham8(ref_rev8(B[6] << 4) & 15);
        for (int i = 7; i <= 12; i++) {
                unsigned v = ref_rev8(B[i]);
                buf[2 * i - 4] = vbi_ham8(v & 15);
                buf[2 * i - 3] = vbi_ham8(v >> 4);
        }
        for (int i = 22; i < 42; i++) buf[i] = vbi_par8(' ');
        if (r->damage == DMG_SINGLE) buf[16] ^= 0x04;       /* a CNI byte, corrected by Hamming 8/4 */
        if (r->damage == DMG_DOUBLE) buf[16] ^= 0x05;       /* uncorrectable */
}
static void build_wss(vbi_sliced *sl, unsigned w)
{
        memset(sl, 0, sizeof *sl);
        sl->id = VBI_SLICED_WSS_625; sl->line = 23;
        sl->data[0] = w & 0xFF; sl->data[1] = (w >> 8) & 0xFF;
}
/* EN 300 294: expected aspect for a WSS word; returns parity ok */
static int ref_wss(unsigned w, vbi_aspect_ratio *a, int *anamorphic)
{
        int b[4] = { w & 1, (w >> 1) & 1, (w >> 2) & 1, (w >> 3) & 1 };
        int ok = (b[0] + b[1] + b[2] + b[3]) & 1;            /* odd parity over group 1 */
        static const struct { int first, last; } act[8] = {
                /* half of 576 / 504 / 430 active lines, first field numbering from line 23 */
                {23,310}, {41,292}, {23,274}, {59,273}, {23,237}, {59,273}, {23,310}, {23,310}
        };
        int fmt = w & 7;
        memset(a, 0, sizeof *a);
        a->first_line = act[fmt].first; a->last_line = act[fmt].last;
        a->ratio = 1.0; *anamorphic = (fmt == 7);
        a->film_mode = (w >> 4) & 1;
        switch ((w >> 9) & 3) {                              /* b9 b10 */
        case 0: a->open_subtitles = VBI_SUBT_NONE; break;
        case 1: a->open_subtitles = VBI_SUBT_ACTIVE; break;   /* b9: inside the active image */
        case 2: a->open_subtitles = VBI_SUBT_MATTE; break;    /* b10: outside */
        default: a->open_subtitles = VBI_SUBT_UNKNOWN; break;
        }
        return ok;
}

/* ---- station table, own scan --------------------------------------------- */

#define MAXENT 8
struct entset { int n; const struct vbi_cni_entry *e[MAXENT]; };

static void ref_lookup(int car, unsigned cni, struct entset *s)
{
        const struct vbi_cni_entry *p;
        s->n = 0;
        if (!cni) return;
        if (car == CAR_8301) {
                for (p = vbi_cni_table; p->name; p++) if (p->cni1 == cni && s->n < MAXENT) s->e[s->n++] = p;
        } else if (car == CAR_VPS) {
                for (p = vbi_cni_table; p->name; p++) if (p->cni4 == cni && s->n < MAXENT) s->e[s->n++] = p;
        } else {
                for (p = vbi_cni_table; p->name; p++) if (p->cni2 == cni && s->n < MAXENT) s->e[s->n++] = p;
                /* TR 101 231: the VPS code is the 8/30-2 code without the leading country nibble */
                if (!s->n && (cni & 0xFFF))
                        for (p = vbi_cni_table; p->name; p++) if (p->cni4 == (cni & 0xFFF) && s->n < MAXENT) s->e[s->n++] = p;
        }
}
static int name_matches(const signed char *got, const char *want)
{
        size_t l = strlen(want);
        if (l > 62) l = 62;                                   /* vbi_network.name holds 63 bytes + NUL; the decoder keeps 62 */
        return strlen((const char *) got) == l && !memcmp(got, want, l);
}

/* ======================================================================== */
/* decoder under test + event log                                            */

struct evrec { int type; vbi_network net; vbi_program_id pid; vbi_local_time lt; vbi_aspect_ratio asp; };
#define MAXLOG 24
static struct evrec LOG[MAXLOG]; static int nlog, log_overflow;
static struct { vbi_decoder *vbi; double t; int gap_pending; } D;

#define EVMASK (VBI_EVENT_NETWORK | VBI_EVENT_NETWORK_ID | VBI_EVENT_PROG_ID | VBI_EVENT_LOCAL_TIME | VBI_EVENT_ASPECT | VBI_EVENT_TTX_PAGE)

static void on_event(vbi_event *ev, void *ud)
{
        if (ev->type == VBI_EVENT_TTX_PAGE) return;
        if (nlog >= MAXLOG) { log_overflow = 1; return; }
        struct evrec *e = &LOG[nlog++];
        memset(e, 0, sizeof *e);
        e->type = ev->type;
        switch (ev->type) {
        case VBI_EVENT_NETWORK: case VBI_EVENT_NETWORK_ID: e->net = ev->ev.network; break;
        case VBI_EVENT_PROG_ID: e->pid = *ev->ev.prog_id; break;
        case VBI_EVENT_LOCAL_TIME: e->lt = *ev->ev.local_time; break;
        case VBI_EVENT_ASPECT: e->asp = ev->ev.aspect; break;
        default: break;
        }
}
static void dec_new(void)
{
        D.vbi = vbi_decoder_new();
        if (!D.vbi || !vbi_event_handler_register(D.vbi, EVMASK, on_event, NULL)) { fprintf(stderr, "C13: cannot create decoder\n"); exit(42); }
        D.t = 1000.0; D.gap_pending = 0;
}
static void dec_delete(void) { vbi_decoder_delete(D.vbi); D.vbi = NULL; }
static void frame(vbi_sliced *s, int n);        /* defined after the reference model: it tracks the channel-switch countdown */

#define TTX_PGNO 0x201
static void ttx_packet(vbi_sliced *s, int mag, int packet)
{
        memset(s, 0, sizeof *s);
        s->id = VBI_SLICED_TELETEXT_B; s->line = 7 + packet;
        ttx_address(s->data, mag, packet);
        for (int i = 2; i < 42; i++) s->data[i] = vbi_par8(' ');
}
static void ttx_header(vbi_sliced *s, int mag, int page)
{
        ttx_packet(s, mag, 0);
        s->data[2] = vbi_ham8(page & 15); s->data[3] = vbi_ham8(page >> 4);
        for (int i = 4; i < 10; i++) s->data[i] = vbi_ham8(0);
        const char *t = "C13 PAGE";
        for (int i = 0; t[i]; i++) s->data[10 + i] = vbi_par8(t[i]);
}
static int own_bit;                             /* probe bit of the page the current frame itself carries */
/* pages observed with vbi_is_cached() after every letter; bit 0 is the page of the plain Teletext letter */
static const int PROBE[] = { TTX_PGNO, 0x100, 0x101, 0x200 };
enum { NPROBE = sizeof PROBE / sizeof PROBE[0] };
static int probe_bit(unsigned pgno) { for (int i = 0; i < NPROBE; i++) if (PROBE[i] == (int) pgno) return 1 << i; return 0; }
static int cached_mask(void) { int m = 0; for (int i = 0; i < NPROBE; i++) if (vbi_is_cached(D.vbi, PROBE[i], VBI_ANY_SUBNO)) m |= 1 << i; return m; }
/* page 201: header, row 1, terminating header 2FF (see harness/C11.c) */
static void feed_ttx_page(void)
{
        vbi_sliced s[3];
        ttx_header(&s[0], 2, 0x01);
        ttx_packet(&s[1], 2, 1);
        for (int i = 0; i < 5; i++) s[1].data[2 + i] = vbi_par8("HELLO"[i]);
        ttx_header(&s[2], 2, 0xFF);
        own_bit = probe_bit(TTX_PGNO);
        frame(s, 3);
        own_bit = 0;
}
/* Rolling pages (seed C13 round 5): a page whose header carries the station's own text and the page number
 * as text, as the header of a real station does (EN 300 706 9.3.1: 24 characters + 8 characters clock).  The
 * decoder compares the header of every such page with the one it learned after the last reset
 * (store_lop()/same_header(): page <= 199 or magazine serial mode, BCD, none of C5 C6 C7 C9 C10); a different
 * header in the same magazine is taken as an unannounced channel switch.  Header row, row 1, terminating
 * header xFF, one frame. */
static const char *HDR_TXT[2] = { "ARD-Text", "ZDFtext" };
static void roll_header(vbi_sliced *s, unsigned pgno, int stn, int serial, int nopgno)
{
        char t[40], num[8];
        ttx_packet(s, (pgno >> 8) & 7, 0);
        s->data[2] = vbi_ham8(pgno & 15); s->data[3] = vbi_ham8((pgno >> 4) & 15);
        for (int i = 4; i < 9; i++) s->data[i] = vbi_ham8(0);            /* subcode 0, C4..C10 clear */
        s->data[9] = vbi_ham8(serial ? 1 : 0);                           /* C11 magazine serial */
        snprintf(num, sizeof num, "%03x", pgno);
        snprintf(t, sizeof t, "%-8.8s %3.3s Mo 01 Jan  12:00:00", HDR_TXT[stn], nopgno ? "" : num);
        for (int i = 0; i < 32; i++) s->data[10 + i] = vbi_par8(t[i]);
}
static void feed_roll_page(const struct rx *r)
{
        vbi_sliced s[3]; char row[41];
        roll_header(&s[0], r->pgno, r->stn, r->serial, r->nopgno);
        ttx_packet(&s[1], (r->pgno >> 8) & 7, 1);
        snprintf(row, sizeof row, "%-8.8s page %03x", HDR_TXT[r->stn], r->pgno);
        for (int i = 0; row[i]; i++) s[1].data[2 + i] = vbi_par8(row[i]);
        roll_header(&s[2], (r->pgno & 0xF00) | 0xFF, r->stn, r->serial, 1);
        own_bit = probe_bit(r->pgno);
        frame(s, 3);
        own_bit = 0;
}

/* XDS: class channel information (start 0x05), type 1 network name / 2 call letters */
static void feed_xds(int type, const char *str, int bad_checksum)
{
        uint8_t pk[40]; int n = 0; unsigned sum;
        pk[n++] = 0x05; pk[n++] = type;
        for (const char *p = str; *p; p++) pk[n++] = *p;
        if (n & 1) pk[n++] = 0;
        pk[n++] = 0x0F;
        sum = 0; for (int i = 0; i < n; i++) sum += pk[i];
        pk[n++] = (0x80 - (sum & 0x7F)) & 0x7F;
        if (bad_checksum) pk[n - 1] ^= 0x01;
        for (int i = 0; i < n; i += 2) {
                vbi_sliced s; memset(&s, 0, sizeof s);
                s.id = VBI_SLICED_CAPTION_525; s.line = 284;
                s.data[0] = vbi_par8(pk[i]); s.data[1] = vbi_par8(pk[i + 1]);
                frame(&s, 1);
        }
}

/* ======================================================================== */
/* reference model + audit                                                   */

struct ref_car { int have; unsigned val; int rep, announced, other_since, have_conf; unsigned conf; };
static struct {
        struct ref_car car[NCAR];
        unsigned ident;
        int vps_prev_have; unsigned vps_prev[4];
        int wss_have; unsigned wss_word; int wss_rep;
        int asp_have; vbi_aspect_ratio asp;
        /* XDS */
        int xn_have; char xn[36]; int xn_rep, x_announced;
        int xc_have; char xc[36];
        int xi_have; char xi_name[36], xi_key[36];
        /* channel-switch countdown (vbi_decode): armed by a timestamp gap, 40 regular frames */
        int started, cd, gap_seen, expired, id_under_cd;
        /* rolling Teletext header learned since the last reset: station text and page (magazine) */
        int hdr_have, hdr_stn, after_change; unsigned hdr_pgno;
} R;
static int frame_viol;

static const char *ctx_desc = "";          /* flat phases: what is being fed */
static const uint8_t *ctx_hist; static int ctx_n; static const char *(*ctx_letter)(int, void *); static void *ctx_arg;
static uint64_t n_events, n_receptions;
static unsigned outcomes_seen;

enum { O_FIRST_ID, O_CHANGE_DROP, O_DEVIATION_KEPT, O_UNKNOWN_ID, O_WSS_ANNOUNCED, O_WSS_BADPAR_SILENT, O_WSS_SAME_SILENT, O_REVOKE, O_VPS_PID, O_VPS_PID_SINGLE_SILENT,
       O_8302_PID, O_LOCAL_TIME, O_REJECTED_SILENT, O_CORRECTED_SAME, O_SECOND_CARRIER_ID, O_XDS_FIRST, O_XDS_CHANGE, O_XDS_CALL_REFINES, O_REANNOUNCE_AFTER_DEVIATION, O_ANON_RESET, O_ANON_AFTER_FIRST_ID, O_GAP_DISARMED,
       O_HDR_LEARNED, O_HDR_SAME, O_HDR_NEW_STATION_KEPT, O_HDR_RESET, O_HDR_OTHER_MAG, O_HDR_NOPGNO, O_WSS_ONE_MEMBER, O_N };
static const char *OUTN[O_N] = {
        "first identification: one NETWORK + NETWORK_ID on the repeat, pages kept",
        "station change: one NETWORK on the repeat, pages of the old station dropped",
        "single deviating reception: no NETWORK, pages kept",
        "unknown CNI confirmed: NETWORK_ID only, empty name",
        "WSS: ASPECT on the 4th identical reception with valid parity",
        "WSS: bad parity word repeated 4 times, no event",
        "WSS: same aspect keeps arriving, no further event",
        "station change revokes the aspect (blank ASPECT)",
        "VPS PROG_ID after double reception",
        "VPS PIL differs between the two receptions: no PROG_ID",
        "8/30-2 PROG_ID as transmitted",
        "8/30-1 LOCAL_TIME as transmitted",
        "rejected packet (uncorrectable): no event, no state change",
        "8/30-2 with corrected single bit error counts as the same value",
        "same station confirmed again (second carrier, or after a deviating reception): NETWORK_ID only",
        "XDS: first identification by network name",
        "XDS: station change, pages dropped",
        "XDS: call letters refine the identification",
        "XDS: same station confirmed again after a deviating reception or under a new network name (NETWORK_ID only)",
        "timestamp gap + 40 regular frames without an identified station change: one anonymous reset (NETWORK nuid 0 if a station was identified, pages dropped)",
        "station identified for the first time after a timestamp gap: countdown not disarmed, anonymous reset 40 frames later (accepted as documented frame-drop behaviour)",
        "station change after a timestamp gap disarms the countdown: 40 regular frames later nothing happens",
        "rolling header: first rolling page after a reset, header learned, page cached",
        "rolling header: same station text on another page, page cached, no event",
        "rolling header: first rolling page of the new station after an identified station change: cached, no further NETWORK event",
        "rolling header: text of another station in the same magazine without an identified change: anonymous reset (NETWORK nuid 0 if a station was identified), pages dropped (accepted as documented channel-switch detection)",
        "rolling header: text of another station in another magazine: page cached, no event",
        "rolling header: header without its page number is inconclusive: page cached, no event",
        "WSS: confirmed word differs from the announced one in a single decoded member: announced with the transmitted values",
};
static void outcome(int o) { if (!(outcomes_seen & (1u << o))) { outcomes_seen |= 1u << o; mc_outcome("%s", OUTN[o]); } }

static const char *hist_str(void)
{
        static char b[900]; size_t o = 0; b[0] = 0;
        if (!ctx_hist) return ctx_desc;
        for (int i = 0; i < ctx_n && o + 60 < sizeof b; i++)
                o += snprintf(b + o, sizeof b - o, "%s%s", i ? " ; " : "", ctx_letter(ctx_hist[i], ctx_arg));
        return b;
}
static const char *log_str(void)
{
        static char b[1600]; size_t o = 0; b[0] = 0;
        if (!nlog) return "(no event)";
        for (int i = 0; i < nlog && o + 200 < sizeof b; i++) {
                struct evrec *e = &LOG[i];
                switch (e->type) {
                case VBI_EVENT_NETWORK: case VBI_EVENT_NETWORK_ID:
                        o += snprintf(b + o, sizeof b - o, "%s{nuid=%u name='%s' call='%s' vps=%x 8301=%x 8302=%x} ", e->type == VBI_EVENT_NETWORK ? "NETWORK" : "NETWORK_ID",
                                      e->net.nuid, (const char *) e->net.name, (const char *) e->net.call, e->net.cni_vps, e->net.cni_8301, e->net.cni_8302);
                        break;
                case VBI_EVENT_PROG_ID:
                        o += snprintf(b + o, sizeof b - o, "PROG_ID{ch=%d cni=%x pil=%05x luf=%d mi=%d prf=%d pcs=%d pty=%x} ", e->pid.channel, e->pid.cni, e->pid.pil, e->pid.luf, e->pid.mi, e->pid.prf, e->pid.pcs_audio, e->pid.pty);
                        break;
                case VBI_EVENT_LOCAL_TIME:
                        o += snprintf(b + o, sizeof b - o, "LOCAL_TIME{t=%lld east=%d} ", (long long) e->lt.time, e->lt.seconds_east);
                        break;
                case VBI_EVENT_ASPECT:
                        o += snprintf(b + o, sizeof b - o, "ASPECT{%d-%d ratio=%g film=%d subt=%d} ", e->asp.first_line, e->asp.last_line, e->asp.ratio, e->asp.film_mode, e->asp.open_subtitles);
                        break;
                default:
                        o += snprintf(b + o, sizeof b - o, "event type 0x%x ", e->type);
                }
        }
        return b;
}

static int bad(const char *key, const char *fmt, ...) __attribute__((format(printf, 2, 3)));
static int bad(const char *key, const char *fmt, ...)
{
        char d[400]; va_list ap; va_start(ap, fmt); vsnprintf(d, sizeof d, fmt, ap); va_end(ap);
        mc_violation(key, "%s | history: %s | events raised by the last reception: %s", d, hist_str(), log_str());
        return 1;
}

/* "since its last announcement": or since the start of the history when it was never announced; CNI carriers: VPS, 8/30-1, 8/30-2 */
#define CLS_MIXED  "another CNI carrier received since this carrier's last announcement"
#define CLS_SINGLE "single carrier since its last announcement"
static const char *ck(const char *base, const char *cls)
{
        static char b[2][320]; static int k; char *o = b[k++ & 1];
        snprintf(o, sizeof b[0], "%s [%s]", base, cls);
        return o;
}

static int count_type(int type) { int n = 0; for (int i = 0; i < nlog; i++) n += LOG[i].type == type; return n; }
static int count_other(int allowed) { int n = 0; for (int i = 0; i < nlog; i++) n += !(LOG[i].type & allowed); return n; }

static int aspect_eq(const vbi_aspect_ratio *a, const vbi_aspect_ratio *b)
{
        return a->first_line == b->first_line && a->last_line == b->last_line && a->ratio == b->ratio && a->film_mode == b->film_mode && a->open_subtitles == b->open_subtitles;
}

/* does the aspect announced last equal what the word on air decodes to?  (anamorphic: any ratio other than 1) */
static int aspect_same_ref(const vbi_aspect_ratio *announced, const vbi_aspect_ratio *want, int anam)
{
        return announced->first_line == want->first_line && announced->last_line == want->last_line && (announced->ratio != 1.0) == (anam != 0)
                && announced->film_mode == want->film_mode && announced->open_subtitles == want->open_subtitles;
}

/* station change side effects shared by PAL and XDS */
static int audit_cache(int changed, int had_ident, int cached_before, int cached_after, const char *what)
{
        if (changed && had_ident) {
                if (cached_after) return bad("pages of the old station still cached after the station changed", "%s", what);
                if (cached_before) outcome(O_CHANGE_DROP);
        } else if (cached_after != cached_before) {
                if (changed) return bad("cache cleared on the first identification of a station", "%s", what);
                return bad("cache cleared although the identified station did not change", "%s: vbi_is_cached %d -> %d", what, cached_before, cached_after);
        }
        return 0;
}
static void ref_station_reset(void)
{
        /* what the decoder documents to forget on a channel switch */
        R.asp_have = 0; R.wss_have = 0; R.wss_rep = 0;
        R.hdr_have = 0;                           /* the rolling header is learned again from the next page */
}
/* an unidentified channel switch (countdown ran out, rolling header of another station): nothing is known any more */
static void ref_anonymous_reset(void)
{
        R.ident = 0; R.id_under_cd = 0; R.after_change = 0;
        for (int c = 0; c < NCAR; c++) { int os = R.car[c].other_since; memset(&R.car[c], 0, sizeof R.car[c]); R.car[c].other_since = os; }
        ref_station_reset();
}

static int net_all_zero(const vbi_network *n)
{
        return n->nuid == 0 && n->name[0] == 0 && n->call[0] == 0 && n->cni_vps == 0 && n->cni_8301 == 0 && n->cni_8302 == 0;
}
static int find_anonymous(void) { for (int i = 0; i < nlog; i++) if (LOG[i].type == VBI_EVENT_NETWORK && net_all_zero(&LOG[i].net)) return 1; return 0; }
#define KEY_ANON "NETWORK event with nuid 0 and no identifier although no channel-switch countdown is pending"
static int bad_anonymous(const char *what)
{
        return bad(R.gap_seen ? KEY_ANON " [a timestamp gap precedes in the history]" : KEY_ANON " [no timestamp gap in the history]", "%s: identified station %u, reference countdown %d, decoder chswcd %d", what, R.ident, R.cd, D.vbi->chswcd);
}

/* One vbi_decode() call.  Reference model of the documented channel-switch detection: a timestamp
 * step outside 25..50 ms arms a countdown of 40 regular frames (if none is running; the very first frame
 * has no predecessor); an identified station change (vbi_chsw_reset with an id) ends it; when it runs
 * out the decoder assumes an unidentified channel switch: one NETWORK event with an all-zero
 * vbi_network if a station was identified, the blank ASPECT if one was announced, pages dropped,
 * everything about the old station forgotten.  These events are audited and removed from the log here,
 * the caller audits what the lines of the frame raised. */
static void frame(vbi_sliced *s, int n)
{
        int gap = D.gap_pending, expire = 0, l0 = nlog;
        D.gap_pending = 0;
        if (gap) D.t += 1.0;
        if (!R.started) R.started = 1;
        else if (gap) { if (R.cd == 0) R.cd = 40; }
        else if (R.cd > 0 && --R.cd == 0) expire = 1;
        vbi_decode(D.vbi, s, n, D.t); D.t += 0.04;
        if (!expire || frame_viol) return;
        int k = l0;
        if (R.ident) {
                if (!(k < nlog && LOG[k].type == VBI_EVENT_NETWORK && net_all_zero(&LOG[k].net))) { frame_viol = bad("channel-switch countdown ran out without the anonymous NETWORK event", "identified station %u", R.ident); return; }
                k++;
        }
        if (R.asp_have && k < nlog && LOG[k].type == VBI_EVENT_ASPECT) {
                static const vbi_aspect_ratio blank = { 23, 310, 1.0, 0, VBI_SUBT_UNKNOWN };
                if (aspect_eq(&LOG[k].asp, &blank)) k++;
        }
        memmove(&LOG[l0], &LOG[k], (nlog - k) * sizeof LOG[0]); nlog -= k - l0;
        if (cached_mask() & ~own_bit) { frame_viol = bad("pages still cached after the channel-switch countdown ran out", "identified station %u", R.ident); return; }
        if (R.ident) outcome(R.id_under_cd ? O_ANON_AFTER_FIRST_ID : O_ANON_RESET);
        R.expired = 1;
        ref_anonymous_reset();
}

/* A rolling Teletext page was received (seed C13 round 5).  What the property says about it: a page is no
 * carrier of a station identifier, so it raises no NETWORK / NETWORK_ID event and, when the identified station
 * did not change, clears nothing; after an identified station change the pages of the NEW station stay cached and
 * no further network event follows ("exactly one network event").  The one documented exception is the decoder's
 * own channel-switch detection (vbi_channel_switched(): "The decoder attempts to detect channel switches
 * automatically"): a rolling header whose text contradicts the header learned since the last reset, in the same
 * magazine, may be taken as an unidentified channel switch - exactly like the frame-drop countdown: one all-zero
 * NETWORK if a station was identified, the blank ASPECT if one was announced, all pages dropped (the page itself is
 * not stored).  That reset is accepted, not demanded; whether it took place is observed with vbi_is_cached() of
 * the page just received.  Reference: the header (station text, magazine) learned from the first rolling page
 * after a reset; a header without its page number is inconclusive and teaches nothing. */
#define KEY_HDR_ANON KEY_ANON " [rolling Teletext page; no header of another station learned since the last reset]"
static int audit_roll(const struct rx *r, int cached_before, int cached_after)
{
        static const vbi_aspect_ratio blank = { 23, 310, 1.0, 0, VBI_SUBT_UNKNOWN };
        int own = probe_bit(r->pgno), stored = (cached_after & own) != 0;
        int conclusive = !r->nopgno;
        int same_mag = R.hdr_have && ((R.hdr_pgno ^ r->pgno) & 0xF00) == 0;
        int contradicts = conclusive && R.hdr_have && R.hdr_stn != r->stn && same_mag;
        int nANON = 0, nBLANK = 0;
        for (int i = 0; i < nlog; i++) {
                if (LOG[i].type == VBI_EVENT_NETWORK && net_all_zero(&LOG[i].net)) nANON++;
                else if (LOG[i].type == VBI_EVENT_ASPECT && aspect_eq(&LOG[i].asp, &blank)) nBLANK++;
        }
        if (!contradicts) {
                if (nANON) return bad(KEY_HDR_ANON, "%s: identified station %u, learned header: %s", r->name, R.ident, R.hdr_have ? HDR_TXT[R.hdr_stn] : "none");
                if (nlog) return bad("event without a reception that carries it", "%s", r->name);
                if (!stored || (cached_after & ~own) != (cached_before & ~own))
                        return bad("cache cleared although the identified station did not change", "%s: vbi_is_cached mask %x -> %x, page %03x %s", r->name, cached_before, cached_after, r->pgno, stored ? "cached" : "not cached");
                if (!conclusive) outcome(O_HDR_NOPGNO);
                else if (!R.hdr_have) { outcome(R.after_change ? O_HDR_NEW_STATION_KEPT : O_HDR_LEARNED); R.after_change = 0; R.hdr_have = 1; R.hdr_stn = r->stn; R.hdr_pgno = r->pgno; }
                else if (R.hdr_stn == r->stn) { outcome(O_HDR_SAME); R.hdr_pgno = r->pgno; }
                else outcome(O_HDR_OTHER_MAG);
                return 0;
        }
        /* contradicting header: the anonymous reset is accepted */
        if (nANON > 1) return bad("more than one NETWORK event for one reception [anonymous reset]", "%s", r->name);
        if (nBLANK > (R.asp_have ? 1 : 0) || nlog > nANON + nBLANK) return bad("event without a reception that carries it", "%s", r->name);
        if (stored) {                              /* no reset */
                if (nANON) return bad_anonymous(r->name);
                if (nBLANK) return bad("ASPECT event raised by a line that carries no aspect information", "%s", r->name);
                if ((cached_after & ~own) != (cached_before & ~own)) return bad("cache cleared although the identified station did not change", "%s", r->name);
                return 0;
        }
        if (cached_after) return bad("pages still cached after an anonymous reset", "%s: vbi_is_cached mask %x -> %x", r->name, cached_before, cached_after);
        if (nANON && !R.ident) return bad_anonymous(r->name);
        if (!nANON && R.ident) return bad("cache cleared although the identified station did not change", "%s: pages dropped without a NETWORK event, identified station %u", r->name, R.ident);
        outcome(O_HDR_RESET);
        ref_anonymous_reset();
        return 0;
}

/* one PAL / WSS / Teletext reception: feed and audit.  1 = violation reported */
static int pal_feed(const struct rx *r)
{
        vbi_sliced sl;
        int cached_before = cached_mask();
        nlog = 0; log_overflow = 0; frame_viol = 0; R.expired = 0;
        if (r->kind == K_GAP) { D.gap_pending = 1; R.gap_seen = 1; return 0; }     /* the next frame carries a timestamp jump of +1 s */
        switch (r->kind) {
        case K_IDLE40: for (int i = 0; i < 45 && !frame_viol; i++) frame(NULL, 0); break;
        case K_VPS:  build_vps(&sl, r); frame(&sl, 1); break;
        case K_8301: build_8301(&sl, r); frame(&sl, 1); break;
        case K_8302: build_8302(&sl, r); frame(&sl, 1); break;
        case K_WSS:  build_wss(&sl, r->wss); frame(&sl, 1); break;
        case K_TTX:  feed_ttx_page(); break;
        case K_ROLL: feed_roll_page(r); break;
        default:     frame(NULL, 0); break;
        }
        int cached_after = cached_mask();
        n_receptions++; n_events += nlog;
        if (log_overflow) return bad("event storm: more than 24 events for one reception", "%s", r->name);
        if (frame_viol) return 1;
        if (R.expired) cached_before = 0;          /* the reset precedes the lines of its frame */

        if (r->kind == K_ROLL) return audit_roll(r, cached_before, cached_after);

        if (r->kind == K_TTX || r->kind == K_EMPTY || r->kind == K_IDLE40) {
                if (find_anonymous()) return bad_anonymous(r->name);
                if (nlog) return bad("event without a reception that carries it", "%s", r->name);
                int own = r->kind == K_TTX ? probe_bit(TTX_PGNO) : 0;
                if ((cached_after & ~own) != (cached_before & ~own)) return bad("cache cleared although the identified station did not change", "%s", r->name);
                if (r->kind == K_IDLE40 && R.gap_seen && !R.expired && R.cd == 0 && R.ident) outcome(O_GAP_DISARMED);
                return 0;
        }
        if (r->kind == K_WSS && find_anonymous()) return bad_anonymous(r->name);

        if (r->kind == K_WSS) {
                if (count_other(VBI_EVENT_ASPECT)) return bad("unexpected event type for a WSS line", "%s", r->name);
                if (R.wss_have && R.wss_word == r->wss) { if (R.wss_rep < 4) R.wss_rep++; } else { R.wss_have = 1; R.wss_word = r->wss; R.wss_rep = 1; }
                vbi_aspect_ratio want; int anam, par = ref_wss(r->wss, &want, &anam);
                if (nlog > 1) return bad("more than one ASPECT event for one WSS line", "%s", r->name);
                if (nlog == 1) {
                        vbi_aspect_ratio got = LOG[0].asp;
                        if (!par) return bad("ASPECT announced for a WSS word with bad parity", "%s", r->name);
                        if (R.wss_rep < 4) return bad("ASPECT announced before the WSS word was repeated three times", "%s: reception %d of this word in a row", r->name, R.wss_rep);
                        if (anam) { if (got.ratio == 1.0) return bad("ASPECT event does not carry the transmitted WSS values", "anamorphic format announced with ratio 1"); want.ratio = got.ratio; }
                        if (!aspect_eq(&got, &want)) return bad("ASPECT event does not carry the transmitted WSS values", "%s: want %d-%d ratio=%g film=%d subt=%d", r->name, want.first_line, want.last_line, want.ratio, want.film_mode, want.open_subtitles);
                        if (R.asp_have && aspect_eq(&R.asp, &got)) return bad("ASPECT announced again while the same value keeps arriving", "%s", r->name);
                        if (R.asp_have && (R.asp.first_line != got.first_line || R.asp.last_line != got.last_line) + (R.asp.ratio != got.ratio) + (R.asp.film_mode != got.film_mode) + (R.asp.open_subtitles != got.open_subtitles) == 1)
                                outcome(O_WSS_ONE_MEMBER);
                        R.asp_have = 1; R.asp = got;
                        outcome(O_WSS_ANNOUNCED);
                } else if (R.wss_rep >= 4) {
                        /* MUST (seed C13 round 5): the confirmed word decodes to something else than what was announced last
                         * (or nothing was announced yet) - the event has to come, or the application keeps the stale
                         * values while other ones are transmitted.  Key: which decoded members changed. */
                        if (par && !R.asp_have) return bad("WSS word repeated three times with valid parity not announced", "%s: reception %d or later of this word in a row", r->name, R.wss_rep);
                        if (par && !aspect_same_ref(&R.asp, &want, anam)) {
                                char k[200];
                                snprintf(k, sizeof k, "confirmed WSS change not announced [differs from the announced aspect in:%s%s%s%s]",
                                         (R.asp.first_line != want.first_line || R.asp.last_line != want.last_line) ? " active lines" : "", ((R.asp.ratio != 1.0) != anam) ? " ratio" : "",
                                         R.asp.film_mode != want.film_mode ? " film_mode" : "", R.asp.open_subtitles != want.open_subtitles ? " open_subtitles" : "");
                                return bad(k, "%s: announced last %d-%d ratio=%g film=%d subt=%d, on air %d-%d %s film=%d subt=%d", r->name, R.asp.first_line, R.asp.last_line, R.asp.ratio, R.asp.film_mode, R.asp.open_subtitles,
                                           want.first_line, want.last_line, anam ? "anamorphic" : "ratio=1", want.film_mode, want.open_subtitles);
                        }
                        if (!par) outcome(O_WSS_BADPAR_SILENT); else if (R.asp_have) outcome(O_WSS_SAME_SILENT);
                }
                if (cached_after != cached_before) return bad("cache cleared although the identified station did not change", "%s", r->name);
                return 0;
        }

        /* ---- CNI carriers ---- */
        int c = r->kind == K_VPS ? CAR_VPS : r->kind == K_8301 ? CAR_8301 : CAR_8302;
        if (c == CAR_8302 && r->damage == DMG_DOUBLE) {
                if (nlog) return bad("event raised by a rejected packet", "%s", r->name);
                if (cached_after != cached_before) return bad("cache cleared although the identified station did not change", "%s", r->name);
                outcome(O_REJECTED_SILENT);
                return 0;
        }
        struct ref_car *rc = &R.car[c];
        unsigned v = r->cni;
        /* cause class of a violation, from the history alone: was any other CNI carrier received since this
         * carrier's last announcement (or since the start)?  Only then can the decoder's shared repeat counter
         * (network.cycle) and the once-received CNIs of the other carriers in vbi_network play a part. */
        const char *cls = rc->other_since ? CLS_MIXED : CLS_SINGLE;
        for (int d = 0; d < NCAR; d++) if (d != c) R.car[d].other_since = 1;
        if (rc->have && rc->val == v) { if (rc->rep < 3) rc->rep++; if (r->damage == DMG_SINGLE) outcome(O_CORRECTED_SAME); }
        else { rc->have = 1; rc->val = v; rc->rep = 1; rc->announced = 0; }
        if (rc->rep >= 2) { rc->have_conf = 1; rc->conf = v; }

        int allowed = VBI_EVENT_NETWORK | VBI_EVENT_NETWORK_ID | VBI_EVENT_ASPECT | (c == CAR_8301 ? VBI_EVENT_LOCAL_TIME : VBI_EVENT_PROG_ID);
        if (count_other(allowed)) return bad("unexpected event type for this carrier", "%s", r->name);
        int nNET = count_type(VBI_EVENT_NETWORK), nNID = count_type(VBI_EVENT_NETWORK_ID), nASP = count_type(VBI_EVENT_ASPECT);
        int nPID = count_type(VBI_EVENT_PROG_ID), nLT = count_type(VBI_EVENT_LOCAL_TIME);
        struct entset es; ref_lookup(c, v, &es);

        /* an all-zero NETWORK can only come from vbi_chsw_reset(vbi, 0); a CNI which is not in the
         * table takes that path too (known finding, keyed below) */
        if (find_anonymous() && es.n) return bad_anonymous(r->name);
        if (nNET > 1) return bad(es.n ? "more than one NETWORK event for one reception [confirmed CNI is a table station]"
                                      : "more than one NETWORK event for one reception [confirmed CNI is not in the station table (nuid 0)]", "%s on %s", r->name, CARN[c]);
        if (nNID > 1) return bad("more than one NETWORK_ID event for one reception", "%s", r->name);
        if ((nNET || nNID) && rc->rep < 2) return bad(ck("identifier announced on its first reception", cls), "%s on %s", r->name, CARN[c]);

        if (nNID && rc->announced)
                return bad(ck("identifier announced again while the same value keeps arriving", cls), "%s on %s", r->name, CARN[c]);
        unsigned sid = es.n ? (unsigned) es.e[0]->id : 0;
        for (int i = 0; i < nlog; i++) {
                struct evrec *e = &LOG[i];
                if (e->type != VBI_EVENT_NETWORK && e->type != VBI_EVENT_NETWORK_ID) continue;
                unsigned f[NCAR] = { (unsigned) e->net.cni_vps, (unsigned) e->net.cni_8301, (unsigned) e->net.cni_8302 };
                if (f[c] != v) return bad("network event does not carry the received CNI", "%s: %s field is %x", r->name, CARN[c], f[c]);
                int ok = 0;
                if (!es.n) ok = e->net.nuid == 0 && e->net.name[0] == 0;
                else for (int k = 0; k < es.n; k++) if (e->net.nuid == (unsigned) es.e[k]->id && name_matches(e->net.name, es.e[k]->name)) { ok = 1; sid = e->net.nuid; }
                if (!ok) {
                        if (!es.n && c == CAR_8302 && !(v & 0xFFF)) return bad("8/30-2 CNI with zero low 12 bits identified as a station", "%s: got nuid=%u '%s'", r->name, e->net.nuid, (const char *) e->net.name);
                        return bad("network event names the wrong station", "%s: got nuid=%u '%s', table says %s", r->name, e->net.nuid, (const char *) e->net.name, es.n ? es.e[0]->name : "unknown");
                }
                if (e->net.call[0] || e->net.tape_delay) return bad("network event carries XDS members never transmitted", "%s", r->name);
                for (int d = 0; d < NCAR; d++) {
                        if (d == c || f[d] == 0) continue;
                        if (!(R.car[d].have_conf && R.car[d].conf == f[d]))
                                return bad(ck("event carries an identifier of another carrier that was received only once", cls), "%s raised the event, its %s field is %x", r->name, CARN[d], f[d]);
                }
        }
        if (nNID) { rc->announced = 1; rc->other_since = 0; }
        int legit = rc->rep >= 2 && sid != R.ident;
        if (nNET && !legit) return bad("NETWORK event although the identified station did not change", "%s: identified station %u", r->name, R.ident);
        if (!nNET && rc->rep == 2 && v != 0 && sid != 0 && sid != R.ident)
                return bad(ck("confirmed station change not announced", cls), "%s confirmed on %s: station %u '%s', identified so far: %u", r->name, CARN[c], sid, es.e[0]->name, R.ident);
        int changed = nNET == 1, had_ident = R.ident != 0;
        if (nASP) {
                static const vbi_aspect_ratio blank = { 23, 310, 1.0, 0, VBI_SUBT_UNKNOWN };
                if (!(changed && had_ident)) return bad("ASPECT event raised by a line that carries no aspect information", "%s", r->name);
                if (nASP > 1) return bad("more than one ASPECT event for one reception", "%s", r->name);
                for (int i = 0; i < nlog; i++) if (LOG[i].type == VBI_EVENT_ASPECT && !aspect_eq(&LOG[i].asp, &blank))
                        return bad("aspect revocation on a station change is not the documented blank value", "%s", r->name);
                outcome(O_REVOKE);
        }
        if (audit_cache(changed, had_ident, cached_before, cached_after, r->name)) return 1;
        if (changed) {
                if (!had_ident) outcome(O_FIRST_ID);
                if (had_ident) { R.cd = 0; R.id_under_cd = 0; }   /* vbi_chsw_reset() with an id ends the countdown */
                else if (R.cd > 0) R.id_under_cd = 1;
                R.ident = sid;
                if (had_ident) { ref_station_reset(); R.after_change = 1; }
        } else if (nNID) {
                if (!es.n) outcome(O_UNKNOWN_ID); else if (rc->rep == 2) outcome(O_SECOND_CARRIER_ID);
        } else if (rc->rep == 1 && had_ident && sid != R.ident && cached_before) outcome(O_DEVIATION_KEPT);

        /* programme id / local time */
        if (c == CAR_VPS) {
                unsigned cur[4] = { r->cni, r->pil, r->pcs, r->pty };
                int dbl = R.vps_prev_have && !memcmp(cur, R.vps_prev, sizeof cur);
                if (nPID > 1) return bad("more than one PROG_ID event for one reception", "%s", r->name);
                if (nPID) {
                        const vbi_program_id *p = NULL; for (int i = 0; i < nlog; i++) if (LOG[i].type == VBI_EVENT_PROG_ID) p = &LOG[i].pid;
                        if (!dbl) return bad(ck("VPS PROG_ID announced without a second identical reception", cls), "%s", r->name);
                        if (p->channel != VBI_PID_CHANNEL_VPS || p->cni_type != VBI_CNI_TYPE_VPS || p->cni != r->cni || p->pil != r->pil || p->pcs_audio != (int) r->pcs || p->pty != r->pty || p->luf || p->prf || !p->mi)
                                return bad("PROG_ID event does not carry the transmitted values", "%s", r->name);
                        outcome(O_VPS_PID);
                } else if (nNID && R.vps_prev_have && R.vps_prev[0] == r->cni && !dbl) outcome(O_VPS_PID_SINGLE_SILENT);
                R.vps_prev_have = 1; memcpy(R.vps_prev, cur, sizeof cur);
        } else if (c == CAR_8302) {
                if (nPID > 1) return bad("more than one PROG_ID event for one reception", "%s", r->name);
                if (nPID) {
                        const vbi_program_id *p = NULL; for (int i = 0; i < nlog; i++) if (LOG[i].type == VBI_EVENT_PROG_ID) p = &LOG[i].pid;
                        if (p->channel != VBI_PID_CHANNEL_LCI_0 + (int) r->lci || p->cni_type != VBI_CNI_TYPE_8302 || p->cni != r->cni || p->pil != r->pil || p->pcs_audio != (int) r->pcs || p->pty != r->pty
                            || p->luf != (int) r->luf || p->prf != (int) r->prf || p->mi != (int) r->mi)
                                return bad("PROG_ID event does not carry the transmitted values", "%s", r->name);
                        outcome(O_8302_PID);
                }
        } else {
                if (nLT > 1) return bad("more than one LOCAL_TIME event for one reception", "%s", r->name);
                if (nLT) {
                        const vbi_local_time *l = NULL; for (int i = 0; i < nlog; i++) if (LOG[i].type == VBI_EVENT_LOCAL_TIME) l = &LOG[i].lt;
                        int64_t t; int east; ref_8301_time(r, &t, &east);
                        if ((int64_t) l->time != t || l->seconds_east != east || !l->seconds_east_valid)
                                return bad("LOCAL_TIME event does not carry the transmitted values", "%s: want t=%lld east=%d", r->name, (long long) t, east);
                        outcome(O_LOCAL_TIME);
                }
        }
        return 0;
}

/* one XDS reception */
static int xds_feed(const struct rx *r)
{
        int cached_before = cached_mask();
        nlog = 0; log_overflow = 0; frame_viol = 0; R.expired = 0;
        if (r->kind == K_TTX) feed_ttx_page();
        else if (r->kind == K_EMPTY) frame(NULL, 0);
        else feed_xds(r->kind == K_XNAME ? 1 : 2, r->str, r->damage == DMG_DOUBLE);
        int cached_after = cached_mask();
        n_receptions++; n_events += nlog;
        if (log_overflow) return bad("event storm: more than 24 events for one reception", "%s", r->name);
        if (r->kind == K_TTX || r->kind == K_EMPTY || r->damage == DMG_DOUBLE || r->kind == K_XCALL) {
                if (nlog) return bad(r->damage == DMG_DOUBLE ? "event raised by a rejected packet" : "event without a reception that carries it", "%s", r->name);
                if (r->kind != K_TTX && cached_after != cached_before) return bad("cache cleared although the identified station did not change", "%s", r->name);
                if (r->damage == DMG_DOUBLE) { outcome(O_REJECTED_SILENT); return 0; }
                if (r->kind == K_XCALL && !(R.xc_have && !strcmp(R.xc, r->str))) { R.xc_have = 1; snprintf(R.xc, sizeof R.xc, "%s", r->str); R.x_announced = 0; }
                return 0;
        }
        /* network name */
        if (R.xn_have && !strcmp(R.xn, r->str)) { if (R.xn_rep < 3) R.xn_rep++; }
        else { R.xn_have = 1; snprintf(R.xn, sizeof R.xn, "%s", r->str); R.xn_rep = 1; R.x_announced = 0; }
        if (count_other(VBI_EVENT_NETWORK | VBI_EVENT_NETWORK_ID)) return bad("unexpected event type for this carrier", "%s", r->name);
        int nNET = count_type(VBI_EVENT_NETWORK), nNID = count_type(VBI_EVENT_NETWORK_ID);
        if (nNET > 1) return bad("more than one NETWORK event for one reception [XDS]", "%s", r->name);
        if (nNID > 1) return bad("more than one NETWORK_ID event for one reception", "%s", r->name);
        if ((nNET || nNID) && R.xn_rep < 2) return bad("identifier announced on its first reception [XDS]", "%s on XDS", r->name);
        const char *call = R.xc_have ? R.xc : "";
        const char *idkey = R.xc_have ? R.xc : r->str;     /* the station is its call letters when it sends any, else its network name */
        for (int i = 0; i < nlog; i++) {
                struct evrec *e = &LOG[i];
                if (strcmp((const char *) e->net.name, r->str)) return bad("network event does not carry the received XDS network name", "%s: got '%s'", r->name, (const char *) e->net.name);
                if (strcmp((const char *) e->net.call, call)) return bad("network event does not carry the received XDS call letters", "%s: got '%s' want '%s'", r->name, (const char *) e->net.call, call);
                if (e->net.nuid == 0) return bad("XDS network announced without an id", "%s", r->name);
                if (e->net.cni_vps || e->net.cni_8301 || e->net.cni_8302) return bad("network event carries CNIs never transmitted", "%s", r->name);
        }
        if (nNID) {
                if (R.x_announced) return bad("identifier announced again while the same value keeps arriving [XDS]", "%s on XDS", r->name);
                R.x_announced = 1;
        }
        int same_key = R.xi_have && !strcmp(R.xi_key, idkey), same_name = R.xi_have && !strcmp(R.xi_name, r->str);
        /* a new network name under unchanged call letters: "a different identifier has been received and
         * confirmed" (VBI_EVENT_NETWORK) although nuid stays the same - NETWORK accepted, not demanded */
        int legit = R.xn_rep >= 2 && !(same_key && same_name);
        if (nNET && !legit) return bad("NETWORK event although the identified XDS station did not change", "%s: XDS station '%s' (name '%s') already identified", r->name, R.xi_key, R.xi_name);
        if (!nNET && R.xn_rep == 2 && !same_key)
                return bad("confirmed station change not announced [XDS]", "%s confirmed on XDS, station '%s', identified so far '%s'", r->name, idkey, R.xi_have ? R.xi_key : "");
        int changed = nNET == 1, had_ident = R.xi_have;
        if (audit_cache(changed, had_ident, cached_before, cached_after, r->name)) return 1;
        if (changed) {
                if (!had_ident) outcome(O_XDS_FIRST); else if (R.xc_have && strcmp(R.xi_name, r->str) == 0) outcome(O_XDS_CALL_REFINES); else outcome(O_XDS_CHANGE);
                R.xi_have = 1; snprintf(R.xi_key, sizeof R.xi_key, "%s", idkey); snprintf(R.xi_name, sizeof R.xi_name, "%s", r->str);
        } else if (nNID && R.xn_rep >= 2) outcome(O_REANNOUNCE_AFTER_DEVIATION);
        return 0;
}

/* ======================================================================== */
/* BFS alphabets                                                             */

#define CNI_A_VPS   0x0DC1     /* ARD */
#define CNI_B_VPS   0x0DC2     /* ZDF */
#define CNI_U_VPS   0x0CC1     /* one bit off ARD, not in the table */
#define CNI_A_8301  0x4901
#define CNI_B_8301  0x4902
#define CNI_X_8301  0x4981     /* one bit off ARD, not in the table */
#define CNI_A_8302  0x1DC1
#define CNI_B_8302  0x1DC2
#define CNI_U_8302  0x1CC1
#define PIL_P       0x4B5A3    /* some label */
#define PIL_Q       0x5329F
#define WSS_W1      0x021B     /* 16:9 letterbox centre, film mode, subtitles in the active image; parity ok */
#define WSS_W2      0x0008     /* 4:3 full format; parity ok */
#define WSS_BAD     0x0213     /* W1 with the parity bit flipped */
#define WSS_W3      0x041B     /* W1 with the other open-subtitles bit: subtitles out of the active image; nothing else differs */

static const struct rx PAL[] = {
        { K_VPS, CNI_A_VPS, PIL_P, 1, 0x21, .name = "VPS(ARD,p)" },
        { K_VPS, CNI_A_VPS, PIL_Q, 1, 0x21, .name = "VPS(ARD,q)" },
        { K_VPS, CNI_B_VPS, PIL_P, 2, 0x42, .name = "VPS(ZDF,p)" },
        { K_VPS, CNI_U_VPS, PIL_P, 1, 0x21, .name = "VPS(cc1 unknown,p)" },
        { K_VPS, 0,         PIL_P, 1, 0x21, .name = "VPS(no CNI,p)" },
        { K_8301, CNI_A_8301, .mjd = 51544, .h = 12, .m = 34, .s = 56, .lto = 0x04, .name = "8/30-1(ARD 4901,t1)" },
        { K_8301, CNI_B_8301, .mjd = 51545, .h = 23, .m = 59, .s = 59, .lto = 0x42, .name = "8/30-1(ZDF 4902,t2)" },
        { K_8301, CNI_X_8301, .mjd = 51544, .h = 12, .m = 34, .s = 56, .lto = 0x04, .name = "8/30-1(4981 unknown,t1)" },
        { K_8302, CNI_A_8302, PIL_P, 1, 0x21, 0, 0, 0, 1, .name = "8/30-2(ARD 1dc1,p)" },
        { K_8302, CNI_B_8302, PIL_Q, 2, 0x42, 1, 1, 1, 0, .name = "8/30-2(ZDF 1dc2,q)" },
        { K_8302, CNI_U_8302, PIL_P, 1, 0x21, 0, 0, 0, 1, .name = "8/30-2(1cc1 unknown,p)" },
        { K_8302, CNI_A_8302, PIL_P, 1, 0x21, 0, 0, 0, 1, .damage = DMG_DOUBLE, .name = "8/30-2(ARD,p)+uncorrectable" },
        { K_8302, CNI_A_8302, PIL_P, 1, 0x21, 0, 0, 0, 1, .damage = DMG_SINGLE, .name = "8/30-2(ARD,p)+1 bit error" },
        { K_WSS, .wss = WSS_W1,  .name = "WSS(16:9 film)" },
        { K_WSS, .wss = WSS_W2,  .name = "WSS(4:3)" },
        { K_WSS, .wss = WSS_BAD, .name = "WSS(16:9 film, bad parity)" },
        { K_TTX, .name = "TTX(page 201)" },
        { K_EMPTY, .name = "empty frame" },
        { K_GAP, .name = "gap(next frame +1 s)" },
        { K_IDLE40, .name = "45 regular empty frames" },
        /* seed C13 round 5 */
        { K_WSS, .wss = WSS_W3,  .name = "WSS(16:9 film, subtitles in the matte)" },
        { K_ROLL, .pgno = 0x100, .stn = 0, .name = "TTX(rolling page 100, header 'ARD-Text 100')" },
        { K_ROLL, .pgno = 0x101, .stn = 0, .name = "TTX(rolling page 101, header 'ARD-Text 101')" },
        { K_ROLL, .pgno = 0x100, .stn = 1, .name = "TTX(rolling page 100, header 'ZDFtext 100')" },
        { K_ROLL, .pgno = 0x101, .stn = 1, .name = "TTX(rolling page 101, header 'ZDFtext 101')" },
        { K_ROLL, .pgno = 0x200, .stn = 1, .serial = 1, .name = "TTX(rolling page 200 serial mode, header 'ZDFtext 200')" },
        { K_ROLL, .pgno = 0x100, .stn = 1, .nopgno = 1, .name = "TTX(page 100, header 'ZDFtext' without the page number)" },
};
enum { NPAL = sizeof PAL / sizeof PAL[0] };

static const struct rx XDS[] = {
        { K_XNAME, .str = "ABC", .name = "XDS name 'ABC'" },
        { K_XNAME, .str = "NBC", .name = "XDS name 'NBC'" },
        { K_XNAME, .str = "ABD", .name = "XDS name 'ABD' (corrupted ABC, checksum valid)" },
        { K_XNAME, .str = "ABC", .damage = DMG_DOUBLE, .name = "XDS name 'ABC' bad checksum" },
        { K_XCALL, .str = "WABC", .name = "XDS call 'WABC'" },
        { K_XCALL, .str = "KNBC", .name = "XDS call 'KNBC'" },
        { K_TTX, .name = "TTX(page 201)" },
        { K_EMPTY, .name = "empty frame" },
        /* names and call letters that are proper prefixes / extensions of each other (phase xds-prefix) */
        { K_XNAME, .str = "ABCD", .name = "XDS name 'ABCD'" },
        { K_XNAME, .str = "AB", .name = "XDS name 'AB'" },
        { K_XCALL, .str = "WAB", .name = "XDS call 'WAB'" },
};
enum { NXDS = sizeof XDS / sizeof XDS[0] };

struct cfg { const char *name; int xds; int nl; int map[NPAL]; int depth[2]; };
static const struct cfg CFGS[] = {
        { "pal-all", 0, 18, { 0,1,2,3,4,5,6,7,8,9,10,11,12,13,14,15,16,17 }, { 5, 8 } },
        { "pal-cni", 0, 15, { 0,1,2,3,4,5,6,7,8,9,10,11,12,16,17 },          { 7, 16 } },
        { "pal-wss", 0, 8,  { 0,2,13,14,15,16,17,20 },                       { 18, 18 } },
        { "pal-hdr", 0, 11, { 0,2,3,6,21,22,23,24,25,26,16 },                { 9, 12 } },
        { "pal-gap", 0, 5,  { 0,2,18,19,16 },                                { 10, 16 } },
        { "xds",     1, 8,  { 0,1,2,3,4,5,6,7 },                             { 12, 12 } },
        { "xds-prefix", 1, 7, { 8,0,9,4,10,6,7 },                            { 10, 12 } },
};

static const char *letter_name(int l, void *arg)
{
        const struct cfg *c = arg;
        if (l < 0 || l >= c->nl) return "?";
        return c->xds ? XDS[c->map[l]].name : PAL[c->map[l]].name;
}

/* canonical state: what the decoder keeps about announcements + the reference model */
static void state_hash(uint64_t out[2])
{
        struct {
                vbi_network net; vbi_program_id vps_pid;
                int wss_last[2], wss_rep, aspect_source, chswcd, cached;
                vbi_aspect_ratio aspect;
                char xds_state;
        } s;
        memset(&s, 0, sizeof s);
        const vbi_network *n = &D.vbi->network.ev.network;
        s.net.nuid = n->nuid; s.net.cni_vps = n->cni_vps; s.net.cni_8301 = n->cni_8301; s.net.cni_8302 = n->cni_8302; s.net.cycle = n->cycle;
        snprintf((char *) s.net.name, sizeof s.net.name, "%s", (const char *) n->name);
        snprintf((char *) s.net.call, sizeof s.net.call, "%s", (const char *) n->call);
        s.net.tape_delay = n->tape_delay;
        const vbi_program_id *p = &D.vbi->vps_pid;
        s.vps_pid.channel = p->channel; s.vps_pid.cni = p->cni; s.vps_pid.pil = p->pil; s.vps_pid.pcs_audio = p->pcs_audio; s.vps_pid.pty = p->pty; s.vps_pid.mi = p->mi;
        s.wss_last[0] = D.vbi->wss_last[0]; s.wss_last[1] = D.vbi->wss_last[1];
        s.wss_rep = D.vbi->wss_rep_ct < 3 ? D.vbi->wss_rep_ct : 3;
        s.aspect_source = D.vbi->aspect_source; s.chswcd = D.vbi->chswcd; s.cached = cached_mask();
        const vbi_aspect_ratio *a = &D.vbi->prog_info[0].aspect;
        s.aspect.first_line = a->first_line; s.aspect.last_line = a->last_line; s.aspect.ratio = a->ratio; s.aspect.film_mode = a->film_mode; s.aspect.open_subtitles = a->open_subtitles;
        mc_hash h; mc_hash_init(&h);
        mc_hash_add(&h, &s, sizeof s);
        /* reference model, member by member (no padding) */
        for (int c = 0; c < NCAR; c++) {
                const struct ref_car *rc = &R.car[c];
                int v[7] = { rc->have, (int) rc->val, rc->rep, rc->announced, rc->other_since, rc->have_conf, (int) rc->conf };
                mc_hash_add(&h, v, sizeof v);
        }
        int w[12] = { (int) R.ident, R.vps_prev_have, (int) R.vps_prev[0], (int) R.vps_prev[1], (int) R.vps_prev[2], (int) R.vps_prev[3],
                      R.wss_have, (int) R.wss_word, R.wss_rep, R.asp_have, R.asp_have ? R.asp.first_line * 1000 + R.asp.last_line : 0, R.asp_have ? R.asp.film_mode * 8 + R.asp.open_subtitles : 0 };
        mc_hash_add(&h, w, sizeof w);
        int x[9] = { R.xn_have, R.xn_rep, R.x_announced, R.xc_have, R.xi_have, R.started, R.cd, R.gap_seen, D.gap_pending };
        mc_hash_add(&h, x, sizeof x);
        /* rolling header: what the decoder learned (only meaningful while a header page is recorded) and the reference */
        int y[4] = { D.vbi->vt.header_page.pgno, R.hdr_have, R.hdr_have ? R.hdr_stn : 0, R.hdr_have ? (int) R.hdr_pgno : 0 };   /* after_change only labels an outcome */
        mc_hash_add(&h, y, sizeof y);
        if (D.vbi->vt.header_page.pgno) mc_hash_add(&h, D.vbi->vt.header + 8, 32);
        mc_hash_add(&h, R.xn, sizeof R.xn); mc_hash_add(&h, R.xc, sizeof R.xc); mc_hash_add(&h, R.xi_name, sizeof R.xi_name); mc_hash_add(&h, R.xi_key, sizeof R.xi_key);
        out[0] = h.a; out[1] = h.b;
}

static int run(const uint8_t *hist, int n, uint64_t hash[2], void *arg)
{
        const struct cfg *cfg = arg;
        memset(&R, 0, sizeof R);
        ctx_hist = hist; ctx_n = n; ctx_letter = letter_name; ctx_arg = arg;
        mc_case(cfg->xds ? "XDS reception history" : "PAL reception history", "%s", hist_str());
        dec_new();
        int viol = 0; uint64_t ev0 = n_events;
        for (int i = 0; i < n && !viol; i++) {
                ctx_n = i + 1;
                if (hist[i] >= cfg->nl) { viol = 2; break; }
                viol = cfg->xds ? xds_feed(&XDS[cfg->map[hist[i]]]) : pal_feed(&PAL[cfg->map[hist[i]]]);
        }
        ctx_n = n;
        if (viol) { hash[0] = 0xC13DEAD; hash[1] = 1; }        /* one shared pseudo state: the exploration does not continue past a violation */
        else state_hash(hash);
        dec_delete();
        mc_count("evaluations", 1);
        mc_count("receptions_audited", n);
        if (n_events > ev0) { mc_count("events_audited", n_events - ev0); if (!viol) mc_distinct(hash[0] ^ (hash[1] * 0x9E3779B97F4A7C15ull)); }
        ctx_hist = NULL;
        return viol ? 1 : 0;
}

/* ======================================================================== */
/* flat phases: all values, fresh decoder, announcement demanded              */

static int flat_pair(const struct rx *r, int times, const char *desc)
{
        memset(&R, 0, sizeof R);
        ctx_hist = NULL; ctx_desc = desc;
        dec_new();
        int viol = 0;
        for (int k = 0; k < times && !viol; k++) {
                viol = pal_feed(r);
                if (viol) break;
                if (r->kind == K_WSS) {
                        vbi_aspect_ratio a; int an, par = ref_wss(r->wss, &a, &an);
                        int want = (k == 3 && par);
                        if (nlog != want) viol = bad(want ? "WSS word repeated three times with valid parity not announced" : "ASPECT announced again while the same value keeps arriving", "%s reception %d", desc, k + 1);
                        continue;
                }
                int nNET = count_type(VBI_EVENT_NETWORK), nNID = count_type(VBI_EVENT_NETWORK_ID);
                int c = r->kind == K_VPS ? CAR_VPS : r->kind == K_8301 ? CAR_8301 : CAR_8302;
                struct entset es; ref_lookup(c, r->cni, &es);
                if (k == 1 && r->cni != 0) {
                        if (nNID != 1) viol = bad("identifier received twice on a fresh decoder not announced", "%s", desc);
                        else if (nNET != (es.n ? 1 : 0)) viol = bad(es.n ? "confirmed station change not announced [" CLS_SINGLE "]" : "NETWORK event although the identified station did not change", "%s", desc);
                        else if (c == CAR_VPS && count_type(VBI_EVENT_PROG_ID) != 1) viol = bad("VPS programme id received twice not announced", "%s", desc);
                }
                if (!viol && c == CAR_8301 && count_type(VBI_EVENT_LOCAL_TIME) != 1) viol = bad("8/30-1 local time not announced", "%s", desc);
                if (!viol && c == CAR_8302 && count_type(VBI_EVENT_PROG_ID) != 1) viol = bad("8/30-2 programme id not announced", "%s", desc);
        }
        dec_delete();
        return viol;
}

static void flat_vps(uint64_t chunk, void *arg)
{
        for (unsigned cni = chunk * 64; cni < (chunk + 1) * 64; cni++) {
                if (cni == 0xDC3) continue;
                char d[80]; snprintf(d, sizeof d, "VPS CNI %03x twice on a fresh decoder", cni);
                mc_case("VPS value sweep", "%s", d);
                struct rx r = { K_VPS, cni, (cni * 0x9E37u + 0x12345u) & 0xFFFFF, cni & 3, (cni * 7) & 0xFF, .name = d };
                if (flat_pair(&r, 3, d)) continue;
                mc_count("evaluations", 1);
        }
        mc_distinct(0x1000000 + chunk);
}
static void flat_8301(uint64_t chunk, void *arg)
{
        for (unsigned cni = chunk * 256; cni < (chunk + 1) * 256; cni++) {
                char d[80]; snprintf(d, sizeof d, "8/30-1 CNI %04x twice on a fresh decoder", cni);
                mc_case("8/30-1 value sweep", "%s", d);
                struct rx r = { K_8301, cni, .mjd = 40587 + (cni * 7) % 59412, .h = cni % 24, .m = (cni / 24) % 60, .s = (cni / 7) % 60, .lto = (cni >> 3) & 0x7E, .name = d };
                if (flat_pair(&r, 3, d)) continue;
                mc_count("evaluations", 1);
        }
        mc_distinct(0x2000000 + chunk);
}
static void flat_8302(uint64_t chunk, void *arg)
{
        for (unsigned cni = chunk * 256; cni < (chunk + 1) * 256; cni++) {
                if (cni == 0x0DC3) continue;
                char d[80]; snprintf(d, sizeof d, "8/30-2 CNI %04x twice on a fresh decoder", cni);
                mc_case("8/30-2 value sweep", "%s", d);
                struct rx r = { K_8302, cni, (cni * 0x9E37u + 0x54321u) & 0xFFFFF, cni & 3, (cni * 11) & 0xFF, (cni >> 2) & 3, (cni >> 4) & 1, (cni >> 5) & 1, (cni >> 6) & 1, .name = d };
                if (flat_pair(&r, 3, d)) continue;
                mc_count("evaluations", 1);
        }
        mc_distinct(0x3000000 + chunk);
}
static void flat_wss(uint64_t chunk, void *arg)
{
        for (unsigned w = chunk * 256; w < (chunk + 1) * 256; w++) {
                if (w == 0) continue;                     /* equals the decoder's initial "last word": the first reception already counts as a repeat */
                char d[80]; snprintf(d, sizeof d, "WSS word %04x five times on a fresh decoder", w);
                mc_case("WSS value sweep", "%s", d);
                struct rx r = { K_WSS, .wss = w, .name = d };
                if (flat_pair(&r, 5, d)) continue;
                mc_count("evaluations", 1);
        }
        mc_distinct(0x4000000 + chunk);
}
/* every single-bit deviation of a confirmed WSS word: base x 4 (announced iff parity ok), one reception of
 * base ^ (1 << bit), base x 4 again.  pal_feed() audits every reception against the reference (no ASPECT before the
 * fourth identical reception, values as transmitted); on top: the single deviating reception and the base word
 * coming back raise nothing ("a single deviating reception between identical ones ... raises no event",
 * "not announced again while the same value keeps arriving").  All 16 bits x every base word with valid parity
 * in chunk (the parity bit itself included: the deviating word is then invalid). */
static void flat_wss_dev(uint64_t chunk, void *arg)
{
        for (unsigned base = chunk * 64; base < (chunk + 1) * 64; base++) {
                vbi_aspect_ratio a; int an;
                if (base == 0 || !ref_wss(base, &a, &an)) continue;
                for (int bit = 0; bit < 14; bit++) {
                        unsigned dev = base ^ (1u << bit);
                        char d[120]; snprintf(d, sizeof d, "WSS word %04x four times, %04x (bit %d flipped) once, %04x four times", base, dev, bit, base);
                        mc_case("WSS single deviation sweep", "%s", d);
                        memset(&R, 0, sizeof R); ctx_hist = NULL; ctx_desc = d;
                        dec_new();
                        struct rx rb = { K_WSS, .wss = base, .name = d }, rd = { K_WSS, .wss = dev, .name = d };
                        int viol = 0;
                        for (int k = 0; k < 9 && !viol; k++) {
                                viol = pal_feed(k == 4 ? &rd : &rb);
                                if (viol) break;
                                int want = (k == 3);
                                if (nlog != want)
                                        viol = bad(k < 4 ? "WSS word repeated three times with valid parity not announced"
                                                   : k == 4 ? "ASPECT event for a single deviating WSS reception between identical ones"
                                                   : "ASPECT announced again while the same value keeps arriving", "%s, reception %d", d, k + 1);
                        }
                        dec_delete();
                        mc_count("evaluations", 1);
                }
        }
        mc_distinct(0x4800000 + chunk);
}
/* WSS transitions (seed C13 round 5): what a confirmed word raises depends on the aspect announced BEFORE it,
 * and the sweeps above only ever start from a fresh decoder.  EN 300 294 words decode into vbi_aspect_ratio
 * through the format (3 bits: active lines, ratio), the film bit and the two open-subtitles bits: 8 x 2 x 4 = 64
 * decodable classes (parity bit set as required).  Every ORDERED pair (a, b) of classes is driven through one decoder:
 * a x 4, b x 4 - so every pair of words differing in exactly one decoded member (and in several, and in none:
 * formats 0/6 and 3/5 decode alike) occurs as "announced a, b confirmed" and as "announced b, a confirmed".  The
 * second word additionally carries one of 10 patterns of the bits that are NOT decoded (none, or one of b5 b6 b7
 * b8 b11 b12 b13 and the two spare bits of the 16 bit word): those must never make a difference.  pal_feed()
 * audits every reception: the ASPECT event is raised on the 4th reception iff the decoded aspect differs from the
 * one announced last, and carries exactly the transmitted values.  One case = one first class a and one pattern. */
enum { NWSSCLS = 64, NWSSPAT = 10 };
static unsigned wss_class_word(int c)
{
        unsigned fmt = c & 7, film = (c >> 3) & 1, subt = (c >> 4) & 3;
        unsigned par = 1 ^ ((fmt ^ (fmt >> 1) ^ (fmt >> 2)) & 1);           /* odd parity over b0..b3 */
        return fmt | (par << 3) | (film << 4) | (subt << 9);
}
static void flat_wss_trans(uint64_t idx, void *arg)
{
        static const unsigned PAT[NWSSPAT] = { 0, 1u << 5, 1u << 6, 1u << 7, 1u << 8, 1u << 11, 1u << 12, 1u << 13, 1u << 14, 1u << 15 };
        int a = idx / NWSSPAT; unsigned pat = PAT[idx % NWSSPAT], wa = wss_class_word(a);
        char d[160];
        memset(&R, 0, sizeof R); ctx_hist = NULL;
        dec_new();
        uint64_t n = 0, h = 0;
        for (int b = 0; b < NWSSCLS; b++) {
                unsigned wb = wss_class_word(b) | pat;
                snprintf(d, sizeof d, "one decoder, for every class b' < %d: WSS %04x four times, WSS word(b') | %04x four times; now WSS %04x four times, WSS %04x four times", b, wa, pat, wa, wb);
                ctx_desc = d;
                mc_case("WSS transition sweep", "%s", d);
                struct rx ra = { K_WSS, .wss = wa, .name = d }, rb = { K_WSS, .wss = wb, .name = d };
                for (int k = 0; k < 8; k++) {
                        if (pal_feed(k < 4 ? &ra : &rb)) goto out;
                        h = h * 3 + nlog;
                }
                n++;
        }
        mc_count("evaluations", n);
        mc_distinct(0x4C00000 + idx);
        (void) h;
out:
        dec_delete();
}
/* all PILs: programme id events on one decoder.  8/30-2 announces every reception; VPS announces with the CNI
 * confirmation, so the CNI alternates between two stations and every label is sent twice. */
static int pil_stride;
static void flat_pil(uint64_t chunk, void *arg)
{
        memset(&R, 0, sizeof R);
        char d[100]; snprintf(d, sizeof d, "PIL sweep chunk %llu (stride %d): 8/30-2 once, VPS twice with alternating station", (unsigned long long) chunk, pil_stride);
        ctx_hist = NULL; ctx_desc = d;
        mc_case("PIL value sweep", "%s", d);
        dec_new();
        uint64_t n = 0; int k = 0;
        for (unsigned pil = (chunk << 10) + (chunk % pil_stride); pil < ((chunk + 1) << 10); pil += pil_stride, k++) {
                struct rx a = { K_8302, CNI_A_8302, pil, pil & 3, (pil >> 3) & 0xFF, (pil >> 5) & 3, (pil >> 7) & 1, (pil >> 8) & 1, (pil >> 9) & 1, .name = "8/30-2 PIL sweep" };
                if (pal_feed(&a)) goto out;
                if (count_type(VBI_EVENT_PROG_ID) != 1) { bad("8/30-2 programme id not announced", "pil=%05x", pil); goto out; }
                n++;
        }
        dec_delete();
        memset(&R, 0, sizeof R);
        dec_new(); k = 0;
        for (unsigned pil = (chunk << 10) + (chunk % pil_stride); pil < ((chunk + 1) << 10); pil += pil_stride, k++) {
                struct rx v = { K_VPS, (k & 1) ? CNI_B_VPS : CNI_A_VPS, pil, (pil >> 1) & 3, (pil >> 4) & 0xFF, .name = "VPS PIL sweep" };
                if (pal_feed(&v)) goto out;
                if (nlog) { bad("identifier announced on its first reception [" CLS_SINGLE "]", "VPS pil=%05x", pil); goto out; }
                if (pal_feed(&v)) goto out;
                if (count_type(VBI_EVENT_PROG_ID) != 1) { bad("VPS programme id received twice not announced", "pil=%05x", pil); goto out; }
                n += 2;
        }
        mc_count("evaluations", n);
        mc_distinct(0x5000000 + chunk);
out:
        dec_delete();
}

/* ======================================================================== */

static void self_check(void)
{
        /* assumptions about the table the alphabet relies on (harness error, not a verdict) */
        struct entset a, b, c;
        static const struct { int car; unsigned cni; int want; } T[] = {
                { CAR_VPS, CNI_A_VPS, 1 }, { CAR_VPS, CNI_B_VPS, 1 }, { CAR_VPS, CNI_U_VPS, 0 },
                { CAR_8301, CNI_A_8301, 1 }, { CAR_8301, CNI_B_8301, 1 }, { CAR_8301, CNI_X_8301, 0 },
                { CAR_8302, CNI_A_8302, 1 }, { CAR_8302, CNI_B_8302, 1 }, { CAR_8302, CNI_U_8302, 0 },
        };
        for (unsigned i = 0; i < sizeof T / sizeof *T; i++) {
                ref_lookup(T[i].car, T[i].cni, &a);
                if (a.n != T[i].want) { fprintf(stderr, "C13: table assumption %u failed (%d entries)\n", i, a.n); exit(2); }
        }
        ref_lookup(CAR_VPS, CNI_A_VPS, &a); ref_lookup(CAR_8301, CNI_A_8301, &b); ref_lookup(CAR_8302, CNI_A_8302, &c);
        if (a.e[0] != b.e[0] || a.e[0] != c.e[0]) { fprintf(stderr, "C13: A, A', A'' are not one station\n"); exit(2); }
        ref_lookup(CAR_VPS, CNI_B_VPS, &a); ref_lookup(CAR_8301, CNI_B_8301, &b); ref_lookup(CAR_8302, CNI_B_8302, &c);
        if (a.e[0] != b.e[0] || a.e[0] != c.e[0]) { fprintf(stderr, "C13: B, B', B'' are not one station\n"); exit(2); }
        /* the Teletext page letter must populate the cache */
        dec_new(); feed_ttx_page();
        if (!cached_mask()) { fprintf(stderr, "C13: Teletext letter does not populate the cache\n"); exit(2); }
        dec_delete();
        /* a written-out event log for the evidence file */
        static const uint8_t h[] = { 0, 0, 16, 2, 2 };
        static char txt[1500]; size_t o = 0;
        memset(&R, 0, sizeof R); dec_new();
        for (unsigned i = 0; i < sizeof h; i++) {
                vbi_sliced sl; nlog = 0;
                if (PAL[h[i]].kind == K_VPS) { build_vps(&sl, &PAL[h[i]]); frame(&sl, 1); } else feed_ttx_page();
                o += snprintf(txt + o, sizeof txt - o, "%s -> %s[cached=%d] ; ", PAL[h[i]].name, log_str(), cached_mask());
                if (o > sizeof txt - 400) break;
        }
        dec_delete();
        mc_sample("observed log: %s", txt);
}

int main(int argc, char **argv)
{
        mc_init(argc, argv, "C13");
        mc_set_budget(300, 1200);
        mc_meta("level", "model_checking");
        mc_meta("technique", "explicit-state BFS over reception histories on the real vbi_decode() with an event-log oracle (reference model of transmitted values, repeat counts, identified station, announced aspect and learned rolling Teletext header), plus exhaustive value sweeps on fresh decoders and a sweep over all ordered pairs of decodable WSS classes on one decoder");
        mc_meta("rule", "a history is a sequence of receptions (VPS line, 8/30 format 1 / format 2 packet, WSS 625 line, XDS channel-information packet on line 284, a corrupted copy, a rejected copy, a Teletext page, a rolling Teletext page whose header carries the text of station A or B and its page number, an empty frame); every history within the depth is replayed on a fresh decoder with all five event types logged per reception and audited; states are canonical (vbi_network, cycle, vps_pid, WSS last/rep, aspect, chswcd, which of the pages 201/100/101/200 are cached, rolling header learned by the decoder, reference model); a history is non-trivial when at least one event was raised; sweeps: every CNI of each carrier twice, every WSS word five times, every PIL, each on the real decoder with the announcement demanded; WSS transitions: for every ordered pair (a, b) of the 64 decodable classes (format, film bit, open subtitles) word a four times then word b four times on one decoder, b with each of 10 patterns of the undecoded bits: ASPECT demanded iff the decoded aspect differs from the one announced last, with exactly the transmitted values");
        mc_meta("assume", "vbi_cni_table is data: names and ids are looked up by an own scan (VPS: cni4, 8/30-1: cni1, 8/30-2: cni2, else cni4 of the low 12 bits when those are non-zero)");
        mc_meta("assume", "VPS/Teletext and XDS identifiers are not mixed in one history (documented at VBI_EVENT_NETWORK as unsupported)");
        mc_meta("assume", "a rolling Teletext header that contradicts the header learned since the last reset (same magazine) may be taken as an unidentified channel switch (documented automatic detection): one all-zero NETWORK iff a station was identified, all pages dropped - accepted, not demanded; rolling pages are not combined with timestamp gaps");
        mc_meta("assume", "frames arrive every 0.04 s except for the gap letter of phase pal-gap (+1 s); CNI 0xDC3/0x0DC3 skipped in sweeps (TR 101 231 rewrite, see C12)");
        mc_meta("assume", "repeated PROG_ID / LOCAL_TIME with unchanged value accepted (decoder documents it as presence signal); XDS call letters not required to be debounced (checksum protected)");
        int tier = mc_tier == MC_THOROUGH;
        pil_stride = tier ? 1 : 16;
        char bound[700]; size_t o = 0;
        for (unsigned i = 0; i < sizeof CFGS / sizeof *CFGS; i++)
                o += snprintf(bound + o, sizeof bound - o, "%s%s: %d letters, depth <= %d", i ? "; " : "", CFGS[i].name, CFGS[i].nl, CFGS[i].depth[tier]);
        mc_meta("bound", "%s; sweeps: 4095 VPS CNI, 65536 8/30-1 CNI, 65535 8/30-2 CNI, 65535 WSS words, every single-bit deviation (14 bits) of every valid 14 bit WSS word between repeats, all 64 x 64 ordered pairs of decodable WSS classes x 10 patterns of the undecoded bits, 2^20/%d PIL", bound, pil_stride);

        if (!mc_replaying) self_check();
        for (unsigned i = 0; i < sizeof CFGS / sizeof *CFGS; i++) {
                mc_bfs_spec spec; memset(&spec, 0, sizeof spec);
                spec.nletters = CFGS[i].nl; spec.max_depth = CFGS[i].depth[tier]; spec.timeout_s = 30;
                spec.run = run; spec.arg = (void *) &CFGS[i]; spec.letter_name = letter_name;
                mc_bfs_result res;
                mc_bfs(CFGS[i].name, &spec, &res);
        }
        mc_pool("sweep-vps-cni", 64, flat_vps, NULL, 30);
        mc_pool("sweep-8301-cni", 256, flat_8301, NULL, 30);
        mc_pool("sweep-8302-cni", 256, flat_8302, NULL, 30);
        mc_pool("sweep-wss", 256, flat_wss, NULL, 30);
        mc_pool("sweep-wss-deviation", 16384 / 64, flat_wss_dev, NULL, 60);
        mc_pool("sweep-wss-transition", NWSSCLS * NWSSPAT, flat_wss_trans, NULL, 30);
        mc_pool("sweep-pil", 1024, flat_pil, NULL, 60);
        return mc_finish();
}
