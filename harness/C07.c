/* C07 - DVB demux output depends only on the byte stream and recovers after
 * damage.
 *
 * (a) partition independence: explicit-state search with state merging over
 *     ALL partitions of a stream into successive buffers.  The demux context is
 *     a flat struct, so a state is a snapshot of it restored to the same
 *     address.  Node = (stream position, canonical demux state, number+hash of
 *     the frames delivered so far); edge = "hand the next L bytes to the
 *     library" for every L in 1..n-pos, the chunk being an exactly sized heap
 *     block.  After every edge the dead parts of the context (bytes of the
 *     wrap-around buffers outside the unconsumed range, sliced slots beyond
 *     frame.sp, frame bookkeeping while new_frame is pending, ...) are
 *     overwritten with 0xA5 IN THE LIVE OBJECT, so the hashed form is the
 *     actual state and a read of stale bytes becomes an output difference.
 *     Oracle: at every node the frames delivered so far are a prefix of the
 *     one-call run's sequence (a delivered frame cannot be taken back, so this
 *     is implied by equality at the end and localises the first divergence),
 *     and at position n the sequences are equal.  Interfaces: callback
 *     (vbi_dvb_demux_feed) and coroutine (vbi_dvb_demux_cor, max_lines 64 and
 *     1; the caller's sliced array is an exactly sized heap block).  The
 *     coroutine cannot report a frame of zero lines (its return value 0 means
 *     "need more data"), so its reference is the one-call callback sequence
 *     without empty frames, truncated to max_lines lines per frame as
 *     documented.
 *     Streams: built with the library's own multiplexer - one-packet frames,
 *     a frame split over two packets, foreign stream ids / PIDs (short, longer
 *     than the lookahead, padding, a rejected private_stream_1 packet,
 *     adaptation-only and repeated TS packets), stuffing-only packet, variable
 *     length data units, 368 and 1472 byte packets, a stream with garbage and
 *     a truncated packet; thorough adds 114 mutated copies of the 3x1 streams
 *     (one per field class of the second packet x 4 damage kinds).
 * (b) damage: every byte position of the packets of frames 0..5 of valid
 *     9-frame PES / TS streams x every damage kind; fed whole, in 1-byte
 *     buffers (thorough: also 2,7,47,188,189) and through the coroutine.
 *     Oracle, exactly the property text: no sanitizer report / abort / hang;
 *     the result is the same for every partition; with fb = last frame touched
 *     by the damage, the delivered sequence ENDS with frames fb+2 .. last
 *     exactly as sent ("all but at most the first frame after the damage").
 *     Frames fa-1, fa..fb and fb+1 are not compared (a frame is only flushed
 *     by the start of the next one, so fa-1 is still inside the demux when the
 *     damage arrives; the property text does not protect it).  What the
 *     undamaged run delivers of frames 0..fa-2 must come first (flushed before
 *     the damaged bytes are looked at).
 *     A violation key names the symptom (demanded frame missing / delivered
 *     with a wrong PTS or foreign lines) and a class of the damaged INPUT that
 *     is computed from the bytes alone (see input_class()), not the field that
 *     was hit: one cause shows up at many fields.  The field goes into the
 *     detail text.
 *
 * The start of a TS stream is treated like the situation after damage (the
 * demux is not synchronised): for the intact-stream sanity check only frames
 * F2.. are demanded there.  PES streams must come out exactly as sent.
 *
 * Case indices do not depend on the tier (replay files do not record it): the
 * quick tier returns immediately from cases that only the thorough tier runs.
 *
 * Deviations from DESIGN.md C07:
 *  - E2 is done with an own explicit-state loop inside one pool case per
 *    (stream, interface) (mc_bfs replays histories on fresh objects, which is
 *    what state snapshots avoid); states/transitions are reported through
 *    mc_count.
 *  - DESIGN's "nothing is delivered that was not sent except a truncated f/f+1"
 *    and "frames before f are delivered" are stronger than the property text;
 *    only what is stated above is demanded.
 *  - The CC-625 data unit is not used in streams: mux (line 22) and demux
 *    (line 21) disagree about its line, which is C06's business.
 *  - WSS byte 1 is sent with its two unused top bits set, which is what the
 *    mux ("| 3") makes of them anyway.
 */
#include <stdio.h>
#include <stdlib.h>
#include <string.h>
#include <stddef.h>
#include <unistd.h>
#include "mc.h"
#include "src/dvb_demux.c"     /* private struct _vbi_dvb_demux; the archive member is not pulled in */
#include "src/dvb_mux.h"

#define H_PID 0x0123u
#define POISON 0xA5
#define POISON32 0xA5A5A5A5u
#define POISON64 ((int64_t) 0xA5A5A5A5A5A5A5A5ull)

static void h_die(const char *fmt, ...)
{
        va_list ap; va_start(ap, fmt);
        fprintf(stderr, "C07 harness error: "); vfprintf(stderr, fmt, ap); fputc('\n', stderr);
        va_end(ap);
        fflush(NULL);
        _exit(42);
}

/* ======================================================================== */
/* frames: canonical form, recorder                                          */

struct h_line  { uint32_t id, line; uint8_t len; uint8_t data[42]; };
struct h_frame { int n; int64_t pts; struct h_line l[64]; };

static int payload_len(uint32_t id)
{
        switch (id) {
        case VBI_SLICED_TELETEXT_B:      return 42;
        case VBI_SLICED_VPS:
        case VBI_SLICED_VPS_F2:          return 13;
        case VBI_SLICED_WSS_625:
        case VBI_SLICED_CAPTION_625_F1:
        case VBI_SLICED_CAPTION_625_F2:
        case VBI_SLICED_CAPTION_525_F1:
        case VBI_SLICED_CAPTION_525_F2:  return 2;
        case VBI_SLICED_WSS_CPR1204:     return 3;
        default:                         return 0;
        }
}

static void frame_from_sliced(struct h_frame *f, const vbi_sliced *s, unsigned n, int64_t pts)
{
        memset(f, 0, sizeof *f);
        if (n > 64) n = 64;
        f->n = n; f->pts = pts;
        for (unsigned i = 0; i < n; i++) {
                f->l[i].id = s[i].id; f->l[i].line = s[i].line;
                f->l[i].len = payload_len(s[i].id);
                memcpy(f->l[i].data, s[i].data, f->l[i].len);
        }
}
static int frame_eq(const struct h_frame *a, const struct h_frame *b)
{
        if (a->n != b->n || a->pts != b->pts) return 0;
        for (int i = 0; i < a->n; i++)
                if (a->l[i].id != b->l[i].id || a->l[i].line != b->l[i].line
                    || memcmp(a->l[i].data, b->l[i].data, a->l[i].len)) return 0;
        return 1;
}
static void frame_hash(const struct h_frame *f, uint64_t *a, uint64_t *b)
{
        mc_hash h; mc_hash_init(&h);
        mc_hash_u64(&h, *a); mc_hash_u64(&h, *b);
        mc_hash_u64(&h, (uint64_t) f->n); mc_hash_u64(&h, (uint64_t) f->pts);
        for (int i = 0; i < f->n; i++) {
                mc_hash_u64(&h, ((uint64_t) f->l[i].id << 32) | f->l[i].line);
                mc_hash_add(&h, f->l[i].data, f->l[i].len);
        }
        *a = h.a; *b = h.b;
}
static const char *svc_name(uint32_t id)
{
        switch (id) {
        case VBI_SLICED_TELETEXT_B: return "ttx";
        case VBI_SLICED_VPS: return "vps";
        case VBI_SLICED_VPS_F2: return "vps2";
        case VBI_SLICED_WSS_625: return "wss";
        case VBI_SLICED_CAPTION_625_F1: return "cc625f1";
        case VBI_SLICED_CAPTION_625_F2: return "cc625f2";
        case VBI_SLICED_CAPTION_525_F1: return "cc525f1";
        case VBI_SLICED_CAPTION_525_F2: return "cc525f2";
        case VBI_SLICED_WSS_CPR1204: return "cpr1204";
        default: return "?";
        }
}
static const char *frame_str(const struct h_frame *f)
{
        static char b[4][400]; static int k;
        char *o = b[k++ & 3]; size_t n = 0;
        n += snprintf(o + n, 400 - n, "{pts=%llx", (unsigned long long) f->pts);
        for (int i = 0; i < f->n && n < 340; i++)
                n += snprintf(o + n, 400 - n, " %s@%u:%02x%02x..", svc_name(f->l[i].id), f->l[i].line, f->l[i].data[0], f->l[i].data[1]);
        snprintf(o + n, 400 - n, "}");
        return o;
}

/* recorder: rolling (count, hash); optional full log */
#define LOGMAX 48
static struct {
        uint32_t nf; uint64_t a, b;
        int log; int nlog; struct h_frame *frames;   /* LOGMAX entries when log is on */
} R;

static void rec_reset(int log)
{
        R.nf = 0; R.a = 0x1234; R.b = 0x5678; R.log = log; R.nlog = 0;
        if (log && !R.frames) R.frames = malloc(LOGMAX * sizeof *R.frames);
}
static void rec_frame(const vbi_sliced *s, unsigned n, int64_t pts)
{
        static struct h_frame f;
        frame_from_sliced(&f, s, n, pts);
        frame_hash(&f, &R.a, &R.b);
        R.nf++;
        if (R.log && R.nlog < LOGMAX) R.frames[R.nlog++] = f;
}
/* No stream of this harness holds more than a few dozen frames.  A demultiplexer that keeps calling back (an endless
 * "new frame" loop inside one feed call, seed C07-8) is stopped through the callback's return value and reported here,
 * instead of waiting for the per-case watchdog (150 s, 750 s for the confirmation run). */
#define RUNAWAY_FRAMES 3000
static int runaway;
static vbi_bool h_cb(vbi_dvb_demux *dx, void *ud, const vbi_sliced *s, unsigned int n, int64_t pts)
{
        rec_frame(s, n, pts);
        if (R.nf > RUNAWAY_FRAMES) {
                if (!runaway) mc_violation("demux: callback invoked without end inside one feed call (more frames than the input has data units)",
                                           "%u frames delivered, last one with %u lines", R.nf, n);
                runaway = 1;
                return FALSE;
        }
        return TRUE;
}

/* ======================================================================== */
/* streams (built with the real multiplexer)                                 */

struct h_pk { size_t lo, hi; int frame; };       /* byte extent of one PES (PES framing) or TS (TS framing) packet */
struct h_stream {
        char name[40];
        int ts;
        int intact;                      /* sent frames are the expected output */
        int quick;                       /* part of the quick tier */
        uint8_t *b; size_t n, cap;
        struct h_frame sent[16]; int nsent;       /* last one only flushes its predecessor */
        struct h_pk pk[96]; int npk;
        /* builder state */
        vbi_dvb_mux *mx; int cur_frame;
};

static uint32_t lcg(uint32_t *s) { *s = *s * 1664525u + 1013904223u; return *s >> 16; }

static void sb_append(struct h_stream *st, const void *p, size_t n, int frame)
{
        if (st->n + n > st->cap) { st->cap = (st->n + n) * 2 + 4096; st->b = realloc(st->b, st->cap); }
        memcpy(st->b + st->n, p, n);
        if (st->npk >= 96) h_die("too many packets in %s", st->name);
        st->pk[st->npk].lo = st->n; st->pk[st->npk].hi = st->n + n; st->pk[st->npk].frame = frame; st->npk++;
        st->n += n;
}
static vbi_bool sb_mux_cb(vbi_dvb_mux *mx, void *ud, const uint8_t *packet, unsigned int size)
{
        struct h_stream *st = ud;
        sb_append(st, packet, size, st->cur_frame);
        return TRUE;
}
static void sb_begin(struct h_stream *st, const char *name, int ts, unsigned data_identifier)
{
        memset(st, 0, sizeof *st);
        snprintf(st->name, sizeof st->name, "%s", name);
        st->ts = ts; st->intact = 1;
        st->mx = ts ? vbi_dvb_ts_mux_new(H_PID, sb_mux_cb, st) : vbi_dvb_pes_mux_new(sb_mux_cb, st);
        if (!st->mx) h_die("mux_new");
        if (!vbi_dvb_mux_set_data_identifier(st->mx, data_identifier)) h_die("data_identifier");
}
static void sb_end(struct h_stream *st) { vbi_dvb_mux_delete(st->mx); st->mx = NULL; }

/* A line spec: service letter + line: 't' teletext, 'v' VPS (16), 'w' WSS (23). */
struct h_ls { char svc; unsigned line; };

static void mk_sliced(vbi_sliced *s, int frame, struct h_ls ls)
{
        uint32_t seed = 0xC07u * 65537u + frame * 977u + ls.line * 31u + ls.svc;
        memset(s, 0, sizeof *s);
        s->line = ls.line;
        switch (ls.svc) {
        case 't': s->id = VBI_SLICED_TELETEXT_B; for (int i = 0; i < 42; i++) s->data[i] = lcg(&seed); break;
        case 'v': s->id = VBI_SLICED_VPS;        for (int i = 0; i < 13; i++) s->data[i] = lcg(&seed); break;
        case 'w': s->id = VBI_SLICED_WSS_625;    s->data[0] = lcg(&seed); s->data[1] = lcg(&seed) | 0xC0; break;
        default: h_die("line spec");
        }
}
static int64_t frame_pts(int frame) { return 0x123456780ll + (int64_t) frame * 3600; }

/* one PES packet carrying `nls' lines of frame `frame' (a frame may be sent in several packets) */
static void sb_packet(struct h_stream *st, int frame, const struct h_ls *ls, int nls, unsigned minsz, unsigned maxsz)
{
        vbi_sliced sl[32];
        if (nls > 32) h_die("nls");
        for (int i = 0; i < nls; i++) mk_sliced(&sl[i], frame, ls[i]);
        if (frame >= 16) h_die("frame index");
        if (frame >= st->nsent) { st->nsent = frame + 1; st->sent[frame].n = 0; st->sent[frame].pts = frame_pts(frame); }
        struct h_frame *sf = &st->sent[frame];
        for (int i = 0; i < nls; i++) {
                struct h_frame one; frame_from_sliced(&one, &sl[i], 1, 0);
                sf->l[sf->n++] = one.l[0];
        }
        vbi_dvb_mux_set_pes_packet_size(st->mx, minsz, maxsz);
        st->cur_frame = frame;
        size_t before = st->n;
        if (!vbi_dvb_mux_feed(st->mx, nls ? sl : NULL, nls,
                              VBI_SLICED_TELETEXT_B | VBI_SLICED_VPS | VBI_SLICED_WSS_625, NULL, NULL, frame_pts(frame)))
                h_die("mux_feed failed for %s frame %d", st->name, frame);
        if (st->n == before) h_die("mux produced nothing");
}
static void sb_raw(struct h_stream *st, const void *p, size_t n) { sb_append(st, p, n, -1); }

/* foreign TS packet */
static void sb_ts_foreign(struct h_stream *st, unsigned pid, unsigned b3, uint32_t seed)
{
        uint8_t p[188];
        p[0] = 0x47; p[1] = pid >> 8; p[2] = pid; p[3] = b3;
        for (int i = 4; i < 188; i++) { unsigned v = lcg(&seed); p[i] = (v % 5 == 0) ? 0x47 : v; }
        /* looks like a PES start inside the foreign packet */
        p[40] = 0; p[41] = 0; p[42] = 1; p[43] = 0xBD;
        sb_raw(st, p, 188);
}

#define LS(...) (const struct h_ls[]){ __VA_ARGS__ }, (int)(sizeof((const struct h_ls[]){ __VA_ARGS__ }) / sizeof(struct h_ls))

#define MAXSTREAMS 256
static struct h_stream ST[MAXSTREAMS]; static int NST;
static struct h_stream BASE[5]; static int NBASE;

static void frameA(struct h_stream *st, int f) { sb_packet(st, f, LS({'t',7},{'v',16},{'w',23}), 184, 184); }
static void frameB(struct h_stream *st, int f) { sb_packet(st, f, LS({'t',8},{'t',320}), 184, 184); }
static void frameC(struct h_stream *st, int f) { sb_packet(st, f, LS({'t',7}), 184, 184); }
static void frameD(struct h_stream *st, int f) { sb_packet(st, f, LS({'t',9},{'t',321},{'t',335}), 184, 184); }

static void build_streams(void)
{
        struct h_stream *st;
        static const uint8_t video_pes[] = { 0,0,1,0xE0, 0,30,  0x80,0x80,5, 0x21,0,1,0,1,
                                             0,0,1,0xBD, 0,0xB2, 0x84,0x80,0x24, 0,0,1,0xBD,0,0,1, 0xFF,0xFF,0xFF,0xFF,0xFF,0xFF };
        static const uint8_t padding_pes[] = { 0,0,1,0xBE, 0,10, 0xFF,0xFF,0xFF,0xFF,0xFF,0xFF,0xFF,0xFF,0,0 };
        static const uint8_t junk1[] = { 0x12,0,0,1,0xBD };                       /* 5 bytes, ends like a start code */
        uint8_t junk2[37]; { uint32_t s = 77; for (int i = 0; i < 37; i++) junk2[i] = lcg(&s); junk2[9] = 0; junk2[10] = 0; junk2[11] = 1; junk2[12] = 0xBD; junk2[35] = 0; junk2[36] = 0; }

        for (int ts = 0; ts < 2; ts++) {
                const char *fr = ts ? "ts" : "pes";
                char nm[40];
                /* Frame separation is by line number wrap-around, so every frame starts at a line
                 * <= the last line of its predecessor.  After (re)synchronisation the TS demux drops a
                 * PES packet that fits into one TS packet (see the report), so the TS variants of the
                 * one-TS-packet streams carry one more frame. */
                /* 0: three one-packet frames + flush frame */
                st = &ST[NST++]; snprintf(nm, sizeof nm, "%s-3x1", fr); sb_begin(st, nm, ts, 0x10);
                frameA(st, 0); frameB(st, 1); frameC(st, 2); frameA(st, 3); if (ts) frameD(st, 4); sb_end(st);
                /* 1: frame split over two packets */
                st = &ST[NST++]; snprintf(nm, sizeof nm, "%s-split", fr); sb_begin(st, nm, ts, 0x10);
                sb_packet(st, 0, LS({'t',7},{'t',8}), 184, 184); sb_packet(st, 0, LS({'t',320},{'t',321}), 184, 184);
                frameC(st, 1); frameA(st, 2); if (ts) frameD(st, 3); sb_end(st);
                /* 2: foreign data between the packets */
                st = &ST[NST++]; snprintf(nm, sizeof nm, "%s-foreign", fr); sb_begin(st, nm, ts, 0x10);
                if (!ts) {
                        /* a short and a long (> lookahead) foreign packet, a padding packet, and a private_stream_1
                         * packet that fails the header checks and is skipped by its length */
                        uint8_t longv[6 + 120]; { uint32_t sd = 99; memcpy(longv, video_pes, 4); longv[4] = 0; longv[5] = 120; for (int i = 6; i < 126; i++) longv[i] = lcg(&sd) | 2; memcpy(longv + 60, video_pes + 14, 16); }
                        frameA(st, 0); sb_raw(st, video_pes, sizeof video_pes); frameB(st, 1);
                        { size_t at = st->n; frameD(st, 15); st->nsent = 2; st->b[at + 45] = 0x00; }      /* data_identifier 0: rejected */
                        sb_raw(st, longv, sizeof longv);
                        sb_raw(st, padding_pes, sizeof padding_pes); frameC(st, 2); frameA(st, 3);
                } else {
                        frameA(st, 0); sb_ts_foreign(st, 0x0100, 0x17, 5);
                        frameB(st, 1);
                        { uint8_t ad[188]; memset(ad, 0xFF, 188); ad[0] = 0x47; ad[1] = H_PID >> 8; ad[2] = H_PID & 0xFF; ad[3] = 0x21; ad[4] = 183; ad[5] = 0; sb_raw(st, ad, 188); }
                        frameC(st, 2);
                        { uint8_t rep[188]; memcpy(rep, st->b + st->n - 188, 188); sb_raw(st, rep, 188); }   /* repeated packet */
                        frameA(st, 3);
                }
                sb_end(st);
                /* 3: damaged stream (no sent-frame oracle, partition independence only) */
                st = &ST[NST++]; snprintf(nm, sizeof nm, "%s-garbage", fr); sb_begin(st, nm, ts, 0x10);
                st->intact = 0;
                sb_raw(st, junk1, ts ? 3 : 5); frameA(st, 0);
                { size_t keep = st->n; frameB(st, 1); st->n = keep + (ts ? 94 : 100); st->npk--; sb_raw(st, junk2, 37); }  /* truncated packet + junk */
                frameC(st, 2); frameA(st, 3); frameD(st, 4); frameB(st, 5); if (ts) frameA(st, 6); sb_end(st);
                /* 4: stuffing-only packet */
                st = &ST[NST++]; snprintf(nm, sizeof nm, "%s-stuffing", fr); sb_begin(st, nm, ts, 0x10);
                frameA(st, 0);
                { int keep = st->nsent; sb_packet(st, 0, NULL, 0, 184, 184); st->nsent = keep; }
                frameB(st, 1); frameC(st, 2); if (ts) frameA(st, 3); sb_end(st);
                /* 5: variable length data units (EN 301 775 data_identifier 0x99) */
                st = &ST[NST++]; snprintf(nm, sizeof nm, "%s-var", fr); sb_begin(st, nm, ts, 0x99);
                frameA(st, 0); frameD(st, 1); frameA(st, 2); if (ts) frameD(st, 3); sb_end(st);
                /* 6: two-TS-packet PES packets (368 bytes, 7 lines) */
                st = &ST[NST++]; snprintf(nm, sizeof nm, "%s-368", fr); sb_begin(st, nm, ts, 0x10);
                for (int f = 0; f < 3; f++)
                        sb_packet(st, f, LS({'t',7},{'t',8},{'t',9},{'v',16},{'t',320},{'t',321},{'t',322}), 368, 368);
                sb_end(st);
                /* 7: one 1472 byte packet (EN 300 472 maximum), then minimum size packets */
                st = &ST[NST++]; snprintf(nm, sizeof nm, "%s-1472", fr); sb_begin(st, nm, ts, 0x10);
                sb_packet(st, 0, LS({'t',7},{'t',8},{'t',10},{'t',12},{'v',16},{'t',20},{'w',23},{'t',320},{'t',330},{'t',335}), 1472, 1472);
                frameB(st, 1); frameC(st, 2); sb_end(st);
                /* 8: data units the multiplexer never produces (partition independence only): Closed Caption 625 and the
                 * libzvbi private units for 525 line systems, Teletext subtitle and inverted Teletext units, a monochrome
                 * samples unit (skipped: the public demux has no raw output), an unknown data_unit_id, a unit with a wrong
                 * length.  The 46 byte fixed length units of frames built by the multiplexer are overwritten in place. */
                st = &ST[NST++]; snprintf(nm, sizeof nm, "%s-private", fr); sb_begin(st, nm, ts, 0x10);
                st->intact = 0;
                frameA(st, 0);
                { size_t at = st->n; frameD(st, 1); uint8_t *u = st->b + at + (ts ? 4 : 0) + 46;
                  memset(u + 2, 0xFF, 44); u[0] = 0xC5; u[2] = 0xC0 | (1 << 5) | 21; u[3] = 0x15; u[4] = 0x2C;            /* Closed Caption, first field line 21 */
                  u += 46; memset(u + 2, 0xFF, 44); u[0] = 0xB5; u[2] = 0xC0 | (0 << 5) | 21; u[3] = 0x94; u[4] = 0x20;    /* ZVBI Closed Caption 525, second field */
                  u += 46; memset(u + 2, 0xFF, 44); u[0] = 0xB4; u[2] = 0xC0 | (1 << 5) | 20; u[3] = 0x12; u[4] = 0x34; u[5] = 0x50; }  /* ZVBI WSS CPR-1204 */
                { size_t at = st->n; frameD(st, 2); uint8_t *u = st->b + at + (ts ? 4 : 0) + 46;
                  u[0] = 0x03;                                                                                           /* EBU Teletext subtitle */
                  u += 46; u[0] = 0xC0;                                                                                   /* inverted Teletext */
                  u += 46; memset(u + 2, 0xFF, 44); u[0] = 0xC6; u[2] = 0xC0 | (1 << 5) | 10; u[3] = 0; u[4] = 0; u[5] = 38; for (int i = 0; i < 38; i++) u[6 + i] = 16 + i; }  /* monochrome samples, one segment */
                frameA(st, 3);
                { size_t at = st->n; frameD(st, 4); uint8_t *u = st->b + at + (ts ? 4 : 0) + 46;
                  u += 46; u[0] = 0x55;                                                                                   /* unknown data_unit_id */
                  u += 46; u[1] = 0x2B; }                                                                                 /* Teletext unit with data_unit_length 43 */
                frameB(st, 5); frameC(st, 6); if (ts) frameA(st, 7); sb_end(st);
        }

        /* 9: variable length data units (data_identifier 0x99), the last unit of every packet one byte shorter than its
         * data field: Teletext with length 43, VPS 13, WSS 2, Closed Caption 2, ZVBI WSS CPR-1204 3, ZVBI Caption 525 2,
         * samples 3.  A length check that is off by one reads the byte behind the PES packet - the next stream byte when
         * the packet is processed in place, a stale byte when it was assembled from several calls (partition independence),
         * and past the caller's buffer when the packet ends it (exact heap block).  One PES packet of 184 bytes per frame;
         * the trailing stuffing unit written by the multiplexer is shortened to make room. */
        for (int ts = 0; ts < 2; ts++) {
                static const struct { uint8_t id, len; } SH[7] = { { 0x02, 43 }, { 0xC3, 13 }, { 0xC4, 2 }, { 0xC5, 2 }, { 0xB4, 3 }, { 0xB5, 2 }, { 0xC6, 3 } };
                char nm[40]; snprintf(nm, sizeof nm, "%s-short-units", ts ? "ts" : "pes");
                st = &ST[NST++]; sb_begin(st, nm, ts, 0x99);
                st->intact = 0;
                for (int k = 0; k < 7; k++) {
                        size_t at = st->n;
                        sb_packet(st, k, LS({'t',7}), 184, 184);
                        uint8_t *pes = st->b + at + (ts ? 4 : 0), *q = pes + 46, *last = NULL;
                        while (q + 2 <= pes + 184) { last = q; q += 2 + q[1]; }
                        unsigned need = 2 + SH[k].len;
                        if (q != pes + 184 || !last || last[0] != 0xFF || last[1] < need + 2) h_die("short-units: no trailing stuffing unit of >= %u bytes in frame %d", need + 4, k);
                        last[1] -= need;
                        uint8_t *u = pes + 184 - need;
                        u[0] = SH[k].id; u[1] = SH[k].len;
                        u[2] = 0xC0 | (1 << 5) | (SH[k].id == 0xC3 ? 16 : SH[k].id == 0xC4 ? 23 : SH[k].id == 0xC5 || SH[k].id == 0xB5 ? 21 : 20);
                        for (unsigned i = 3; i < need; i++) u[i] = (uint8_t)(0x15 + 7 * i + k);
                        if (SH[k].id == 0x02) u[3] = 0xE4;      /* framing code */
                }
                frameA(st, 7); frameB(st, 8); if (ts) frameA(st, 9);
                sb_end(st);
        }

        /* 10: Teletext units with an undefined line number (line_offset 0, legal EN 301 775) in both field parities, at
         * every position of a packet - in particular a second field unit as the first unit of a packet, after earlier
         * data units: line_address() then decides "new frame" from the field alone and looks at state that the frame
         * reset must have cleared (seed C07-8: a stale last_data_unit_id makes demux_pes_packet_frame() loop forever).
         * Built by the multiplexer with real line numbers, the line bytes are overwritten in place.  Partition
         * independence and termination only: frame boundaries are not recognisable by line number here. */
        for (int ts = 0; ts < 2; ts++) {
                static const char *PAT[6] = { "21", "12", "2", "221", "1", "212" };     /* 1 = first field, 2 = second field */
                char nm[40]; snprintf(nm, sizeof nm, "%s-line0", ts ? "ts" : "pes");
                st = &ST[NST++]; sb_begin(st, nm, ts, 0x10);
                st->intact = 0;
                frameA(st, 0);
                for (int k = 0; k < 6; k++) {
                        size_t at = st->n; int nl = (int) strlen(PAT[k]);
                        static const struct h_ls L3[3] = { {'t',7}, {'t',8}, {'t',9} };
                        sb_packet(st, 1 + k, L3, nl, 184, 184);
                        uint8_t *u = st->b + at + (ts ? 4 : 0) + 46;
                        for (int i = 0; i < nl; i++, u += 46) {
                                if (u[0] != 0x02 || u[1] != 0x2C) h_die("line0: unexpected data unit in frame %d", 1 + k);
                                u[2] = 0xC0 | ((PAT[k][i] == '1') << 5) | 0;
                        }
                }
                frameA(st, 7); frameB(st, 8); if (ts) frameA(st, 9);
                sb_end(st);
        }

        /* 11: scrambled packets of foreign PIDs (a pay-TV multiplex), between PES packets and between the two TS packets
         * of one PES packet; null packets (PID 0x1FFF) likewise.  Foreign PIDs are none of the demultiplexer's business
         * whatever their header bits say (seed C07-9: the scrambling check ran before the PID filter and dropped the VBI
         * frame in progress).  Intact stream: the sent frames are the expected output. */
        {
                st = &ST[NST++]; sb_begin(st, "ts-scrambled-foreign", 1, 0x10);
                for (int f = 0; f < 3; f++) {
                        sb_packet(st, f, LS({'t',7},{'t',8},{'t',9},{'v',16},{'t',320},{'t',321},{'t',322}), 368, 368);
                        if (f >= 1) {
                                uint8_t keep[188]; memcpy(keep, st->b + st->n - 188, 188);
                                st->n -= 188; st->npk--;
                                sb_ts_foreign(st, f == 2 ? 0x1FFF : 0x0100 + f, f == 1 ? 0x97 : 0xD3, 11 + f);     /* tsc 10, 11 */
                                sb_append(st, keep, 188, f);
                        }
                        if (f != 1) sb_ts_foreign(st, 0x0200, f ? 0x5A : 0xDA, 40 + f);                              /* tsc 01, 11 */
                }
                frameA(st, 3); frameB(st, 4);
                sb_end(st);
        }

        /* base streams for the damage enumeration: 9 frames, the last one only flushes */
        for (int k = 0; k < 5; k++) {
                st = &BASE[NBASE++];
                /* 0 pes-184, 1 ts-184, 2 ts-368, 3 ts-fields: every frame in two PES packets, first field / second field (quick: these
                 * four), 4 pes-368 with variable length data units.  With ts-fields a loss that begins and ends on PES packet
                 * boundaries (second field packet of frame N + first field packet of frame N+1) is enumerated through damage kind
                 * "delete 376".  (Seed C07-12 glues the first field of N to the second field of N+1 there; the property only speaks
                 * about the frames behind the first one after the damage, and the unchanged library itself joins a damaged frame
                 * with its predecessor when the damage hits a line number, so no oracle demands the absence of such a frame.) */
                int ts = (k >= 1 && k <= 3), big = (k == 2 || k == 4), fields = k == 3;
                char nm[40]; snprintf(nm, sizeof nm, "%s-base-%s", ts ? "ts" : "pes", fields ? "fields" : big ? "368" : "184");
                sb_begin(st, nm, ts, k == 4 ? 0x99 : 0x10);
                /* the TS demultiplexer loses the PES packet it synchronises on (a listed finding): let that be a stuffing-only one,
                 * or frame 0 would arrive as its second field alone */
                if (fields) sb_packet(st, 0, NULL, 0, 184, 184);
                for (int f = 0; f < 9; f++) {
                        if (fields) {
                                if (f & 1) { sb_packet(st, f, LS({'t',7},{'v',16},{'w',23}), 184, 184); sb_packet(st, f, LS({'t',320},{'t',333}), 184, 184); }
                                else       { sb_packet(st, f, LS({'t',8},{'t',10}), 184, 184); sb_packet(st, f, LS({'t',321},{'t',322},{'t',335}), 184, 184); }
                        } else if (big) {
                                if (f & 1) sb_packet(st, f, LS({'t',7},{'t',9},{'v',16},{'t',22},{'w',23},{'t',320},{'t',333}), 368, 368);
                                else       sb_packet(st, f, LS({'t',8},{'t',10},{'t',11},{'t',321},{'t',322},{'t',334},{'t',335}), 368, 368);
                        } else {
                                if (f % 3 == 0) frameA(st, f); else if (f % 3 == 1) frameD(st, f); else frameB(st, f);
                        }
                }
                sb_end(st);
        }
}

/* ======================================================================== */
/* driving the demux                                                         */

enum { IF_FEED, IF_COR64, IF_COR1, NIFACE };
static const char *const iface_name[] = { "feed", "cor64", "cor1" };
static const unsigned iface_lines[] = { 0, 64, 1 };

static vbi_dvb_demux *dx_new(int ts, int iface)
{
        vbi_dvb_demux_cb *cb = iface == IF_FEED ? h_cb : NULL;
        vbi_dvb_demux *dx = ts ? _vbi_dvb_ts_demux_new(cb, NULL, H_PID) : vbi_dvb_pes_demux_new(cb, NULL);
        if (!dx) h_die("demux_new");
        return dx;
}

static vbi_sliced *cor_out; static unsigned cor_out_lines;

/* Hands one buffer to the library through the chosen interface.  Returns 0, or
 * -1 when the coroutine stopped making progress. */
static int run_chunk(vbi_dvb_demux *dx, int iface, const uint8_t *src, size_t len)
{
        uint8_t *blk = mc_exact(src, len);
        int r = 0;
        if (iface == IF_FEED) {
                vbi_dvb_demux_feed(dx, blk, len);
        } else {
                unsigned ml = iface_lines[iface];
                if (cor_out_lines != ml) { free(cor_out); cor_out = malloc(ml * sizeof *cor_out); cor_out_lines = ml; }
                const uint8_t *p = blk; unsigned left = len; unsigned guard = 0;
                while (left > 0) {
                        int64_t pts = POISON64;
                        memset(cor_out, POISON, ml * sizeof *cor_out);
                        unsigned before = left;
                        unsigned n = vbi_dvb_demux_cor(dx, cor_out, ml, &pts, &p, &left);
                        if (n > ml) { r = -2; break; }
                        if (n > 0) rec_frame(cor_out, n, pts);
                        if (left == before) { if (++guard > 4) { r = -1; break; } } else guard = 0;
                }
        }
        free(blk);
        return r;
}

/* ======================================================================== */
/* (a) explicit state search over partitions                                 */

#define TAIL_OFF  offsetof(struct _vbi_dvb_demux, pes_wrap)
#define TAILSZ    (sizeof(struct _vbi_dvb_demux) - TAIL_OFF)

struct h_ext { uint32_t plo, phi, thi, nsl; };     /* live extents */

struct h_node {
        uint32_t pos, parent, plen, depth, next;
        uint32_t nf; uint64_t fa, fb;
        struct h_ext e;
        uint8_t *blob;              /* tail, pes live, ts live, sliced live */
};

static struct h_ext cur_ext;

/* Overwrites everything the library must not look at any more.  Returns 0, or
 * -1 when the context is inconsistent (a library invariant is broken). */
static int h_normalise(vbi_dvb_demux *dx, int ts, struct h_ext *e)
{
        size_t plo, phi, thi;
        if (!ts) {
                if (dx->pes_wrap.bp < dx->pes_buffer || dx->pes_wrap.bp > dx->pes_buffer + sizeof dx->pes_buffer) return -1;
                phi = dx->pes_wrap.bp - dx->pes_buffer;
                if (dx->pes_wrap.leftover > phi) return -1;
                plo = phi - dx->pes_wrap.leftover;
                thi = 0;
        } else {
                if (dx->ts_pes_todo > 0) {
                        if (dx->ts_pes_bp < dx->pes_buffer || dx->ts_pes_bp > dx->pes_buffer + sizeof dx->pes_buffer) return -1;
                        plo = 0; phi = dx->ts_pes_bp - dx->pes_buffer;
                } else if (dx->ts_frame_todo > 0) {
                        if (dx->ts_frame_bp < dx->pes_buffer || dx->ts_frame_bp + dx->ts_frame_todo > dx->pes_buffer + sizeof dx->pes_buffer) return -1;
                        plo = dx->ts_frame_bp - dx->pes_buffer; phi = plo + dx->ts_frame_todo;
                } else plo = phi = 0;
                if (dx->ts_pes_todo == 0) dx->ts_pes_bp = NULL;
                if (dx->ts_frame_todo == 0) dx->ts_frame_bp = NULL;
                if (dx->ts_wrap.bp < dx->ts_buffer || dx->ts_wrap.bp > dx->ts_buffer + sizeof dx->ts_buffer) return -1;
                thi = dx->ts_wrap.bp - dx->ts_buffer;
        }
        memset(dx->pes_buffer, POISON, plo);
        memset(dx->pes_buffer + phi, POISON, sizeof dx->pes_buffer - phi);
        memset(dx->ts_buffer + thi, POISON, sizeof dx->ts_buffer - thi);

        struct frame *f = &dx->frame;
        if (dx->new_frame) {
                /* exactly what reset_frame() is going to do before anything is looked at */
                f->sp = f->sliced_begin; f->rp = f->raw; f->raw_offset = 0;
                f->last_field = 0; f->last_field_line = 0; f->last_frame_line = 0; f->last_data_unit_id = 0;
                dx->frame_pts = POISON64;
        }
        if (f->sp < dx->sliced || f->sp > dx->sliced + 64) return -1;
        size_t nsl = f->sp - dx->sliced;
        memset(dx->sliced + nsl, POISON, (64 - nsl) * sizeof(vbi_sliced));
        /* set to zero at the start of every packet payload; only a pending TS payload keeps it */
        if (!ts || dx->ts_frame_todo == 0) f->n_data_units_extracted_from_packet = POISON32;
        e->plo = plo; e->phi = phi; e->thi = thi; e->nsl = nsl;
        return 0;
}

static size_t ext_size(const struct h_ext *e) { return TAILSZ + (e->phi - e->plo) + e->thi + e->nsl * sizeof(vbi_sliced); }

static void h_save(const vbi_dvb_demux *dx, struct h_node *nd)
{
        const struct h_ext *e = &nd->e;
        uint8_t *o = nd->blob = malloc(ext_size(e));
        memcpy(o, (const uint8_t *) dx + TAIL_OFF, TAILSZ); o += TAILSZ;
        memcpy(o, dx->pes_buffer + e->plo, e->phi - e->plo); o += e->phi - e->plo;
        memcpy(o, dx->ts_buffer, e->thi); o += e->thi;
        memcpy(o, dx->sliced, e->nsl * sizeof(vbi_sliced));
}
static void h_restore(vbi_dvb_demux *dx, const struct h_node *nd)
{
        memset(dx->pes_buffer + cur_ext.plo, POISON, cur_ext.phi - cur_ext.plo);
        memset(dx->ts_buffer, POISON, cur_ext.thi);
        memset(dx->sliced, POISON, cur_ext.nsl * sizeof(vbi_sliced));
        const struct h_ext *e = &nd->e; const uint8_t *o = nd->blob;
        memcpy((uint8_t *) dx + TAIL_OFF, o, TAILSZ); o += TAILSZ;
        memcpy(dx->pes_buffer + e->plo, o, e->phi - e->plo); o += e->phi - e->plo;
        memcpy(dx->ts_buffer, o, e->thi); o += e->thi;
        memcpy(dx->sliced, o, e->nsl * sizeof(vbi_sliced));
        cur_ext = *e;
        R.nf = nd->nf; R.a = nd->fa; R.b = nd->fb;
}
static void h_state_hash(const vbi_dvb_demux *dx, const struct h_ext *e, uint32_t pos, uint64_t out[2])
{
        mc_hash h; mc_hash_init(&h);
        mc_hash_u64(&h, pos); mc_hash_u64(&h, R.nf); mc_hash_u64(&h, R.a); mc_hash_u64(&h, R.b);
        mc_hash_add(&h, e, sizeof *e);
        mc_hash_add(&h, (const uint8_t *) dx + TAIL_OFF, TAILSZ);
        mc_hash_add(&h, dx->pes_buffer + e->plo, e->phi - e->plo);
        mc_hash_add(&h, dx->ts_buffer, e->thi);
        mc_hash_add(&h, dx->sliced, e->nsl * sizeof(vbi_sliced));
        out[0] = h.a; out[1] = h.b;
}

/* hash -> node index */
struct h_map { uint64_t *a, *b; uint32_t *idx; size_t cap, n; };
static void map_init(struct h_map *m, size_t cap) { m->cap = cap; m->n = 0; m->a = calloc(cap, 8); m->b = calloc(cap, 8); m->idx = calloc(cap, 4); }
static void map_free(struct h_map *m) { free(m->a); free(m->b); free(m->idx); }
static uint32_t *map_slot(struct h_map *m, uint64_t a, uint64_t b, int *isnew);
static void map_grow(struct h_map *m)
{
        struct h_map o = *m; map_init(m, o.cap * 2);
        for (size_t i = 0; i < o.cap; i++) if (o.idx[i]) { int nw; *map_slot(m, o.a[i], o.b[i], &nw) = o.idx[i]; }
        map_free(&o);
}
static uint32_t *map_slot(struct h_map *m, uint64_t a, uint64_t b, int *isnew)
{
        if (m->n * 2 >= m->cap) map_grow(m);
        size_t i = (a ^ (b * 0x9E3779B97F4A7C15ull)) & (m->cap - 1);
        for (;; i = (i + 1) & (m->cap - 1)) {
                if (!m->idx[i]) { m->a[i] = a; m->b[i] = b; m->n++; *isnew = 1; return &m->idx[i]; }
                if (m->a[i] == a && m->b[i] == b) { *isnew = 0; return &m->idx[i]; }
        }
}

/* reference for one (stream, interface): prefix hashes of the expected sequence */
struct h_ref { int n; struct h_frame f[LOGMAX]; uint64_t a[LOGMAX + 1], b[LOGMAX + 1]; };

static void ref_finish(struct h_ref *r)
{
        r->a[0] = 0x1234; r->b[0] = 0x5678;
        for (int i = 0; i < r->n; i++) { r->a[i + 1] = r->a[i]; r->b[i + 1] = r->b[i]; frame_hash(&r->f[i], &r->a[i + 1], &r->b[i + 1]); }
}
/* one-call callback run of the whole stream */
static void one_call(const uint8_t *b, size_t n, int ts, struct h_ref *r)
{
        vbi_dvb_demux *dx = dx_new(ts, IF_FEED);
        rec_reset(1);
        run_chunk(dx, IF_FEED, b, n);
        vbi_dvb_demux_delete(dx);
        if (runaway) { r->n = -1; return; }
        if (R.nf > LOGMAX) h_die("too many frames");
        r->n = R.nlog; memcpy(r->f, R.frames, R.nlog * sizeof *r->f);
        ref_finish(r);
}
static void ref_for_iface(const struct h_ref *one, int iface, struct h_ref *r)
{
        r->n = 0;
        for (int i = 0; i < one->n; i++) {
                if (iface != IF_FEED && one->f[i].n == 0) continue;
                r->f[r->n] = one->f[i];
                if (iface != IF_FEED && r->f[r->n].n > (int) iface_lines[iface]) r->f[r->n].n = iface_lines[iface];
                r->n++;
        }
        ref_finish(r);
}

static const char *path_str(const struct h_node *nodes, uint32_t u, uint32_t lastlen)
{
        static char b[700];
        uint32_t stack[4096]; int n = 0;
        if (lastlen) stack[n++] = lastlen;
        while (u > 1 && n < 4096) { stack[n++] = nodes[u].plen; u = nodes[u].parent; }
        size_t o = 0; b[0] = 0;
        for (int i = n - 1; i >= 0 && o < sizeof b - 24; i--) o += snprintf(b + o, sizeof b - o, i == n - 1 ? "%u" : ",%u", stack[i]);
        if (o >= sizeof b - 24) snprintf(b + o, sizeof b - o, ",...");
        return b;
}

/* Re-runs one partition from scratch with a full log, for the violation text. */
static const char *diff_for_path(const struct h_stream *st, int iface, const struct h_node *nodes, uint32_t u, uint32_t lastlen, const struct h_ref *ref)
{
        static char b[900];
        uint32_t stack[4096]; int n = 0;
        if (lastlen) stack[n++] = lastlen;
        while (u > 1 && n < 4096) { stack[n++] = nodes[u].plen; u = nodes[u].parent; }
        vbi_dvb_demux *dx = dx_new(st->ts, iface);
        rec_reset(1);
        size_t pos = 0;
        for (int i = n - 1; i >= 0; i--) { run_chunk(dx, iface, st->b + pos, stack[i]); pos += stack[i]; }
        vbi_dvb_demux_delete(dx);
        int k = 0;
        while (k < R.nlog && k < ref->n && frame_eq(&R.frames[k], &ref->f[k])) k++;
        snprintf(b, sizeof b, "after %zu of %zu bytes (plain re-run without poisoning): %d frames delivered, one-call run delivers %d; first difference at frame %d: got %s want %s",
                 pos, st->n, R.nlog, ref->n, k, k < R.nlog ? frame_str(&R.frames[k]) : "(nothing)", k < ref->n ? frame_str(&ref->f[k]) : "(nothing)");
        return b;
}

struct h_best { char key[160]; uint32_t depth; char detail[1800]; };

static void best_add(struct h_best *best, int *nbest, const char *key, uint32_t depth, const char *detail)
{
        int i;
        for (i = 0; i < *nbest; i++) if (!strcmp(best[i].key, key)) break;
        if (i == *nbest) { if (*nbest >= 8) return; (*nbest)++; best[i].depth = ~0u; snprintf(best[i].key, sizeof best[i].key, "%s", key); }
        if (depth < best[i].depth) { best[i].depth = depth; snprintf(best[i].detail, sizeof best[i].detail, "%s", detail); }
}

struct h_pcase { int st, iface; };

static void partition_case(uint64_t idx, void *arg)
{
        const struct h_pcase *pc = (const struct h_pcase *) arg + idx;
        const struct h_stream *st = &ST[pc->st];
        int iface = pc->iface;
        if (mc_tier != MC_THOROUGH && !st->quick && !mc_replaying) return;
        const char *fr = st->ts ? "TS" : "PES";
        char ckey[160];
        snprintf(ckey, sizeof ckey, "partition %s %s", fr, iface_name[iface]);
        mc_case(ckey, "stream=%s n=%zu one-call reference run", st->name, st->n);

        static struct h_ref one, ref;
        one_call(st->b, st->n, st->ts, &one);
        if (one.n < 0) return;          /* runaway callback: reported by h_cb */
        ref_for_iface(&one, iface, &ref);

        /* the intact stream must come out as sent (base case of the recovery clause, and non-vacuity) */
        if (st->intact && iface == IF_FEED) {
                /* PES: exactly the sent frames.  TS: the demux starts unsynchronised, which is the
                 * situation after damage: like in (b), only the frames from the second one after
                 * that point are demanded (F0 = hit, F1 = first frame after). */
                int want = st->nsent - 1, skip = st->ts ? 2 : 0;
                int ok = one.n <= want && one.n >= want - skip;
                for (int i = skip; ok && i < want; i++) ok = frame_eq(&one.f[one.n - want + i], &st->sent[i]);
                if (!ok) {
                        char got[500]; size_t o = 0; got[0] = 0;
                        for (int j = 0; j < one.n && o < 440; j++) {
                                int m = -1; for (int q = 0; q < want; q++) if (frame_eq(&one.f[j], &st->sent[q])) m = q;
                                o += m >= 0 ? snprintf(got + o, sizeof got - o, " F%d", m) : snprintf(got + o, sizeof got - o, " other%s", frame_str(&one.f[j]));
                        }
                        char key[160]; snprintf(key, sizeof key, "intact %s stream: frames not delivered as sent", fr);
                        mc_violation(key, "stream=%s fed in one call: sent F0..F%d (+1 flushing frame), delivered:%s", st->name, want - 1, got);
                        return;
                }
                if (one.n < want || !frame_eq(&one.f[0], &st->sent[0])) mc_outcome("intact TS stream: first frame not delivered as sent (PES packet dropped while synchronising)");
        }
        /* a verdict about the tree, not about the harness: the streams are built with >= 3 deliverable frames */
        if (st->intact && ref.n < 2) {
                char key[160]; snprintf(key, sizeof key, "intact %s stream: frames not delivered as sent", fr);
                mc_violation(key, "stream=%s fed in one call: %d frames sent (+1 flushing frame), only %d delivered", st->name, st->nsent - 1, ref.n);
                return;
        }

        vbi_dvb_demux *dx = dx_new(st->ts, iface);
        size_t n = st->n;
        size_t ncap = 1024, nn = 1;                 /* node 0 is unused (index 0 = "none") */
        struct h_node *nodes = malloc(ncap * sizeof *nodes);
        uint32_t *head = calloc(n + 1, sizeof *head), *tail = calloc(n + 1, sizeof *tail), *perpos = calloc(n + 1, sizeof *perpos);
        struct h_map map; map_init(&map, 1 << 12);
        struct h_best best[8]; int nbest = 0;
        uint64_t transitions = 0, merged = 0;
        int stopped = 0;

        /* initial state */
        memset(dx->pes_buffer, POISON, sizeof dx->pes_buffer);
        memset(dx->ts_buffer, POISON, sizeof dx->ts_buffer);
        memset(dx->sliced, POISON, sizeof dx->sliced);
        rec_reset(0);
        memset(&cur_ext, 0, sizeof cur_ext);
        if (h_normalise(dx, st->ts, &cur_ext)) h_die("initial state inconsistent");
        {
                struct h_node *nd = &nodes[nn]; memset(nd, 0, sizeof *nd);
                nd->e = cur_ext; nd->nf = 0; nd->fa = R.a; nd->fb = R.b;
                h_save(dx, nd);
                uint64_t h[2]; h_state_hash(dx, &cur_ext, 0, h);
                int nw; *map_slot(&map, h[0], h[1], &nw) = nn;
                head[0] = tail[0] = nn; perpos[0] = 1; nn++;
        }

        for (size_t pos = 0; pos < n && !stopped; pos++) {
                for (uint32_t u = head[pos]; u && !stopped; u = nodes[u].next) {
                        if (mc_time_left() <= 0) { stopped = 1; break; }
                        char upath[720]; snprintf(upath, sizeof upath, "%s", path_str(nodes, u, 0));
                        for (size_t L = 1; L <= n - pos; L++) {
                                h_restore(dx, &nodes[u]);
                                mc_case(ckey, "stream=%s n=%zu at pos=%zu chunk of %zu bytes, after partition=%s", st->name, n, pos, L, upath);
                                int rc = run_chunk(dx, iface, st->b + pos, L);
                                transitions++;
                                if (runaway) { stopped = 1; break; }
                                struct h_ext e;
                                char key[160];
                                if (rc) {
                                        snprintf(key, sizeof key, rc == -1 ? "partition %s %s: coroutine makes no progress" : "partition %s %s: coroutine returns more than max_lines", fr, iface_name[iface]);
                                        char det[1800]; snprintf(det, sizeof det, "stream=%s n=%zu partition=%s", st->name, n, path_str(nodes, u, L));
                                        best_add(best, &nbest, key, nodes[u].depth + 1, det);
                                        memset(&cur_ext, 0, sizeof cur_ext); cur_ext.phi = sizeof dx->pes_buffer; cur_ext.thi = sizeof dx->ts_buffer; cur_ext.nsl = 64;
                                        continue;
                                }
                                if (h_normalise(dx, st->ts, &e)) {
                                        snprintf(key, sizeof key, "partition %s %s: demux context inconsistent (buffer pointers out of range)", fr, iface_name[iface]);
                                        char det[1800]; snprintf(det, sizeof det, "stream=%s n=%zu partition=%s", st->name, n, path_str(nodes, u, L));
                                        best_add(best, &nbest, key, nodes[u].depth + 1, det);
                                        memset(&cur_ext, 0, sizeof cur_ext); cur_ext.phi = sizeof dx->pes_buffer; cur_ext.thi = sizeof dx->ts_buffer; cur_ext.nsl = 64;
                                        continue;
                                }
                                cur_ext = e;
                                size_t np = pos + L;
                                int bad = R.nf > (uint32_t) ref.n || R.a != ref.a[R.nf] || R.b != ref.b[R.nf] || (np == n && R.nf != (uint32_t) ref.n);
                                if (bad) {
                                        snprintf(key, sizeof key, "partition %s %s: frames differ from the one-call run", fr, iface_name[iface]);
                                        char det[1800];
                                        snprintf(det, sizeof det, "stream=%s n=%zu partition=%s (+%zu bytes unfed) : %s", st->name, n, path_str(nodes, u, L), n - np,
                                                 diff_for_path(st, iface, nodes, u, L, &ref));
                                        best_add(best, &nbest, key, nodes[u].depth + 1, det);
                                        /* diff_for_path used another context; ours is untouched but the recorder is not */
                                        continue;       /* successors would only repeat it */
                                }
                                uint64_t h[2]; h_state_hash(dx, &e, np, h);
                                int nw; uint32_t *slot = map_slot(&map, h[0], h[1], &nw);
                                if (!nw) {
                                        merged++;
                                        struct h_node *v = &nodes[*slot];
                                        if (nodes[u].depth + 1 < v->depth) { v->depth = nodes[u].depth + 1; v->parent = u; v->plen = L; }
                                        continue;
                                }
                                if (nn == ncap) { ncap *= 2; nodes = realloc(nodes, ncap * sizeof *nodes); }
                                struct h_node *nd = &nodes[nn]; memset(nd, 0, sizeof *nd);
                                nd->pos = np; nd->parent = u; nd->plen = L; nd->depth = nodes[u].depth + 1;
                                nd->nf = R.nf; nd->fa = R.a; nd->fb = R.b; nd->e = e;
                                h_save(dx, nd);
                                *slot = nn;
                                if (tail[np]) nodes[tail[np]].next = nn; else head[np] = nn;
                                tail[np] = nn; perpos[np]++; nn++;
                        }
                }
        }

        for (int i = 0; i < nbest; i++) mc_violation(best[i].key, "%s", best[i].detail);

        uint32_t maxpp = 0, maxat = 0;
        for (size_t p = 0; p <= n; p++) { if (perpos[p] > maxpp) { maxpp = perpos[p]; maxat = p; } }
        mc_count("states", nn - 1);
        mc_count("transitions", transitions);
        mc_count("evaluations", transitions);
        mc_count("merged_transitions", merged);
        mc_count("terminal_states", perpos[n]);
        if (stopped) mc_not_exhaustive("partition search of %s/%s stopped at the deadline after %llu transitions", st->name, iface_name[iface], (unsigned long long) transitions);
        else if (!nbest && ref.n == 0)
                mc_outcome("partition %s %s: stream delivers no frame in any partition (sanitizer and state merging only)", fr, iface_name[iface]);
        else if (!nbest) {
                mc_distinct(mc_hash64(st->name, strlen(st->name)) * 4 + iface);
                mc_outcome("partition %s %s: every partition delivers the one-call sequence", fr, iface_name[iface]);
                if (perpos[n] > 1) mc_outcome("partition: several terminal demux states, same frames");
        }
        mc_sample("partition search %s/%s: n=%zu bytes (2^%zu partitions), %u states, %llu transitions (%llu merged), max %u states at position %u, %u terminal state(s), %d frames",
                  st->name, iface_name[iface], n, n - 1, (unsigned) (nn - 1), (unsigned long long) transitions, (unsigned long long) merged, maxpp, maxat, perpos[n], ref.n);
        if (mc_replaying) fprintf(stderr, "replay: %s/%s states=%u transitions=%llu maxperpos=%u@%u\n", st->name, iface_name[iface], (unsigned) (nn - 1), (unsigned long long) transitions, maxpp, maxat);

        for (size_t i = 1; i < nn; i++) free(nodes[i].blob);
        free(nodes); free(head); free(tail); free(perpos); map_free(&map);
        vbi_dvb_demux_delete(dx);
}

/* ======================================================================== */
/* (b) damage enumeration                                                    */

enum { K_FLIP, K_SET, K_DEL, K_INS, K_TRUNC, K_DUP, K_LEN };
struct h_kind { int type, a, b; const char *name; int packet_level; };
static const struct h_kind kinds_all[] = {
        { K_FLIP, 0, 0, "flip bit 0" }, { K_FLIP, 1, 0, "flip bit 1" }, { K_FLIP, 2, 0, "flip bit 2" }, { K_FLIP, 3, 0, "flip bit 3" },
        { K_FLIP, 4, 0, "flip bit 4" }, { K_FLIP, 5, 0, "flip bit 5" }, { K_FLIP, 6, 0, "flip bit 6" }, { K_FLIP, 7, 0, "flip bit 7" },
        { K_DUP, 0, 0, "duplicate packet", 1 },
        { K_LEN, 184, 0, "PES_packet_length +184", 1 }, { K_LEN, 368, 0, "PES_packet_length +368", 1 }, { K_LEN, -1, 0, "PES_packet_length 0xFFFF", 1 },
        { K_DEL, 1, 0, "delete 1" }, { K_TRUNC, 0, 0, "truncate packet" },
        { K_DEL, 376, 0, "delete 376" },          /* at a packet start: two TS packets lost */
        /* thorough only from here */
        { K_SET, 0x00, 0, "set 0x00" }, { K_SET, 0xFF, 0, "set 0xFF" }, { K_SET, 0x47, 0, "set 0x47" },
        { K_DEL, 2, 0, "delete 2" }, { K_DEL, 188, 0, "delete 188" },
        { K_INS, 1, 0, "insert 1 (lcg)" }, { K_INS, 3, 0, "insert 3 (lcg)" }, { K_INS, 184, 0, "insert 184 (lcg)" },
        { K_INS, 1, 1, "insert 1 (0x47)" }, { K_INS, 3, 1, "insert 3 (0x47)" }, { K_INS, 184, 1, "insert 184 (0x47)" },
        { K_INS, 1, 2, "insert 1 (0x00)" }, { K_INS, 3, 2, "insert 3 (0x00)" }, { K_INS, 184, 2, "insert 184 (0x00)" },
};
#define NKINDS_QUICK 15
#define NBASE_QUICK 4
#define NKINDS_ALL ((int)(sizeof kinds_all / sizeof *kinds_all))

static int pk_of(const struct h_stream *st, size_t p)
{
        for (int i = 0; i < st->npk; i++) if (p >= st->pk[i].lo && p < st->pk[i].hi) return i;
        return -1;
}
/* first packet of the PES packet that the (TS) packet i belongs to */
static int pes_first_pk(const struct h_stream *st, int i)
{
        while (i > 0 && st->pk[i - 1].frame == st->pk[i].frame && !(st->ts && (st->b[st->pk[i].lo + 1] & 0x40))) i--;
        return i;
}
/* offset of stream byte p inside its PES packet, -1..-4 for TS header bytes */
static long pes_offset(const struct h_stream *st, size_t p)
{
        int i = pk_of(st, p);
        if (!st->ts) return p - st->pk[i].lo;
        long x = p - st->pk[i].lo;
        if (x < 4) return -1 - x;
        return (long) (i - pes_first_pk(st, i)) * 184 + x - 4;
}
static const uint8_t *pes_byte(const struct h_stream *st, int first, long off)
{
        if (!st->ts) return st->b + st->pk[first].lo + off;
        return st->b + st->pk[first + off / 184].lo + 4 + off % 184;
}
static const char *field_class(const struct h_stream *st, size_t p)
{
        long x = pes_offset(st, p);
        if (x == -1) return "TS sync_byte";
        if (x == -2 || x == -3) return "TS flags/PID";
        if (x == -4) return "TS scrambling/adaptation/continuity";
        if (x < 3) return "PES start_code_prefix";
        if (x == 3) return "PES stream_id";
        if (x < 6) return "PES_packet_length";
        if (x < 8) return "PES flags";
        if (x == 8) return "PES_header_data_length";
        if (x < 14) return "PES PTS";
        if (x < 45) return "PES header stuffing";
        if (x == 45) return "data_identifier";
        int first = pes_first_pk(st, pk_of(st, p));
        long total = (*pes_byte(st, first, 4) << 8 | *pes_byte(st, first, 5)) + 6;
        long o = 46;
        while (o + 2 <= total) {
                unsigned id = *pes_byte(st, first, o), len = *pes_byte(st, first, o + 1);
                if (x < o + 2 + (long) len) {
                        if (id == 0xFF) return "stuffing data unit";
                        if (x == o) return "data_unit_id";
                        if (x == o + 1) return "data_unit_length";
                        if (x == o + 2) return "data unit field_parity/line_offset";
                        return "data unit payload";
                }
                o += 2 + len;
        }
        return "packet tail";
}

/* Builds the damaged stream.  lo/hi: range of ORIGINAL stream bytes touched.  Returns new length, 0 = not applicable. */
static size_t apply_damage(const struct h_stream *st, size_t p, const struct h_kind *k, uint8_t *out, size_t *lo, size_t *hi)
{
        size_t n = st->n;
        int i = pk_of(st, p);
        *lo = p; *hi = p + 1;
        switch (k->type) {
        case K_FLIP: memcpy(out, st->b, n); out[p] ^= 1u << k->a; return n;
        case K_SET:  if (st->b[p] == k->a) return 0; memcpy(out, st->b, n); out[p] = k->a; return n;
        case K_DEL: {
                size_t d = k->a; if (p + d > n) return 0;
                memcpy(out, st->b, p); memcpy(out + p, st->b + p + d, n - p - d); *hi = p + d; return n - d;
        }
        case K_INS: {
                size_t d = k->a; uint32_t s = 0xBAD + p * 7 + d;
                memcpy(out, st->b, p);
                for (size_t j = 0; j < d; j++) out[p + j] = k->b == 0 ? lcg(&s) : k->b == 1 ? 0x47 : 0x00;
                memcpy(out + p + d, st->b + p, n - p); return n + d;
        }
        case K_TRUNC: {
                size_t e = st->pk[i].hi; if (p == st->pk[i].lo) return 0;
                memcpy(out, st->b, p); memcpy(out + p, st->b + e, n - e); *hi = e; return n - (e - p);
        }
        case K_DUP: {
                if (p != st->pk[i].lo) return 0;
                size_t e = st->pk[i].hi, d = e - p;
                memcpy(out, st->b, e); memcpy(out + e, st->b + p, d); memcpy(out + e + d, st->b + e, n - e); *hi = e; return n + d;
        }
        case K_LEN: {
                if (p != st->pk[i].lo || pes_first_pk(st, i) != i) return 0;
                size_t q = p + (st->ts ? 4 : 0) + 4;
                unsigned len = st->b[q] << 8 | st->b[q + 1];
                len = k->a < 0 ? 0xFFFF : len + k->a;
                memcpy(out, st->b, n); out[q] = len >> 8; out[q + 1] = len; *lo = q; *hi = q + 2; return n;
        }
        }
        return 0;
}

/* (a) on mutated streams: one damaged copy of `base' per (field class met in its second packet, kind) */
static int first_variant;
static void build_variants(int base)
{
        static const char *const vkn[] = { "flip bit 0", "delete 1", "insert 3 (lcg)", "truncate packet" };
        int vk[4];
        for (int v = 0; v < 4; v++) { vk[v] = -1; for (int k = 0; k < NKINDS_ALL; k++) if (!strcmp(kinds_all[k].name, vkn[v])) vk[v] = k; if (vk[v] < 0) h_die("kind %s", vkn[v]); }
        const struct h_stream *st = &ST[base];
        const char *seen[32]; int nseen = 0;
        uint8_t *buf = malloc(st->n + 512);
        for (size_t p = st->pk[1].lo; p < st->pk[1].hi; p++) {
                const char *cls = field_class(st, p);
                int k; for (k = 0; k < nseen; k++) if (seen[k] == cls) break;
                if (k < nseen || nseen >= 32) continue;
                seen[nseen++] = cls;
                for (unsigned v = 0; v < 4; v++) {
                        size_t lo, hi, dn = apply_damage(st, p, &kinds_all[vk[v]], buf, &lo, &hi);
                        if (!dn) continue;
                        if (NST >= MAXSTREAMS) h_die("too many streams");
                        struct h_stream *nv = &ST[NST++];
                        memset(nv, 0, sizeof *nv);
                        snprintf(nv->name, sizeof nv->name, "%s~%s@%zu", st->name, kinds_all[vk[v]].name, p);
                        nv->ts = st->ts; nv->intact = 0; nv->n = dn; nv->b = malloc(dn); memcpy(nv->b, buf, dn);
                }
        }
        free(buf);
}

struct h_run { int n; uint64_t a, b; struct h_frame f[LOGMAX]; };

/* TS only: adds `shift' to the continuity_counter of every packet of the VBI PID.  The demultiplexer compares
 * counters of successive packets only, so what it delivers must not depend on the absolute values.
 * Returns 0 when the buffer is not a sequence of whole transport packets. */
static int shift_cc(uint8_t *b, size_t n, unsigned shift)
{
        if (n % 188) return 0;
        for (size_t q = 0; q < n; q += 188) if (b[q] != 0x47) return 0;
        for (size_t q = 0; q < n; q += 188)
                if ((((b[q + 1] & 0x1F) << 8) | b[q + 2]) == H_PID) b[q + 3] = (b[q + 3] & 0xF0) | ((b[q + 3] + shift) & 0x0F);
        return 1;
}

/* Class of a damaged stream, from the bytes alone (d/dn = damaged stream, [lo,hi) = original bytes touched,
 * fb = last frame touched).  PES: somewhere between the start of the damaged packet and the packet of frame
 * fb+2 there is a start code 00 00 01 + stream_id >= 0xBC which is not an intact packet's and whose
 * PES_packet_length reaches beyond the start of that packet.  TS: stepping 188 bytes at a time from the start of
 * the damaged TS packet one (1) arrives at the start of an intact packet: grid intact; (2) meets a 0x47 that is
 * not the start of an intact packet: phantom sync_byte; (3) meets another byte at position gl: grid broken - and
 * then either the first intact packet at or after gl starts (mod 188) within 9 bytes of gl, i.e. lies entirely in
 * a 197-byte sync search window, and is a complete PES packet, or not. */
static const char *input_class(const struct h_stream *st, const uint8_t *d, size_t dn, size_t lo, size_t hi, int fb)
{
        long shift = (long) dn - (long) st->n;
        int i0 = pk_of(st, lo);
        if (!st->ts) {
                size_t s2 = 0; int have = 0;
                for (int i = 0; i < st->npk; i++) if (st->pk[i].frame == fb + 2) { s2 = st->pk[i].lo + shift; have = 1; break; }
                if (!have) return "";
                for (size_t q = st->pk[i0].lo; q + 6 <= dn && q < s2; q++) {
                        if (d[q] || d[q + 1] || d[q + 2] != 1 || d[q + 3] < 0xBC) continue;
                        int intact = 0;
                        for (int i = 0; i < st->npk; i++) if (st->pk[i].lo >= hi && st->pk[i].lo + shift == (long) q) intact = 1;
                        if (intact) continue;
                        unsigned len = d[q + 4] << 8 | d[q + 5];
                        if (q + 6 + len > s2)
                                return d[q + 3] == 0xBD && len >= 178 && (len + 6) % 184 == 0
                                        ? "; private_stream_1 start code with a wrong but conforming PES_packet_length (N*184-6) spans intact packets"
                                        : "; start code with a wrong PES_packet_length (not N*184-6, or not private_stream_1) spans intact packets";
                }
                return "";
        }
        /* TS: walk the 188-byte grid that starts at the damaged packet's sync_byte. */
        size_t gl = 0; int lost = 0;
        for (size_t g = st->pk[i0].lo; g < dn; g += 188) {
                int intact = 0;
                for (int i = 0; i < st->npk; i++) if (st->pk[i].lo >= hi && st->pk[i].lo + shift == (long) g) intact = 1;
                if (intact) return "; the 188-byte TS packet grid stays intact";
                if (d[g] != 0x47) { gl = g; lost = 1; break; }        /* an in-sync demultiplexer notices here */
                if (g > st->pk[i0].lo) return "; payload byte 0x47 188 bytes after the damaged packet's sync_byte";
        }
        if (!lost) return "; the 188-byte TS packet grid stays intact";
        /* The sync_byte search looks at 197 bytes from gl on, then 188 further each time.  First intact packet
         * at or after gl: does it lie entirely in such a window, and is it a whole PES packet? */
        for (int i = 0; i < st->npk; i++) {
                if (st->pk[i].lo < hi) continue;
                size_t sp = st->pk[i].lo + shift;
                if (sp < gl) continue;
                int first = st->b[st->pk[i].lo + 1] & 0x40;
                int last = i + 1 == st->npk || st->pk[i + 1].frame != st->pk[i].frame || (st->b[st->pk[i + 1].lo + 1] & 0x40);
                if ((sp - gl) % 188 <= 9 && first && last)
                        return "; grid broken, next intact packet is a whole PES packet inside the sync search window";
                break;
        }
        return "; the damage breaks the 188-byte TS packet grid";
}

static void run_stream(const struct h_stream *st, const uint8_t *d, size_t n, int iface, size_t chunk, struct h_run *out)
{
        vbi_dvb_demux *dx = dx_new(st->ts, iface);
        rec_reset(1);
        int rc = 0;
        if (chunk == 0) rc = run_chunk(dx, iface, d, n);
        else for (size_t p = 0; p < n && !rc; p += chunk) rc = run_chunk(dx, iface, d + p, n - p < chunk ? n - p : chunk);
        vbi_dvb_demux_delete(dx);
        out->n = (rc || runaway) ? -1 : (R.nf > LOGMAX ? LOGMAX : (int) R.nf);
        out->a = R.a; out->b = R.b;
        memcpy(out->f, R.frames, R.nlog * sizeof *out->f);
}

#define DMG_BLOCK 8

static void damage_case(uint64_t idx, void *arg)
{
        /* idx -> (base stream, block of DMG_BLOCK positions) */
        const int *nblk = arg;
        int only_kind = idx % NKINDS_ALL; idx /= NKINDS_ALL;
        int s = 0; while (idx >= (uint64_t) nblk[s]) { idx -= nblk[s]; s++; }
        int thorough = mc_tier == MC_THOROUGH || mc_replaying;
        if (!thorough && (s >= NBASE_QUICK || only_kind >= NKINDS_QUICK)) return;
        const struct h_stream *st = &BASE[s];
        const char *fr = st->ts ? "TS" : "PES";
        const char *frs = !st->ts ? "PES" : st->pk[1].frame == st->pk[0].frame ? "TS, 2 TS packets per PES packet" : "TS, 1 TS packet per PES packet";
        /* positions: all bytes of the packets of frames 0..5 */
        size_t plimit = 0; for (int i = 0; i < st->npk; i++) if (st->pk[i].frame <= 5) plimit = st->pk[i].hi;
        static const size_t chunks_q[] = { 0, 1 }, chunks_t[] = { 0, 1, 2, 7, 47, 188, 189 };
        const size_t *chunks = thorough ? chunks_t : chunks_q;
        int nchunks = thorough ? 7 : 2;
        uint8_t *buf = malloc(st->n + 512);
        static struct h_run whole, other;
        uint64_t evals = 0, shifts = 0;
        int nlast = st->nsent - 2;        /* index of the last deliverable frame */
        static struct h_run intact; int intact_idx[LOGMAX];
        mc_case("damage base stream", "stream=%s undamaged", st->name);
        run_stream(st, st->b, st->n, IF_FEED, 0, &intact);
        for (int j = 0; j < intact.n; j++) {
                intact_idx[j] = -1;
                for (int q = 0; q <= nlast; q++) if (frame_eq(&intact.f[j], &st->sent[q])) intact_idx[j] = q;
                if (intact_idx[j] < 0 || (j && intact_idx[j] != intact_idx[j - 1] + 1)) {
                        char key[160]; snprintf(key, sizeof key, "intact %s stream: frames not delivered as sent", fr);
                        mc_violation(key, "base stream %s of the damage enumeration, undamaged, fed in one call: delivered frame %d is %s", st->name, j, intact_idx[j] < 0 ? "not a sent frame" : "out of order");
                        free(buf); return;
                }
        }
        if (intact.n < nlast || intact.n < 1 || intact_idx[intact.n - 1] != nlast) {
                char key[160]; snprintf(key, sizeof key, "intact %s stream: frames not delivered as sent", fr);
                mc_violation(key, "base stream %s of the damage enumeration, undamaged, fed in one call: %d frames delivered, F0..F%d sent (+1 flushing frame)", st->name, intact.n, nlast);
                free(buf); return;
        }
        uint8_t *sbuf = malloc(st->n + 512);
        if (st->ts && idx == 0 && only_kind == 0) for (unsigned sh = 1; sh < 16; sh++) {
                memcpy(sbuf, st->b, st->n);
                if (!shift_cc(sbuf, st->n, sh)) h_die("base stream %s is not a sequence of transport packets", st->name);
                mc_case("damage base stream", "stream=%s undamaged, continuity counters +%u", st->name, sh);
                run_stream(st, sbuf, st->n, IF_FEED, 0, &other);
                shifts++;
                if (other.n != intact.n || other.a != intact.a || other.b != intact.b)
                        mc_violation("undamaged TS: delivered frames depend on the absolute continuity_counter values",
                                     "stream=%s all counters of the PID +%u: %d frames delivered, %d with the counters starting at 0", st->name, sh, other.n, intact.n);
        }

        for (size_t p = idx * DMG_BLOCK; p < (idx + 1) * DMG_BLOCK && p < plimit; p++) {
                for (int ki = only_kind; ki == only_kind; ki++) {
                        const struct h_kind *k = &kinds_all[ki];
                        size_t lo, hi;
                        size_t dn = apply_damage(st, p, k, buf, &lo, &hi);
                        if (!dn) continue;
                        const char *cls = field_class(st, lo);
                        char ckey[160]; snprintf(ckey, sizeof ckey, "damage %s at %s", fr, cls);
                        int pi = pk_of(st, p);
                        int fa = st->pk[pk_of(st, lo)].frame, fb = st->pk[pk_of(st, hi - 1)].frame;
                        char where[200];
                        snprintf(where, sizeof where, "stream=%s kind=[%s] pos=%zu (byte %zu of packet %d, frame %d; original bytes %zu..%zu touched, frames %d..%d)",
                                 st->name, k->name, p, p - st->pk[pi].lo, pi, st->pk[pi].frame, lo, hi - 1, fa, fb);

                        mc_case(ckey, "%s fed whole", where);
                        run_stream(st, buf, dn, IF_FEED, 0, &whole);
                        evals++;

                        /* the property's recovery clause */
                        char key[200];
                        int need0 = fb + 2, nneed = nlast - need0 + 1;
                        if (nneed > 0) {
                                int ok = whole.n >= nneed;
                                for (int j = 0; ok && j < nneed; j++) ok = frame_eq(&whole.f[whole.n - nneed + j], &st->sent[need0 + j]);
                                if (!ok) {
                                        /* which of the required frames is the first one missing */
                                        char got[700]; size_t o = 0; got[0] = 0;
                                        for (int j = 0; j < whole.n && o < 600; j++) {
                                                int m = -1; for (int q = 0; q <= nlast; q++) if (frame_eq(&whole.f[j], &st->sent[q])) m = q;
                                                o += m >= 0 ? snprintf(got + o, sizeof got - o, " F%d", m) : snprintf(got + o, sizeof got - o, " other(%d lines)", whole.f[j].n);
                                        }
                                        /* Key = symptom + class of the damaged INPUT (not the field that was hit: one
                                         * cause shows up at many fields).  Symptom: the first demanded frame that is not
                                         * delivered as sent is either absent or comes out with another PTS / foreign lines. */
                                        int r = need0; while (r <= nlast) { int m = 0; for (int j = 0; j < whole.n; j++) if (frame_eq(&whole.f[j], &st->sent[r])) m = 1; if (!m) break; r++; }
                                        int altered = 0;
                                        if (r <= nlast) for (int j = 0; j < whole.n && !altered; j++) {
                                                int hit = 0;
                                                for (int a = 0; a < st->sent[r].n; a++) for (int b = 0; b < whole.f[j].n; b++)
                                                        if (whole.f[j].l[b].id == st->sent[r].l[a].id && whole.f[j].l[b].line == st->sent[r].l[a].line
                                                            && !memcmp(whole.f[j].l[b].data, st->sent[r].l[a].data, st->sent[r].l[a].len)) hit++;
                                                if (hit == st->sent[r].n) altered = 1;
                                        }
                                        const char *sym = r > nlast ? "out of place" : altered ? "altered (PTS or lines)" : "missing";
                                        snprintf(key, sizeof key, "damage %s: frame after the first one following the damage %s%s", frs, sym,
                                                 input_class(st, buf, dn, lo, hi, fb));
                                        mc_violation(key, "%s at %s: sent F0..F%d (+1 flushing frame), damage touches F%d..F%d, so F%d..F%d must be delivered; delivered:%s",
                                                     where, cls, nlast, fa, fb, need0, nlast, got);
                                        if (mc_replaying) {
                                                for (int j = 0; j < whole.n; j++) fprintf(stderr, "replay:   delivered %d: %s\n", j, frame_str(&whole.f[j]));
                                                for (int q = need0; q <= nlast; q++) fprintf(stderr, "replay:   demanded F%d: %s\n", q, frame_str(&st->sent[q]));
                                        }
                                }
                        }
                        /* frames the undamaged run has flushed before the damaged bytes arrive */
                        {
                                int npre = 0; while (npre < intact.n && intact_idx[npre] <= fa - 2) npre++;
                                int ok = whole.n >= npre;
                                for (int j = 0; ok && j < npre; j++) ok = frame_eq(&whole.f[j], &intact.f[j]);
                                if (!ok) {
                                        snprintf(key, sizeof key, "damage %s at %s: frames completed before the damage are not delivered as sent", fr, cls);
                                        mc_violation(key, "%s: the %d frames up to F%d must come first, %d frames delivered", where, npre, fa - 2, whole.n);
                                }
                        }
                        /* outcome class, for the evidence */
                        {
                                char oc[96];
                                int pre = -1, post = -1, dmg = 1;
                                for (int q = fa - 1; q <= fb + 1; q++) {
                                        if (q < 0 || q > nlast) continue;
                                        int m = 0; for (int j = 0; j < whole.n; j++) if (frame_eq(&whole.f[j], &st->sent[q])) m = 1;
                                        if (q < fa) pre = m; else if (q > fb) post = m; else dmg &= m;
                                }
                                snprintf(oc, sizeof oc, "%s damage: frame before %s, damaged %s, frame after %s; %s", fr,
                                         pre < 0 ? "n/a" : pre ? "ok" : "lost", dmg ? "ok" : "lost/altered", post < 0 ? "n/a" : post ? "ok" : "lost",
                                         whole.n == nlast + 1 ? "count kept" : whole.n > nlast + 1 ? "extra frames" : "fewer frames");
                                mc_outcome("%s", oc);
                        }
                        /* TS, whole packets lost, repeated or relabelled: same damage with every absolute counter value */
                        if (st->ts && p == st->pk[pi].lo && (k->packet_level || (k->type == K_DEL && k->a == 188))) for (unsigned sh = 1; sh < 16; sh++) {
                                memcpy(sbuf, buf, dn);
                                if (!shift_cc(sbuf, dn, sh)) break;
                                mc_case(ckey, "%s fed whole, continuity counters +%u", where, sh);
                                run_stream(st, sbuf, dn, IF_FEED, 0, &other);
                                shifts++;
                                if (other.n != whole.n || other.a != whole.a || other.b != whole.b) {
                                        snprintf(key, sizeof key, "damage %s [%s]: delivered frames depend on the absolute continuity_counter values", fr, k->name);
                                        int q = 0; while (q < other.n && q < whole.n && frame_eq(&other.f[q], &whole.f[q])) q++;
                                        mc_violation(key, "%s: %d frames delivered, %d when all counters of the PID are shifted by %u (the packet at the damage then carries counter %u); first difference at frame %d: %s vs %s",
                                                     where, whole.n, other.n, sh, (st->b[p + 3] + sh) & 15, q,
                                                     q < whole.n ? frame_str(&whole.f[q]) : "(nothing)", q < other.n ? frame_str(&other.f[q]) : "(nothing)");
                                        break;
                                }
                        }
                        /* same stream, other partitions and the coroutine */
                        for (int c = 1; c < nchunks; c++) {
                                mc_case(ckey, "%s fed in %zu byte buffers", where, chunks[c]);
                                run_stream(st, buf, dn, IF_FEED, chunks[c], &other);
                                evals++;
                                if (other.n != whole.n || other.a != whole.a || other.b != whole.b) {
                                        snprintf(key, sizeof key, "damage %s at %s: output depends on the partition", fr, cls);
                                        int q = 0; while (q < other.n && q < whole.n && frame_eq(&other.f[q], &whole.f[q])) q++;
                                        mc_violation(key, "%s: one call delivers %d frames, %zu-byte buffers deliver %d; first difference at frame %d: %s vs %s", where, whole.n, chunks[c], other.n, q,
                                                     q < whole.n ? frame_str(&whole.f[q]) : "(nothing)", q < other.n ? frame_str(&other.f[q]) : "(nothing)");
                                }
                        }
                        for (int c = 0; c < 2; c++) {
                                mc_case(ckey, "%s coroutine, %s", where, c ? "1 byte buffers" : "whole");
                                run_stream(st, buf, dn, IF_COR64, c, &other);
                                evals++;
                                int ok = other.n >= 0;
                                int j = 0;
                                for (int q = 0; ok && q < whole.n; q++) {
                                        if (whole.f[q].n == 0) continue;
                                        ok = j < other.n && frame_eq(&whole.f[q], &other.f[j]); j++;
                                }
                                if (ok && j != other.n) ok = 0;
                                if (!ok) {
                                        snprintf(key, sizeof key, other.n < 0 ? "damage %s at %s: coroutine makes no progress" : "damage %s at %s: coroutine delivers other frames than the callback interface", fr, cls);
                                        mc_violation(key, "%s (%s): callback %d frames, coroutine %d", where, c ? "1 byte buffers" : "whole", whole.n, other.n);
                                }
                        }
                        mc_distinct(mc_hash64(buf, dn) ^ (uint64_t) s);
                }
        }
        mc_count("evaluations", evals);
        mc_count("damaged_streams", evals / (nchunks + 2));
        if (shifts) { mc_count("evaluations", shifts); mc_count("continuity_counter_shift_runs", shifts); }
        free(buf); free(sbuf);
}

/* ======================================================================== */

int main(int argc, char **argv)
{
        mc_init(argc, argv, "C07");
        mc_set_budget(300, 1200);
        mc_meta("level", "model_checking");
        mc_meta("technique", "explicit-state search with state merging over all partitions of a stream into feed/coroutine calls on the real demultiplexer (snapshot of the flat context, dead bytes poisoned, canonical hashing); fault enumeration at every byte for the recovery clause");
        mc_meta("rule", "(a) node = (stream position, canonical demux context, count+hash of frames delivered); one transition per node and chunk length 1..n-pos, chunk in an exactly sized heap block; a (stream, interface) search is non-trivial when its one-call run delivers >= 2 frames and is counted as distinct when all partitions agree. (b) one case per (base stream, byte position, damage kind) that changes the stream, each run whole / in small buffers / through the coroutine; distinct = distinct damaged byte streams; TS packet-level damage (repeated packet, lost packet, PES_packet_length) and the undamaged TS base streams are re-run with the continuity counters of the PID shifted by 1..15 and must deliver the same frames");
        mc_meta("assume", "streams are produced by the library's own multiplexer (vbi_dvb_mux_feed), Teletext/VPS/WSS lines with known line numbers only; CC-625 and line 0 are excluded (mux/demux line mismatch and frame separation of unknown lines belong to C06)");
        mc_meta("assume", "a frame is delivered when the first data unit of the next frame is seen, so every stream ends with one extra frame that only flushes");
        mc_meta("assume", "raw VBI (monochrome samples) output is not requested: vbi_dvb_demux has no public way to ask for it");

        build_streams();
        for (int i = 0; i < NST; i++) if (ST[i].n == 0) h_die("empty stream");

        /* (a)  The case list is the same in both tiers (a replay file does not record the tier);
         * the quick tier skips the cases that are not selected. */
        static struct h_pcase pcs[MAXSTREAMS * NIFACE]; int npc = 0;
        static int sel[MAXSTREAMS]; int nsel = 0, nvar = 0, nrun = 0;
        first_variant = NST;
        for (int i = 0; i < first_variant; i++) if (!strcmp(ST[i].name, "pes-3x1") || !strcmp(ST[i].name, "ts-3x1")) build_variants(i);
        for (int i = 0; i < NST; i++) {
                const char *nm = ST[i].name;
                sel[nsel++] = i;
                ST[i].quick = i < first_variant && (strstr(nm, "-3x1") || strstr(nm, "-foreign") || strstr(nm, "-garbage") || strstr(nm, "-var") || strstr(nm, "-private") || strstr(nm, "-short-units") || strstr(nm, "-line0") || strstr(nm, "-scrambled"));
                if (mc_tier == MC_THOROUGH || ST[i].quick) { nrun++; if (i >= first_variant) nvar++; }
        }
        /* longest searches first */
        for (int i = 0; i < nsel; i++) for (int j = i + 1; j < nsel; j++) if (ST[sel[j]].n > ST[sel[i]].n) { int t = sel[i]; sel[i] = sel[j]; sel[j] = t; }
        for (int i = 0; i < nsel; i++) for (int f = 0; f < NIFACE; f++) {
                if (sel[i] >= first_variant && f == IF_COR1) continue;       /* mutated copies: feed and cor64 */
                pcs[npc].st = sel[i]; pcs[npc].iface = f; npc++;
        }
        {
                char b[1200]; size_t o = 0;
                for (int i = 0; i < nsel && o < 1100; i++) if (sel[i] < first_variant && (mc_tier == MC_THOROUGH || ST[sel[i]].quick)) o += snprintf(b + o, sizeof b - o, "%s%s(%zu)", o ? " " : "", ST[sel[i]].name, ST[sel[i]].n);
                int nb = mc_tier == MC_THOROUGH ? NBASE : NBASE_QUICK;
                mc_meta("bound", "(a) all 2^(n-1) partitions of %d streams [%s bytes] x {feed, cor max_lines=64, cor max_lines=1}%s; (b) %d base streams of 9 frames, every byte of frames 0..5 x %d damage kinds x {whole, %s buffers, coroutine whole, coroutine 1-byte}",
                        nrun - nvar, b, nvar ? " + mutated copies of pes-3x1/ts-3x1 (one per field class of the second packet x {flip bit 0, delete 1, insert 3, truncate}) x {feed, cor 64}" : "",
                        nb, mc_tier == MC_THOROUGH ? NKINDS_ALL : NKINDS_QUICK, mc_tier == MC_THOROUGH ? "1/2/7/47/188/189-byte" : "1-byte");
                if (nvar) mc_note("(a) includes %d mutated copies", nvar);
        }
        mc_pool("partition", (uint64_t) npc, partition_case, pcs, mc_tier == MC_THOROUGH ? 400 : 150);

        /* (b) */
        static int nblk[5]; uint64_t total = 0;
        for (int s = 0; s < NBASE; s++) {
                size_t plimit = 0; for (int i = 0; i < BASE[s].npk; i++) if (BASE[s].pk[i].frame <= 5) plimit = BASE[s].pk[i].hi;
                nblk[s] = (plimit + DMG_BLOCK - 1) / DMG_BLOCK; total += nblk[s];
        }
        mc_pool("damage", total * NKINDS_ALL, damage_case, nblk, 40);
        return mc_finish();
}
