/* C03 fault space executed against the ASan-only library variant (memory oracle; see C03.c) */
#define C03_ASAN_PASS 1
#include "C03.c"
