# C03: differential / functional oracle on data values at high volume -> uninstrumented `fast'
# library (0.2 ms per fresh-decoder run; 0.8 ms under ASan).  The same fault space is executed a
# second time under AddressSanitizer by bin/C03_asan (phase "asan-pass"), built against the
# ASan-only variant `asanx': the asan variant's UBSan `shift` check aborts on `-1 << 4` in
# vbi_unham16p() (src/hamm.h:210) for every uncorrectable second byte of a Hamming 8/4 pair -
# exactly the inputs this check must enumerate; that undefined behaviour belongs to C01.
VARIANT_C03 := fast
HDEPS_C03 := $(B)/bin/C03_asan harness/C03.mk

$(B)/bin/C03_asan: harness/C03_asan.c harness/C03.c harness/C03.mk engine/mc.h $(B)/asanx/mc.o $(B)/asanx/libzvbi.a
	@mkdir -p $(@D)
	$(CC_asanx) $(CFLAGS_asanx) -w $(CPPFLAGS_COMMON) -I$(V)/engine -I$(V)/harness harness/C03_asan.c \
	  $(B)/asanx/mc.o $(B)/asanx/libzvbi.a $(LDLIBS) -o $@
