/* C06_parse.h - independent conformance parser for the output of the DVB VBI
 * multiplexer.
 *
 * Written from the standards, not from src/dvb_mux.c:
 *   ISO/IEC 13818-1  2.4.3.2/2.4.3.3 (transport packet), 2.4.3.6/2.4.3.7 (PES packet)
 *   EN 300 472       4.1 (TS restrictions), 4.2 (PES header: 45 bytes, PTS, N*184-6), 4.3/4.4 (data field)
 *   EN 301 775       4.3 (PES), 4.4 (data units, table 1), 4.5 Teletext, 4.6 VPS, 4.7 WSS,
 *                    4.8 Closed Captioning, 4.9 monochrome 4:2:2 samples
 * It uses no constant, table or function of the library.
 *
 * The parser reports the first rule that is broken through p_fail() and
 * returns -1; the rule text is the violation key.
 */
#ifndef C06_PARSE_H
#define C06_PARSE_H

#include <stdint.h>
#include <stddef.h>
#include <string.h>
#include <stdio.h>
#include <stdarg.h>

struct h_cfg {
        unsigned did;            /* data_identifier */
        unsigned minsz, maxsz;   /* PES packet size bounds (multiples of 184) */
        int ts;                  /* 0 PES, 1 TS */
        unsigned pid;
};

enum { PK_NONE, PK_TTX, PK_VPS, PK_WSS, PK_CC, PK_RAW, PK_OTHER };

struct p_line {
        uint8_t  kind, du_id, field, open;     /* field: 0 first, 1 second; open: raw line waiting for more segments */
        uint16_t line;                         /* frame line (625 line numbering), 0 = undefined */
        uint8_t  data[42];                     /* payload in libzvbi sliced bit order */
        uint16_t fpp, npix; int rawslot;       /* raw: first pixel position, pixels so far, index into p_rawpix */
};
#define P_MAXL 160
#define P_MAXRAW 8
struct p_frame {                               /* everything one multiplexer call emitted */
        int n; struct p_line l[P_MAXL];
        int npes; int nraw;
        unsigned pes_size[8];
        int n_stuffing_du;
};
static uint8_t p_rawpix[P_MAXRAW][720];

struct p_state { int cc_next; };               /* continuity counter expected next, -1 = unknown */

/* supplied by the harness: records a violation (or, in self-test mode, remembers the key) */
static void p_fail(const char *key, const char *fmt, ...) __attribute__((format(printf, 2, 3)));

#define PFAIL(key, ...) do { p_fail(key, __VA_ARGS__); return -1; } while (0)

/* Set by the harness before a frame's output is parsed: the class of the INPUT frame with respect to the
 * field order of its units (see field_order_class() in C06_run.h).  It becomes the suffix of the field order
 * key, so that the known cause and any other cause of the same symptom have different keys. */
static const char *p_field_order_class = "[input class not set]";

static unsigned p_rev8(unsigned c)
{
        unsigned r = 0;
        for (int i = 0; i < 8; i++) if (c & (1u << i)) r |= 0x80u >> i;
        return r;
}

static int p_all_ff(const uint8_t *p, size_t n) { for (size_t i = 0; i < n; i++) if (p[i] != 0xFF) return 0; return 1; }

/* 33 bit time stamp, ISO 13818-1 2.4.3.7: 4 bit prefix, 3 bits, marker, 15 bits, marker, 15 bits, marker */
static int p_timestamp(const uint8_t *p, unsigned prefix, int64_t *ts, const char *what)
{
        if ((p[0] >> 4) != prefix) PFAIL("conformance: PTS/DTS prefix bits wrong", "%s: byte %02x, want prefix %x", what, p[0], prefix);
        if (!(p[0] & 1) || !(p[2] & 1) || !(p[4] & 1)) PFAIL("conformance: PTS/DTS marker_bit not 1", "%s: %02x %02x %02x %02x %02x", what, p[0], p[1], p[2], p[3], p[4]);
        *ts = ((int64_t) ((p[0] >> 1) & 7) << 30) | ((int64_t) p[1] << 22) | ((int64_t) (p[2] >> 1) << 15) | ((int64_t) p[3] << 7) | (p[4] >> 1);
        return 0;
}

/* One PES packet at b (n bytes available).  Appends its lines to pf.  *used = packet size. */
static int p_data_units(int fixed, const uint8_t *b, size_t q, size_t total, struct p_frame *pf);

static int p_pes_packet(const struct h_cfg *c, const uint8_t *b, size_t n, size_t *used, int64_t want_pts, struct p_frame *pf)
{
        if (n < 6) PFAIL("conformance: PES packet shorter than its 6 byte start", "%zu bytes", n);
        if (b[0] != 0 || b[1] != 0 || b[2] != 1) PFAIL("conformance: packet_start_code_prefix not 000001", "%02x%02x%02x", b[0], b[1], b[2]);
        if (b[3] != 0xBD) PFAIL("conformance: stream_id not private_stream_1 (0xBD)", "stream_id=%02x", b[3]);
        size_t total = (((size_t) b[4] << 8) | b[5]) + 6;
        if (total % 184) PFAIL("conformance: PES packet size not a multiple of 184", "PES_packet_length=%zu total=%zu", total - 6, total);
        if (total < c->minsz || total > c->maxsz) PFAIL("conformance: PES packet size outside the configured bounds", "total=%zu bounds=[%u,%u]", total, c->minsz, c->maxsz);
        if (total > n) PFAIL("conformance: PES_packet_length exceeds the emitted bytes", "total=%zu emitted=%zu", total, n);
        /* total >= 184: the fixed part is there */
        if ((b[6] & 0xC0) != 0x80) PFAIL("conformance: PES header '10' marker wrong", "byte6=%02x", b[6]);
        if (b[6] & 0x30) PFAIL("conformance: PES_scrambling_control not 00", "byte6=%02x", b[6]);
        if (!(b[6] & 0x04)) PFAIL("conformance: data_alignment_indicator not set", "byte6=%02x", b[6]);
        unsigned fl = b[7];
        if ((fl >> 6) < 2) PFAIL("conformance: PTS not present (PTS_DTS_flags)", "byte7=%02x", fl);
        if (b[8] != 0x24) PFAIL("conformance: PES_header_data_length not 0x24", "%02x", b[8]);
        size_t q = 9, hend = 9 + 0x24;
        int64_t pts, dts;
        if (p_timestamp(b + q, (fl >> 6) == 2 ? 2 : 3, &pts, "PTS")) return -1;
        q += 5;
        if ((fl >> 6) == 3) { if (p_timestamp(b + q, 1, &dts, "DTS")) return -1; q += 5; }
        if (fl & 0x20) q += 6;                   /* ESCR */
        if (fl & 0x10) q += 3;                   /* ES_rate */
        if (fl & 0x08) q += 1;                   /* DSM_trick_mode */
        if (fl & 0x04) q += 1;                   /* additional_copy_info */
        if (fl & 0x02) q += 2;                   /* previous_PES_packet_CRC */
        if ((fl & 0x01) && q < hend) {           /* PES_extension */
                unsigned x = b[q++];
                if (x & 0x80) q += 16;
                if ((x & 0x40) && q < hend) q += 1 + b[q];
                if (x & 0x20) q += 2;
                if (x & 0x10) q += 2;
                if ((x & 0x01) && q < hend) q += 1 + (b[q] & 0x7F);
        }
        if (q > hend) PFAIL("conformance: optional PES header fields exceed PES_header_data_length", "need %zu have %zu", q - 9, hend - 9);
        if (hend - q > 32) PFAIL("conformance: more than 32 stuffing bytes in the PES header", "%zu", hend - q);
        if (!p_all_ff(b + q, hend - q)) PFAIL("conformance: PES header stuffing_byte not 0xFF", "header bytes %zu..%zu", q, hend - 1);
        if (pts != (want_pts & 0x1FFFFFFFFll)) PFAIL("content: PTS in the PES header differs from the PTS passed in (mod 2^33)", "got %llx want %llx (passed %llx)", (unsigned long long) pts, (unsigned long long) (want_pts & 0x1FFFFFFFFll), (unsigned long long) want_pts);
        if (b[45] != c->did) PFAIL("content: data_identifier differs from the configured one", "got %02x want %02x", b[45], c->did);
        int fixed = c->did >= 0x10 && c->did <= 0x1F;
        if (p_data_units(fixed, b, 46, total, pf)) return -1;
        if (pf->npes < 8) pf->pes_size[pf->npes] = total;
        pf->npes++;
        *used = total;
        return 0;
}

/* data units b[q..total), EN 301 775 table 1; `total' is the end of the PES packet (or of the caller's buffer
 * when the low-level functions are driven directly) */
static int p_data_units(int fixed, const uint8_t *b, size_t q, size_t total, struct p_frame *pf)
{
        unsigned last_line = 0; int cur_field = 0;
        {
        while (q < total) {
                if (total - q < 2) PFAIL("conformance: lone byte at the end of the PES packet (no room for data_unit_id + data_unit_length)", "offset %zu of %zu, byte %02x", q, total, b[q]);
                unsigned id = b[q], len = b[q + 1];
                if (q + 2 + len > total) PFAIL("conformance: data unit crosses the end of the PES packet", "offset %zu id=%02x length=%u total=%zu", q, id, len, total);
                if (fixed && len != 0x2C) PFAIL("conformance: data_unit_length not 0x2C although data_identifier is 0x10..0x1F", "offset %zu id=%02x length=%u", q, id, len);
                const uint8_t *d = b + q + 2;
                struct p_line *open = (pf->n > 0 && pf->l[pf->n - 1].open) ? &pf->l[pf->n - 1] : NULL;
                size_t body = 0; int sliced_kind = 0;
                switch (id) {
                case 0xFF:
                        if (!p_all_ff(d, len)) PFAIL("conformance: stuffing data unit contains a byte other than 0xFF", "offset %zu length=%u", q, len);
                        pf->n_stuffing_du++;
                        q += 2 + len;
                        continue;
                case 0x02: case 0x03: sliced_kind = PK_TTX; body = 44; break;
                case 0xC3: sliced_kind = PK_VPS; body = 14; break;
                case 0xC4: sliced_kind = PK_WSS; body = 3; break;
                case 0xC5: sliced_kind = PK_CC; body = 3; break;
                case 0xC6: sliced_kind = PK_RAW; body = 4; break;
                default:
                        PFAIL("conformance: data_unit_id is none of Teletext, VPS, WSS, Closed Caption, samples, stuffing", "offset %zu id=%02x", q, id);
                }
                if (len < body) PFAIL("conformance: data_unit_length too small for the data field", "offset %zu id=%02x length=%u need %zu", q, id, len, body);
                int field = (d[0] & 0x20) ? 0 : 1;
                unsigned off = d[0] & 31;
                unsigned frame_line = off ? (field ? 313 + off : off) : 0;
#ifndef C06_NO_FIELD_ORDER_RULE  /* (debug builds only: lets the round trip show what the library demultiplexer makes of such a packet) */
                if (field < cur_field) {
                        char key[240]; snprintf(key, sizeof key, "conformance: field_parity goes back from second to first field within a PES packet %s", p_field_order_class);
                        PFAIL(key, "offset %zu id=%02x line_offset=%u", q, id, off);
                }
#endif
                if (sliced_kind != PK_RAW) {
                        if ((d[0] & 0xC0) != 0xC0) PFAIL("conformance: reserved bits before field_parity not '11'", "offset %zu id=%02x byte=%02x", q, id, d[0]);
                        if (open) PFAIL("conformance: raw line interrupted before its last_segment_flag", "offset %zu id=%02x", q, id);
                }
                if (pf->n >= P_MAXL) PFAIL("content: far more data units than input lines", "%d", pf->n);
                struct p_line *L = &pf->l[pf->n];
                switch (sliced_kind) {
                case PK_TTX:
                        if (off != 0 && (off < 7 || off > 22)) PFAIL("conformance: Teletext line_offset outside 0, 7..22", "offset %zu line_offset=%u", q, off);
                        if (d[1] != 0xE4) PFAIL("conformance: Teletext framing_code not 0xE4", "offset %zu %02x", q, d[1]);
                        break;
                case PK_VPS:
                        if (off != 16 || field != 0) PFAIL("conformance: VPS data unit not on line 16 of the first field", "offset %zu parity_bit=%d line_offset=%u", q, !field, off);
                        break;
                case PK_WSS:
                        if (off != 23 || field != 0) PFAIL("conformance: WSS data unit not on line 23 of the first field", "offset %zu parity_bit=%d line_offset=%u", q, !field, off);
                        if ((d[2] & 3) != 3) PFAIL("conformance: WSS reserved trailing bits not '11'", "offset %zu byte=%02x", q, d[2]);
                        break;
                case PK_CC:
                        if (off != 21) PFAIL("conformance: Closed Caption data unit not on line 21", "offset %zu line_offset=%u", q, off);
                        break;
                case PK_RAW:
                        if (off < 7 || off > 23) PFAIL("conformance: samples line_offset outside 7..23", "offset %zu line_offset=%u", q, off);
                        break;
                }
                if (sliced_kind == PK_RAW) {
                        unsigned fpp = (d[1] << 8) | d[2], np = d[3];
                        int first = !!(d[0] & 0x80), last = !!(d[0] & 0x40);
                        if (np < 1 || np > 251) PFAIL("conformance: samples n_pixels outside 1..251", "offset %zu n_pixels=%u", q, np);
                        if (len < 4 + np) PFAIL("conformance: data_unit_length too small for n_pixels", "offset %zu length=%u n_pixels=%u", q, len, np);
                        if (fpp > 719 || fpp + np > 720) PFAIL("conformance: samples beyond pixel 719", "offset %zu first_pixel_position=%u n_pixels=%u", q, fpp, np);
                        body = 4 + np;
                        if (first) {
                                if (open) PFAIL("conformance: raw line interrupted before its last_segment_flag", "offset %zu new first segment", q);
                                if (frame_line <= last_line) PFAIL("conformance: line numbers not ascending within a PES packet", "offset %zu line %u after %u", q, frame_line, last_line);
                                if (pf->nraw >= P_MAXRAW) PFAIL("content: far more data units than input lines", "raw lines %d", pf->nraw);
                                memset(L, 0, sizeof *L);
                                L->kind = PK_RAW; L->du_id = id; L->field = field; L->line = frame_line; L->fpp = fpp; L->npix = 0; L->rawslot = pf->nraw++;
                                L->open = 1; pf->n++;
                                open = L;
                        } else {
                                if (!open) PFAIL("conformance: samples segment without a first segment", "offset %zu", q);
                                if (open->line != frame_line || open->fpp + open->npix != fpp)
                                        PFAIL("conformance: samples segments of a line not contiguous", "offset %zu line %u pos %u, expected line %u pos %u", q, frame_line, fpp, open->line, open->fpp + open->npix);
                        }
                        memcpy(p_rawpix[open->rawslot] + open->npix, d + 4, np);
                        open->npix += np;
                        if (last) open->open = 0;
                        last_line = frame_line; cur_field = field;
                } else {
                        if (frame_line != 0) {
                                if (frame_line <= last_line) PFAIL("conformance: line numbers not ascending within a PES packet", "offset %zu line %u after %u", q, frame_line, last_line);
                                last_line = frame_line;
                        }
                        cur_field = field;
                        memset(L, 0, sizeof *L);
                        L->kind = sliced_kind; L->du_id = id; L->field = field; L->line = frame_line;
                        switch (sliced_kind) {
                        case PK_TTX: for (int i = 0; i < 42; i++) L->data[i] = p_rev8(d[2 + i]); break;       /* Teletext: lsb first on the wire */
                        case PK_VPS: memcpy(L->data, d + 1, 13); break;                                       /* VPS: msb first, libzvbi keeps it that way */
                        case PK_WSS: L->data[0] = p_rev8(d[1]); L->data[1] = p_rev8(d[2] & 0xFC); break;      /* 14 bits */
                        case PK_CC:  L->data[0] = p_rev8(d[1]); L->data[1] = p_rev8(d[2]); break;
                        }
                        pf->n++;
                }
                if (!p_all_ff(d + body, len - body)) PFAIL("conformance: padding after the data field not 0xFF", "offset %zu id=%02x length=%u data field %zu", q, id, len, body);
                q += 2 + len;
        }
        }
        return 0;
}

/* Everything one multiplexer call emitted (b, n).  In TS mode the transport
 * layer is checked and stripped first.  pes_copy (>= n bytes) receives the PES
 * bytes (for the library's PES demultiplexer). */
static int p_output(const struct h_cfg *c, struct p_state *ps, const uint8_t *b, size_t n, int64_t want_pts,
                    struct p_frame *pf, uint8_t *pes_copy, size_t *pes_n)
{
        pf->n = 0; pf->npes = 0; pf->nraw = 0; pf->n_stuffing_du = 0;
        size_t m = 0;
        if (c->ts) {
                if (n % 188) PFAIL("conformance: TS output not a whole number of 188 byte packets", "%zu bytes", n);
                size_t remaining = 0;
                for (size_t o = 0; o < n; o += 188) {
                        const uint8_t *t = b + o;
                        if (t[0] != 0x47) PFAIL("conformance: TS sync_byte not 0x47", "packet %zu: %02x", o / 188, t[0]);
                        if (t[1] & 0x80) PFAIL("conformance: transport_error_indicator set", "packet %zu", o / 188);
                        unsigned pid = ((t[1] & 0x1F) << 8) | t[2];
                        if (pid != c->pid) PFAIL("conformance: TS PID differs from the configured one", "packet %zu: %04x want %04x", o / 188, pid, c->pid);
                        if (t[3] & 0xC0) PFAIL("conformance: transport_scrambling_control not 00", "packet %zu: byte3=%02x", o / 188, t[3]);
                        if (((t[3] >> 4) & 3) != 1) PFAIL("conformance: adaptation_field_control not 01 (payload only)", "packet %zu: byte3=%02x", o / 188, t[3]);
                        int cc = t[3] & 15;
                        if (ps->cc_next >= 0 && cc != ps->cc_next) PFAIL("conformance: TS continuity_counter not consecutive", "packet %zu of this frame: %d want %d", o / 188, cc, ps->cc_next);
                        ps->cc_next = (cc + 1) & 15;
                        int pusi = !!(t[1] & 0x40);
                        if (remaining == 0) {
                                if (!pusi) PFAIL("conformance: payload_unit_start_indicator not set on the TS packet that starts a PES packet", "packet %zu", o / 188);
                                if (t[4] != 0 || t[5] != 0 || t[6] != 1) PFAIL("conformance: TS packet with payload_unit_start_indicator does not start with a PES start code", "packet %zu", o / 188);
                                remaining = (((size_t) t[8] << 8) | t[9]) + 6;
                        } else if (pusi) PFAIL("conformance: payload_unit_start_indicator set inside a PES packet", "packet %zu", o / 188);
                        memcpy(pes_copy + m, t + 4, 184); m += 184;
                        remaining = remaining > 184 ? remaining - 184 : 0;
                }
                if (remaining) PFAIL("conformance: PES packet not complete at the end of the TS packets of this frame", "%zu bytes missing", remaining);
        } else {
                memcpy(pes_copy, b, n); m = n;
        }
        *pes_n = m;
        size_t o = 0;
        while (o < m) {
                size_t used = 0;
                if (p_pes_packet(c, pes_copy + o, m - o, &used, want_pts, pf)) return -1;
                o += used;
        }
        if (pf->n > 0 && pf->l[pf->n - 1].open) PFAIL("conformance: raw line without last_segment_flag at the end of the frame's output", "line %u, %u pixels", pf->l[pf->n - 1].line, pf->l[pf->n - 1].npix);
        return 0;
}

#endif
