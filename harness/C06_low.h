/* C06_low.h - phase lowlevel: the two public building blocks of the multiplexer,
 * vbi_dvb_multiplex_sliced() and vbi_dvb_multiplex_raw(), driven directly on a caller buffer.
 *
 * Both convert as much as fits into *packet, advance the four in/out arguments and, on request, fill the rest of
 * the buffer with stuffing.  The oracle is the documentation of the two functions + EN 301 775:
 *   - preconditions not met (buffer < 2 bytes, data_identifier 0x10..0x1F and size not a multiple of 46, bad raw
 *     arguments): FALSE, buffer and all four in/out arguments unchanged;
 *   - sliced: the walk over the array is deterministic (lines outside service_mask are skipped unchecked; a selected
 *     line that is out of order, on a wrong line or of a service that cannot be encoded fails the call with *sliced at
 *     it; a legal line that no longer fits ends the call with TRUE and *sliced at it), so the model predicts the
 *     return value, the number of structures consumed and the number of bytes produced of every call;
 *   - the bytes produced parse (independent parser, C06_parse.h) into data units that carry exactly the consumed lines;
 *     with stuffing the whole buffer parses and *packet_left is 0; without it (and after a failure) the bytes behind
 *     *packet are untouched;
 *   - raw: segmentation is the encoder's choice; the units of all calls for a line must be contiguous segments
 *     carrying exactly the samples, first/last segment flags on the first/last unit only, *raw/*raw_left advanced by
 *     the samples stored, and every call on a buffer that can hold one segment makes progress;
 *   - every buffer is an exactly sized heap block (ASan: no byte outside).
 * Continuation follows the documentation: after TRUE with lines left a new buffer ("next packet") is passed, after
 * FALSE the offending structure is skipped and the call repeated on the rest of the same buffer (a new one when
 * fewer than two bytes are left). */
#ifndef C06_LOW_H
#define C06_LOW_H

static uint8_t low_fill(size_t j) { return (uint8_t) (0xA5 ^ (j * 13)); }

static unsigned low_unit_size(int kind, int fixed) { return fixed ? 46 : kind == PK_TTX ? 46 : kind == PK_VPS ? 16 : 5; }

/* legal by the documentation of vbi_dvb_multiplex_sliced (id exactly one of the listed services) */
static int low_line_legal(const struct h_line *l)
{
        unsigned ln = l->line;
        switch (kind_of_id(l->id)) {
        case PK_TTX: return ln == 0 || (ln >= 7 && ln <= 22) || (ln >= 320 && ln <= 335);
        case PK_VPS: return ln == 16;
        case PK_WSS: return ln == 23;
        case PK_CC:  return ln == 21;
        default: return 0;
        }
}

static int low_line_eq(const struct p_line *got, const struct h_line *want, char *why, size_t n)
{
        int k = kind_of_id(want->id);
        if (got->kind != k) { snprintf(why, n, "unit kind %s, input %s", kind_name(got->kind), kind_name(k)); return 0; }
        if (got->line != want->line) { snprintf(why, n, "unit line %u, input line %u", got->line, want->line); return 0; }
        int len = kind_len(k);
        if (k == PK_WSS) { if (got->data[0] != want->data[0] || (got->data[1] & 0x3F) != (want->data[1] & 0x3F)) { snprintf(why, n, "WSS bits differ"); return 0; } return 1; }
        if (memcmp(got->data, want->data, len)) { snprintf(why, n, "%s payload differs", kind_name(k)); return 0; }
        return 1;
}

static const unsigned LOW_SZ_VAR[] = { 2, 3, 4, 5, 6, 7, 9, 10, 11, 15, 16, 17, 20, 21, 22, 45, 46, 47, 48, 50, 51, 52, 61, 62, 63, 91, 92, 93, 94, 97, 98, 138, 139, 184, 257, 258, 259, 260, 303, 304, 514, 515, 516 };
static const unsigned LOW_SZ_FIX[] = { 46, 92, 138, 184, 230, 1426 };
static const unsigned LOW_SZ_BAD[] = { 0, 1 };                 /* always refused */
static const unsigned LOW_SZ_BADFIX[] = { 2, 45, 47, 100, 183 }; /* refused with data_identifier 0x10..0x1F */

/* One (frame, service mask, data_identifier, stuffing, buffer size) execution of the multi-call protocol. */
static uint64_t low_sliced(const struct h_frame *f, unsigned did, int stuffing, unsigned S)
{
        int fixed = did >= 0x10 && did <= 0x1F;
        struct m_sub sub; m_prepare(f, &sub);
        const vbi_sliced *s = sub.sl; unsigned left = f->n;
        uint64_t ev = 0;
        uint8_t *buf = NULL; uint8_t *p = NULL; unsigned pl = 0;
        static struct p_frame pf;
        int calls = 0, newbuf = 1;
        h_bad = 0;
        snprintf(CTX, sizeof CTX, "vbi_dvb_multiplex_sliced data_identifier=%02x stuffing=%d buffer=%u mask=%08x frame %s", did, stuffing, S, f->mask, frame_str(f));
        while (!h_bad) {
                if (++calls > 3 * H_MAXL + 8) { h_viol("sliced: the multi-call protocol does not terminate", "%d calls", calls); break; }
                if (newbuf) {
                        free(buf); buf = malloc(S ? S : 1);
                        for (unsigned j = 0; j < S; j++) buf[j] = low_fill(j);
                        p = buf; pl = S; newbuf = 0;
                }
                uint8_t *p0 = p; unsigned pl0 = pl; const vbi_sliced *s0 = s; unsigned left0 = left;
                size_t at = p0 - buf;
                static uint8_t before[2048]; memcpy(before, buf, S);

                /* ---- model of this call ---- */
                int want_ok = 1; unsigned want_consumed = 0, want_bytes = 0, last_line = 0;
                int pre_fail = pl0 < 2 || (fixed && pl0 % 46);
                int nmodel = 0; const struct h_line *model[H_MAXL];
                if (pre_fail) want_ok = 0;
                else for (unsigned i = f->n - left0; i < (unsigned) f->n; i++) {
                        const struct h_line *l = &f->l[i];
                        if (!(l->id & f->mask)) { want_consumed++; continue; }
                        if (l->line) { if (l->line <= last_line) { want_ok = 0; break; } last_line = l->line; }
                        if (!low_line_legal(l)) { want_ok = 0; break; }
                        unsigned du = low_unit_size(kind_of_id(l->id), fixed);
                        if (du > pl0 - want_bytes) break;
                        model[nmodel++] = l; want_bytes += du; want_consumed++;
                }

                vbi_bool ok = vbi_dvb_multiplex_sliced(&p, &pl, &s, &left, f->mask, did, stuffing);
                ev++;

                if (p < p0 || p > buf + S || pl != pl0 - (unsigned) (p - p0)) { h_viol("sliced: *packet / *packet_left inconsistent after the call", "call %d: packet advanced %ld, packet_left %u -> %u", calls, (long) (p - p0), pl0, pl); break; }
                if (s < s0 || s > s0 + left0 || left != left0 - (unsigned) (s - s0)) { h_viol("sliced: *sliced / *sliced_left inconsistent after the call", "call %d: sliced advanced %ld, sliced_left %u -> %u", calls, (long) (s - s0), left0, left); break; }
                if (!!ok != want_ok) {
                        h_viol(want_ok ? "sliced: call fails although the next selected line is legal" : pre_fail ? "sliced: call succeeds although the buffer size precondition is not met" : "sliced: call succeeds although the next selected line cannot be encoded",
                               "call %d at buffer offset %zu, %u structures left: returned %d", calls, at, left0, ok);
                        break;
                }
                if (pre_fail) {
                        if (p != p0 || s != s0 || memcmp(before, buf, S)) h_viol("sliced: refused call changed the buffer or its arguments", "call %d buffer=%u packet_left=%u", calls, S, pl0);
                        break;                                  /* nothing more to do with this buffer size */
                }
                if ((unsigned) (s - s0) != want_consumed) {
                        h_viol(ok ? "sliced: number of structures consumed differs from the documented walk" : "sliced: *sliced does not point at the offending structure",
                               "call %d: consumed %ld, model %u (returned %d)", calls, (long) (s - s0), want_consumed, ok);
                        break;
                }
                unsigned produced = p - p0;
                if (ok && stuffing) { if (pl != 0) { h_viol("sliced: stuffing requested but *packet_left not 0", "call %d: %u", calls, pl); break; } produced = pl0; }
                else if (produced != want_bytes) { h_viol("sliced: bytes produced differ from the size of the consumed lines' data units", "call %d: produced %u, model %u", calls, produced, want_bytes); break; }
                /* untouched: before the call position, and behind the produced bytes */
                if (memcmp(before, buf, at)) { h_viol("sliced: bytes in front of *packet changed", "call %d offset %zu", calls, at); break; }
                if (memcmp(before + at + produced, buf + at + produced, S - at - produced)) { h_viol("sliced: bytes behind *packet changed", "call %d: produced %u of %u", calls, produced, pl0); break; }
                /* parse what was produced */
                pf.n = 0; pf.npes = 0; pf.nraw = 0; pf.n_stuffing_du = 0;
                if (p_data_units(fixed, buf, at, at + produced, &pf)) break;
                if (pf.n != nmodel) { h_viol("sliced: data units do not carry the consumed lines (count)", "call %d: %d units, %d lines consumed", calls, pf.n, nmodel); break; }
                for (int i = 0; i < nmodel; i++) {
                        char why[80];
                        if (!low_line_eq(&pf.l[i], model[i], why, sizeof why)) { h_viol("sliced: data units do not carry the consumed lines (content)", "call %d unit %d: %s", calls, i, why); break; }
                }
                if (h_bad) break;
                if (!stuffing && pf.n_stuffing_du) { h_viol("sliced: stuffing units although stuffing was not requested", "call %d", calls); break; }
                mc_outcome("low sliced: %s, %s", ok ? (left ? "TRUE, lines left" : "TRUE, all consumed") : "FALSE", produced == want_bytes ? "no stuffing bytes" : produced - want_bytes == 1 ? "one stuffing byte (unit extended)" : "stuffing units");

                if (ok) {
                        if (!left) break;
                        if (want_consumed == 0 && at == 0) break;       /* the next line does not fit an empty buffer of this size: stuck by construction */
                        newbuf = 1;
                } else {
                        s++; left--;                                     /* skip the offending structure */
                        if (pl < 2 || (fixed && pl % 46)) newbuf = 1;
                }
        }
        free(buf); m_release(&sub);
        return ev;
}

struct low_raw_par { unsigned n_total, fpp, line; int std; };    /* std: 0 = 625, 1 = 525, 2 = none, 3 = both */

static int low_raw_legal(const struct low_raw_par *r)
{
        if (r->std == 0) { if (!((r->line >= 7 && r->line <= 23) || (r->line >= 320 && r->line <= 336))) return 0; }
        else if (r->std == 1) { if (!((r->line >= 7 && r->line <= 23) || (r->line >= 270 && r->line <= 286))) return 0; }
        else return 0;
        return r->n_total >= 1 && r->fpp + r->n_total <= 720;
}

static uint64_t low_raw(const struct low_raw_par *r, unsigned did, int stuffing, unsigned S)
{
        static const vbi_videostd_set STD[4] = { VBI_VIDEOSTD_SET_625_50, VBI_VIDEOSTD_SET_525_60, 0, VBI_VIDEOSTD_SET_625_50 | VBI_VIDEOSTD_SET_525_60 };
        int fixed = did >= 0x10 && did <= 0x1F;
        static uint8_t pixels[720]; for (unsigned x = 0; x < 720; x++) pixels[x] = pix(r->line, x);
        uint8_t *rawbuf = mc_exact(pixels, r->n_total);
        const uint8_t *raw = rawbuf; unsigned raw_left = r->n_total;
        static struct p_frame pf; pf.n = 0; pf.npes = 0; pf.nraw = 0; pf.n_stuffing_du = 0;
        uint64_t ev = 0; int calls = 0; uint8_t *buf = NULL;
        int legal = low_raw_legal(r);
        int second = r->std == 1 ? r->line >= 263 : r->line >= 313;
        unsigned want_line = second ? 313 + (r->line - (r->std == 1 ? 263 : 313)) : r->line;   /* what the (625 line) parser makes of field + offset */
        h_bad = 0;
        snprintf(CTX, sizeof CTX, "vbi_dvb_multiplex_raw data_identifier=%02x stuffing=%d buffer=%u videostd=%s line=%u first_pixel_position=%u n_pixels_total=%u",
                 did, stuffing, S, r->std == 0 ? "625" : r->std == 1 ? "525" : r->std == 2 ? "none" : "625|525", r->line, r->fpp, r->n_total);
        while (!h_bad && raw_left) {
                if (++calls > 800) { h_viol("raw: the multi-call protocol does not terminate", "%d calls", calls); break; }
                free(buf); buf = malloc(S ? S : 1);
                for (unsigned j = 0; j < S; j++) buf[j] = low_fill(j);
                static uint8_t before[2048]; memcpy(before, buf, S);
                uint8_t *p = buf; unsigned pl = S; const uint8_t *raw0 = raw; unsigned raw_left0 = raw_left;
                int pre_fail = S < 2 || (fixed && S % 46) || !legal;
                vbi_bool ok = vbi_dvb_multiplex_raw(&p, &pl, &raw, &raw_left, did, STD[r->std], r->line, r->fpp, r->n_total, stuffing);
                ev++;
                if (pre_fail) {
                        if (ok) h_viol(legal ? "raw: call succeeds although the buffer size precondition is not met" : "raw: call succeeds although line / video standard / pixel range are not permitted", "call %d", calls);
                        else if (p != buf || pl != S || raw != raw0 || raw_left != raw_left0 || memcmp(before, buf, S)) h_viol("raw: refused call changed the buffer or its arguments", "call %d", calls);
                        break;
                }
                if (!ok) { h_viol("raw: call fails although all documented preconditions are met", "call %d, %u samples left", calls, raw_left0); break; }
                if (p < buf || p > buf + S || pl != S - (unsigned) (p - buf)) { h_viol("raw: *packet / *packet_left inconsistent after the call", "call %d", calls); break; }
                if (raw < raw0 || raw > raw0 + raw_left0 || raw_left != raw_left0 - (unsigned) (raw - raw0)) { h_viol("raw: *raw / *raw_left inconsistent after the call", "call %d", calls); break; }
                unsigned produced = p - buf;
                if (stuffing && raw_left == 0) { if (pl) { h_viol("raw: stuffing requested but *packet_left not 0", "call %d: %u", calls, pl); break; } }
                if (memcmp(before + produced, buf + produced, S - produced)) { h_viol("raw: bytes behind *packet changed", "call %d: produced %u of %u", calls, produced, S); break; }
                unsigned pix_before = pf.n ? pf.l[0].npix : 0; int stuff_before = pf.n_stuffing_du;
                if (p_data_units(fixed, buf, 0, produced, &pf)) break;
                if (pf.n > 1) { h_viol("raw: more than one line in the data units", "call %d", calls); break; }
                unsigned pix_now = pf.n ? pf.l[0].npix : 0;
                if (pix_now - pix_before != (unsigned) (raw - raw0)) { h_viol("raw: samples stored in the data units differ from the advance of *raw", "call %d: units %u, *raw %ld", calls, pix_now - pix_before, (long) (raw - raw0)); break; }
                /* (with stuffing the function fills every buffer, also one that ends between two segments: legal, a packet has to end somewhere) */
                if (pf.n_stuffing_du != stuff_before && !stuffing) { h_viol("raw: stuffing units although stuffing was not requested", "call %d", calls); break; }
                if (raw == raw0) {
                        /* no progress: only acceptable when not even the smallest segment fits */
                        if (S >= (fixed ? 46u : 7u)) { h_viol("raw: no progress although a segment fits the buffer", "call %d buffer %u", calls, S); }
                        break;
                }
                mc_outcome("low raw: %s", raw_left ? "TRUE, samples left" : stuffing ? "TRUE, line complete, stuffed" : "TRUE, line complete");
        }
        if (!h_bad && legal && raw_left == 0) {
                if (pf.n != 1 || pf.l[0].kind != PK_RAW) h_viol("raw: no samples line in the data units", "n=%d", pf.n);
                else if (pf.l[0].open) h_viol("raw: last_segment_flag missing on the last unit", "%u samples", pf.l[0].npix);
                else if (pf.l[0].line != want_line || pf.l[0].fpp != r->fpp || pf.l[0].npix != r->n_total)
                        h_viol("raw: line / first_pixel_position / sample count of the data units differ from the arguments", "units: line %u pos %u n %u (625-line reading of parity + offset; want %u)", pf.l[0].line, pf.l[0].fpp, pf.l[0].npix, want_line);
                else if (memcmp(p_rawpix[pf.l[0].rawslot], pixels, r->n_total)) h_viol("raw: samples in the data units differ from the input", "%u samples", r->n_total);
        }
        free(buf); free(rawbuf);
        return ev;
}

/* ---- case lists ---------------------------------------------------------- */

static const unsigned LOW_DIDS[4] = { 0x10, 0x99, 0x1F, 0x0F };
static const unsigned LOW_RAW_N[] = { 1, 2, 39, 40, 41, 80, 81, 120, 245, 246, 250, 251, 252, 253, 256, 257, 258, 296, 297, 502, 503, 504, 720 };
#define NLOW_RAW_N ((int) (sizeof LOW_RAW_N / sizeof *LOW_RAW_N))
static const struct { unsigned line; int std; } LOW_RAW_L[] = {
        { 7, 0 }, { 23, 0 }, { 320, 0 }, { 336, 0 }, { 7, 1 }, { 23, 1 }, { 270, 1 }, { 286, 1 },
        /* refused */
        { 0, 0 }, { 6, 0 }, { 24, 0 }, { 319, 0 }, { 337, 0 }, { 269, 1 }, { 287, 1 }, { 320, 1 }, { 10, 2 }, { 10, 3 },
};
#define NLOW_RAW_L ((int) (sizeof LOW_RAW_L / sizeof *LOW_RAW_L))

static uint64_t low_sizes(int fixed, unsigned *out)
{
        uint64_t n = 0;
        for (unsigned i = 0; i < sizeof LOW_SZ_BAD / sizeof *LOW_SZ_BAD; i++) out[n++] = LOW_SZ_BAD[i];
        if (fixed) {
                for (unsigned i = 0; i < sizeof LOW_SZ_BADFIX / sizeof *LOW_SZ_BADFIX; i++) out[n++] = LOW_SZ_BADFIX[i];
                for (unsigned i = 0; i < sizeof LOW_SZ_FIX / sizeof *LOW_SZ_FIX; i++) out[n++] = LOW_SZ_FIX[i];
        } else {
                for (unsigned i = 0; i < sizeof LOW_SZ_VAR / sizeof *LOW_SZ_VAR; i++) out[n++] = LOW_SZ_VAR[i];
        }
        return n;
}

#endif
