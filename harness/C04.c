/* C04 - raw VBI decoding recovers every standard signal bit-exactly, on the right line.
 *
 * Bounded configuration x payload lattice: the library's own generator
 * (_vbi_raw_vbi_image / _vbi_raw_video_image, src/io-sim.c) is the transmitter,
 * the real decoders are the receivers:
 *   vbi3_raw_decoder_*            (src/raw_decoder.c)
 *   vbi_raw_decoder_* / vbi_raw_decode (src/decoder.c, legacy wrapper)
 *   vbi3_bit_slicer_slice         (src/bit_slicer.c, one fresh slicer per line)
 *   vbi_bit_slicer_init/vbi_bit_slice (src/decoder.c, legacy template, fresh per line)
 * The reference (what was transmitted, where, which lines are legal for a
 * service, how long the nominal signal is) is stated here from the standards'
 * constants; nothing of it is read from _vbi_service_table except the slicer
 * parameters handed to the two bare bit slicer interfaces (that is how a
 * caller of those interfaces obtains "the standard signal").
 *
 * Phases
 *   slicer-grid   waveform class x sampling rate grid x samples_per_line x
 *                 offset x pixel format; every frame carries the whole payload
 *                 alphabet (one payload per scan line); four entry points.
 *   layout        service sets x line layouts x interlaced x synchronous x
 *                 known/unknown line numbers x strict 0/1/2 x transmit patterns
 *                 (all lines / every other / none / first+last) at three rates.
 *   all-payloads  every 2^16 Caption and 2^14 WSS payload at fixed rates.
 *   history       E2 BFS over {add S, remove S, decode} on vbi3_raw_decoder and
 *                 on the legacy wrapper.
 *   asan-pass     bin/C04_asan (this file against the ASan-only library): a
 *                 sub-lattice of slicer-grid and layout with exactly sized
 *                 output arrays.
 *
 * Deviations from DESIGN.md C04 (forced by the code):
 *   - 15 table rows are generable by io-sim.c and named by the property
 *     (2xCaption 525 is neither); 11 distinct waveforms.
 *   - 23 pixel formats exist in this tree (VBI_PIXFMT_SET_ALL), not 25.
 *   - a line is at most one line period long (64 / 63.5555 us): the Caption
 *     generator shifts by the bit index, lines longer than 32 bit periods are
 *     outside its domain.  2048 samples per line are used where they fit.
 *   - "signal inside the line" is the nominal extent of all transmitted bit
 *     cells (first CRI element .. end of the last payload bit cell).
 *   - raw images get a zeroed tail of 4096 bytes: reads past the image are
 *     property C05, not this one.
 *   - unknown line numbers (start[] = 0) are used in slicer-grid so that every
 *     scan line may carry a payload; real ITU line numbers are checked in
 *     layout / history.
 */
#include <stdio.h>
#include <stdlib.h>
#include <string.h>
#include <stdarg.h>
#include <math.h>
#include <signal.h>
#include <unistd.h>
#include <fcntl.h>
#include <sys/wait.h>
#ifndef C04_ASAN_PASS
#include "mc.h"
#endif
#include "src/misc.h"
#include "src/decoder.h"
#include "src/raw_decoder.h"
#include "src/io-sim.h"

/* ---- reporting layer (engine in the harness, stdout in the ASan child) ---- */

static int thorough;

#ifdef C04_ASAN_PASS
static char cur_case[512];
static unsigned long long n_eval, n_frames;
static void V(const char *key, const char *fmt, ...)
{
        va_list ap; va_start(ap, fmt);
        printf("C04-FAULT: %s | ", key); vprintf(fmt, ap); putchar('\n'); fflush(stdout);
        va_end(ap);
}
static void CASE(const char *key, const char *fmt, ...)
{
        va_list ap; va_start(ap, fmt);
        int n = snprintf(cur_case, sizeof cur_case, "C04-CASE: %s | ", key);
        vsnprintf(cur_case + n, sizeof cur_case - n - 2, fmt, ap);
        strcat(cur_case, "\n");
        va_end(ap);
}
static void CNT(const char *name, uint64_t n) { if (!strcmp(name, "evaluations")) n_eval += n; else if (!strcmp(name, "frames")) n_frames += n; }
static void OUTCOME(const char *l) { (void) l; }
static void DISTINCT(uint64_t h) { (void) h; }
static void SAMPLE(const char *fmt, ...) { (void) fmt; }
#else
#define V mc_violation
#define CASE mc_case
#define CNT mc_count
static void OUTCOME(const char *l) { mc_outcome("%s", l); }
#define DISTINCT mc_distinct
#define SAMPLE mc_sample
#endif

/* ---- reference description of the services ------------------------------ */

enum { K_TTX, K_VPS, K_WSS, K_CC };
static const char *kind_name[] = { "Teletext", "VPS", "WSS", "Caption" };

struct svc {
        unsigned id; const char *name; int scanning; int kind;
        double bit_rate;        /* payload bit rate, Hz */
        double clock;           /* fastest element rate in the signal, Hz */
        int pbits;              /* payload bits */
        double ts, te;          /* nominal signal extent from 0H, seconds */
        int first[2], last[2];  /* ITU-R lines the service may use, 0 = not on this field */
        int need_sync, need_line;
        unsigned merge;         /* ids sharing one waveform: the decoder may report the union of the requested ones */
};

#define FH625 15625.0
#define TTX(ID, NM, SC, BR, P, F0, L0, F1, L1) \
        { ID, NM, SC, K_TTX, BR, BR, (P) * 8, 12e-6 - 13.0 / (BR), 12e-6 - 13.0 / (BR) + ((P) * 8 + 25) / (double)(BR), { F0, F1 }, { L0, L1 }, 0, 0, ID }
#define CC_D625 (1.0 / (FH625 * 32))
#define CC_D525 (1001.0 / (30000.0 * 525 * 32))
static struct svc SV[] = {
        TTX(VBI_SLICED_TELETEXT_A,         "ttx-A",     625, 25 * 625 * 397.0, 37, 6, 22, 318, 335),
        TTX(VBI_SLICED_TELETEXT_B_L10_625, "ttx-B-L10", 625, 25 * 625 * 444.0, 42, 7, 22, 320, 335),
        TTX(VBI_SLICED_TELETEXT_B,         "ttx-B",     625, 25 * 625 * 444.0, 42, 6, 22, 318, 335),
        TTX(VBI_SLICED_TELETEXT_C_625,     "ttx-C-625", 625, 25 * 625 * 367.0, 33, 6, 22, 318, 335),
        TTX(VBI_SLICED_TELETEXT_D_625,     "ttx-D-625", 625, 5642787.0,        34, 6, 22, 318, 335),
        /* VPS: 5 MHz elements; one leading zero element at 12.4 us, 32 run-in/start code elements, 13 bytes biphase */
        { VBI_SLICED_VPS,    "vps",    625, K_VPS, 2.5e6, 5e6, 104, 12.4e-6, 12.4e-6 + (1 + 32 + 208) / 5e6, { 16, 0 }, { 16, 0 }, 1, 0, VBI_SLICED_VPS | VBI_SLICED_VPS_F2 },
        { VBI_SLICED_VPS_F2, "vps-f2", 625, K_VPS, 2.5e6, 5e6, 104, 12.4e-6, 12.4e-6 + (1 + 32 + 208) / 5e6, { 0, 329 }, { 0, 329 }, 1, 0, VBI_SLICED_VPS | VBI_SLICED_VPS_F2 },
        /* WSS: 5 MHz elements; 29 run-in + 24 start code + 14 x 6 data elements */
        { VBI_SLICED_WSS_625, "wss-625", 625, K_WSS, 5e6 / 6, 5e6, 14, 10.9e-6, 10.9e-6 + (1 + 29 + 24 + 84) / 5e6, { 23, 0 }, { 23, 0 }, 1, 1, VBI_SLICED_WSS_625 },
        /* Caption: 7 cycles clock run-in from 10.5 us - D/4, then 0 0 1 start bits and 16 data bits */
        { VBI_SLICED_CAPTION_625_F1, "cc-625-f1", 625, K_CC, 1 / CC_D625, 2 / CC_D625, 16, 10.5e-6 - .25 * CC_D625, 10.5e-6 + 25.5 * CC_D625, { 22, 0 }, { 22, 0 }, 1, 0, VBI_SLICED_CAPTION_625 },
        { VBI_SLICED_CAPTION_625_F2, "cc-625-f2", 625, K_CC, 1 / CC_D625, 2 / CC_D625, 16, 10.5e-6 - .25 * CC_D625, 10.5e-6 + 25.5 * CC_D625, { 0, 335 }, { 0, 335 }, 1, 0, VBI_SLICED_CAPTION_625 },
        TTX(VBI_SLICED_TELETEXT_B_525, "ttx-B-525", 525, 5727272.0, 34, 10, 21, 272, 284),
        TTX(VBI_SLICED_TELETEXT_C_525, "ttx-C-525", 525, 5727272.0, 33, 10, 21, 272, 284),
        TTX(VBI_SLICED_TELETEXT_D_525, "ttx-D-525", 525, 5727272.0, 34, 10, 21, 272, 284),
        { VBI_SLICED_CAPTION_525_F1, "cc-525-f1", 525, K_CC, 1 / CC_D525, 2 / CC_D525, 16, 10.5e-6 - .25 * CC_D525, 10.5e-6 + 25.5 * CC_D525, { 21, 0 }, { 21, 0 }, 1, 1, VBI_SLICED_CAPTION_525 },
        { VBI_SLICED_CAPTION_525_F2, "cc-525-f2", 525, K_CC, 1 / CC_D525, 2 / CC_D525, 16, 10.5e-6 - .25 * CC_D525, 10.5e-6 + 25.5 * CC_D525, { 0, 284 }, { 0, 284 }, 1, 1, VBI_SLICED_CAPTION_525 },
};
#define NSV ((int)(sizeof SV / sizeof *SV))
/* the eleven distinct waveforms (indices into SV) driven through the rate grid */
static const int WAVE[] = { 0, 2, 3, 4, 5, 7, 8, 10, 11, 12, 13 };
#define NWAVE ((int)(sizeof WAVE / sizeof *WAVE))

static const struct svc *svc_by_id(unsigned id)
{
        for (int i = 0; i < NSV; i++) if (SV[i].id == id) return &SV[i];
        /* merged ids */
        if (id == VBI_SLICED_CAPTION_625) return svc_by_id(VBI_SLICED_CAPTION_625_F1);
        if (id == VBI_SLICED_CAPTION_525) return svc_by_id(VBI_SLICED_CAPTION_525_F1);
        if (id == VBI_SLICED_TELETEXT_B_L25_625) return svc_by_id(VBI_SLICED_TELETEXT_B);
        return NULL;
}
static double line_period(int scanning) { return scanning == 625 ? 64e-6 : 63.5555e-6; }
/* Property: "from 13.5 MHz upward for Teletext-class services and from twice the clock rate upward for the others" */
static int min_rate(const struct svc *s) { return s->kind == K_TTX ? 13500000 : (int) ceil(2 * s->clock); }
static const _vbi_service_par *lib_par(unsigned id)
{
        for (const _vbi_service_par *p = _vbi_service_table; p->id; p++) if (p->id == id) return p;
        return NULL;
}

/* ---- pixel formats -------------------------------------------------------- */

static const vbi_pixfmt FMT_ALL[] = {
        VBI_PIXFMT_YUV420, VBI_PIXFMT_YUYV, VBI_PIXFMT_YVYU, VBI_PIXFMT_UYVY, VBI_PIXFMT_VYUY,
        VBI_PIXFMT_RGBA32_LE, VBI_PIXFMT_RGBA32_BE, VBI_PIXFMT_BGRA32_LE, VBI_PIXFMT_BGRA32_BE,
        VBI_PIXFMT_RGB24, VBI_PIXFMT_BGR24,
        VBI_PIXFMT_RGB16_LE, VBI_PIXFMT_RGB16_BE, VBI_PIXFMT_BGR16_LE, VBI_PIXFMT_BGR16_BE,
        VBI_PIXFMT_RGBA15_LE, VBI_PIXFMT_RGBA15_BE, VBI_PIXFMT_BGRA15_LE, VBI_PIXFMT_BGRA15_BE,
        VBI_PIXFMT_ARGB15_LE, VBI_PIXFMT_ARGB15_BE, VBI_PIXFMT_ABGR15_LE, VBI_PIXFMT_ABGR15_BE,
};
#define NFMT_ALL 23
static const char *fmt_name(vbi_pixfmt f)
{
        static const char *n[] = { "YUV420", "YUYV", "YVYU", "UYVY", "VYUY", "RGBA32_LE", "RGBA32_BE", "BGRA32_LE", "BGRA32_BE", "RGB24", "BGR24",
                "RGB16_LE", "RGB16_BE", "BGR16_LE", "BGR16_BE", "RGBA15_LE", "RGBA15_BE", "BGRA15_LE", "BGRA15_BE", "ARGB15_LE", "ARGB15_BE", "ABGR15_LE", "ABGR15_BE" };
        for (int i = 0; i < NFMT_ALL; i++) if (FMT_ALL[i] == f) return n[i];
        return "?";
}
static int fmt_is_yuv(vbi_pixfmt f) { return f >= VBI_PIXFMT_YUV420 && f <= VBI_PIXFMT_VYUY; }
static int fmt_is_packed16(vbi_pixfmt f) { return f >= VBI_PIXFMT_RGB16_LE; }
/* the six quick-tier formats: one per slicer template (Y8, 2-byte YUV with and without skip, 4-byte, 3-byte, 565 LE) + 5551 BE + 1555 LE */
static const vbi_pixfmt FMT_QUICK[] = { VBI_PIXFMT_YUV420, VBI_PIXFMT_YUYV, VBI_PIXFMT_UYVY, VBI_PIXFMT_RGBA32_LE, VBI_PIXFMT_BGRA32_BE, VBI_PIXFMT_RGB24, VBI_PIXFMT_RGB16_LE, VBI_PIXFMT_BGRA15_BE, VBI_PIXFMT_ARGB15_LE };
#define NFMT_QUICK ((int)(sizeof FMT_QUICK / sizeof *FMT_QUICK))

/* ---- payload alphabet ------------------------------------------------------ */

#define MAXPAY 48
static int npay;
/* de Bruijn B(2,3) / B(2,5): every 3 (5) bit context at every bit position over the cyclic shifts */
static const char DB3[] = "00010111";
static const char DB5[] = "00000100011001010011101011011111";

static void make_payload(uint8_t *d, int pbits, int pi)
{
        const char *db = thorough ? DB5 : DB3; int dl = thorough ? 32 : 8;
        int nbytes = (pbits + 7) / 8;
        memset(d, 0, 56);
        if (pi < dl) { for (int b = 0; b < pbits; b++) if (db[(b + pi) % dl] == '1') d[b >> 3] |= 1u << (b & 7); return; }
        switch (pi - dl) {
        case 0: break;                                                          /* all zero: longest run of 0 */
        case 1: for (int b = 0; b < pbits; b++) d[b >> 3] |= 1u << (b & 7); break; /* all one */
        case 2: d[pbits / 16] |= 0x10; break;                                   /* single 1 in a sea of 0 */
        case 3: for (int b = 0; b < pbits; b++) d[b >> 3] |= 1u << (b & 7); d[pbits / 16] &= ~0x10; break;
        case 4: for (int i = 0; i < nbytes; i++) d[i] = (i & 1) ? 0xFF : 0x00; break; /* runs of eight */
        case 5: for (int i = 0; i < nbytes; i++) d[i] = 0x55; break;
        case 6: for (int i = 0; i < nbytes; i++) d[i] = 0xAA; break;
        case 7: for (int i = 0; i < nbytes; i++) d[i] = 0x0F; break;
        case 8: for (int i = 0; i < nbytes; i++) d[i] = 1u << (i & 7); break;       /* walking 1 */
        }
        if (pbits & 7) d[nbytes - 1] &= (1u << (pbits & 7)) - 1;
}

/* ---- frames --------------------------------------------------------------- */

#define MAXROWS 128
#define RAW_TAIL 4096
struct tx { unsigned id; unsigned line; int field; uint8_t data[56]; const struct svc *s; };
struct frame {
        vbi_sampling_par gsp;           /* generator: true line numbers */
        int ntx; struct tx tx[MAXROWS]; /* ascending (field, line) */
        uint8_t *raw; size_t size;
        int video_levels;               /* generated by _vbi_raw_video_image */
};

static void sp_init(vbi_sampling_par *sp, int scanning, vbi_pixfmt fmt, int rate, int spl, int off)
{
        memset(sp, 0, sizeof *sp);
        sp->scanning = scanning; sp->sampling_format = fmt; sp->sampling_rate = rate;
        sp->bytes_per_line = spl * VBI_PIXFMT_BPP(fmt); sp->offset = off;
        sp->synchronous = TRUE;
}
static void frame_add(struct frame *f, const struct svc *s, unsigned id, int field, unsigned line, int pi)
{
        struct tx *t = &f->tx[f->ntx++];
        t->id = id; t->line = line; t->field = field; t->s = s;
        make_payload(t->data, s->pbits, pi);
}
/* returns 0 when the generator refuses (harness error) */
static int frame_render(struct frame *f, int video_levels)
{
        const vbi_sampling_par *sp = &f->gsp;
        vbi_sliced sl[MAXROWS];
        int rows = sp->count[0] + sp->count[1];
        f->size = (size_t) rows * sp->bytes_per_line;
        f->raw = malloc(f->size + RAW_TAIL);
        if (!f->raw) return 0;
        /* whatever the generator does not write (other colour channels) is deterministic garbage */
        for (size_t k = 0; k < f->size; k++) f->raw[k] = (uint8_t)(k * 167u + (k >> 8) * 31u + 13u);
        memset(f->raw + f->size, 0, RAW_TAIL);
        for (int i = 0; i < f->ntx; i++) { memset(&sl[i], 0, sizeof sl[i]); sl[i].id = f->tx[i].id; sl[i].line = f->tx[i].line; memcpy(sl[i].data, f->tx[i].data, 56); }
        f->video_levels = video_levels;
        if (!video_levels) return _vbi_raw_vbi_image(f->raw, f->size, sp, 0, 0, 0, sl, f->ntx);
        return _vbi_raw_video_image(f->raw, f->size, sp, 0, 0, 0, fmt_is_yuv(sp->sampling_format) ? 0xFF : 0xFF00, 0, sl, f->ntx);
}
static void frame_free(struct frame *f) { free(f->raw); f->raw = NULL; }

/* ---- oracle ---------------------------------------------------------------- */

struct ctx {                   /* what is printed with a violation */
        const char *phase; int rate, spl, off; vbi_pixfmt fmt; int interlaced, sync, strict; const char *extra; int video;
};
static const char *region(const struct svc *s, int rate, vbi_pixfmt fmt)
{
        static char b[64];
        snprintf(b, sizeof b, "[%s, %s]", rate / s->clock < 3.0 ? "below 3 samples per bit" : "3+ samples per bit",
                 fmt_is_packed16(fmt) ? "15/16 bit RGB" : "8 bit samples");
        return b;
}
/* Cause classes of the two recorded slicer defects, computed from the configuration alone
 * (sampling rate, the slicer parameters of the service, pixel format, levels, line start):
 *   T  step truncation: the payload sampling step is floor(256 * rate / bit_rate) / 256 samples;
 *      over the N = frc_bits + payload bits sampled with it the instant drifts by
 *      N * frac(256 * rate / bit_rate) / 256 samples.  Class: drift >= 1/4 bit cell.
 *   S  CRI sub-sample position dropped: the payload phase starts at the integer sample at which
 *      the CRI matched although the match happens at one of 4 oversampling positions, and the
 *      clock recovery has 1/8 sample resolution: up to 5/8 sample.  Class: fewer than 2.25 samples
 *      per bit cell (the error can reach 5/18 = 0.28 cell).  The bound is a budget, not a proof:
 *      the largest failing value on the thorough grid is 2.123 samples per cell (VPS, 10.6 MHz).
 *   L  low pass start threshold: rate / max(cri_rate, bit_rate) > 24 and 8 bit samples select
 *      low_pass_bit_slicer_Y8, whose start threshold 105 is compared with a sum of 16 samples;
 *      with video levels (16 * blank 5 < 105) every non-blank sample reads 1, and after two CRI
 *      bit periods of blank the reduced Caption 525 CRI "0011" matches in the first run-in cycle.
 * A bit cell is a bit for NRZ services and a half bit for biphase ones (VPS, WSS).
 * Everything outside T, S and L must decode. */
static const char *cause_class(const struct svc *s, const struct ctx *c)
{
        const _vbi_service_par *p = lib_par(s->id);
        if (!p) return NULL;
        unsigned clk = p->cri_rate > p->bit_rate ? p->cri_rate : p->bit_rate;
        int biphase = s->kind == K_VPS || s->kind == K_WSS;
        double cell = c->rate / (double) p->bit_rate / (biphase ? 2 : 1);          /* samples per bit cell */
        double x = c->rate * 256.0 / p->bit_rate;
        double drift = (p->frc_bits + p->payload) * (x - floor(x)) / 256 / cell;     /* in bit cells */
        double lead = s->ts - c->off / (double) c->rate;
        if ((unsigned) c->rate / clk > 24 && !fmt_is_packed16(c->fmt) && c->video && s->kind == K_CC && s->scanning == 525 && lead >= 2.0 / p->cri_rate)
                return "low pass slicer start threshold: more than 24 samples per CRI bit, 8 bit samples, video levels, at least two CRI bit periods of blank before the signal, Caption 525";
        if (drift >= 0.25) return "step truncation: frac(256*rate/bit_rate)/256 samples x (FRC + payload bits) drifts 1/4 bit cell or more";
        if (cell < 2.25) return "CRI sub-sample position dropped: fewer than 2.25 samples per bit cell";
        return NULL;
}
static void report(const char *entry, const struct svc *s, const char *symptom, const struct ctx *c, const char *more)
{
        char key[300]; const char *cc = NULL;
        if (s && (!strcmp(symptom, "line not decoded") || !strcmp(symptom, "payload bits differ"))) cc = cause_class(s, c);
        if (cc) {
                char e[64]; snprintf(e, sizeof e, "%s", entry);
                char *q = strstr(e, " (second frame)"); if (q) *q = 0;
                q = strstr(e, " (max_lines = transmitted lines)"); if (q) *q = 0;
                snprintf(key, sizeof key, "%s: line not decoded or payload bits differ [%s]", e, cc);
        } else if (s) snprintf(key, sizeof key, "%s: %s %s %s", entry, kind_name[s->kind], symptom, region(s, c->rate, c->fmt));
        else snprintf(key, sizeof key, "%s: %s", entry, symptom);
        V(key, "%s svc=%s rate=%d spl=%d offset=%d fmt=%s interlaced=%d sync=%d strict=%d %s %s%s%s", c->phase, s ? s->name : "-", c->rate, c->spl, c->off,
          fmt_name(c->fmt), c->interlaced, c->sync, c->strict, c->extra ? c->extra : "", cc ? symptom : "", cc ? ": " : "", more ? more : "");
        OUTCOME(symptom);
}

#define CANARY 0xA5
static int payload_eq(const struct tx *t, const vbi_sliced *o)
{
        int nb = (t->s->pbits + 7) / 8;
        return !memcmp(t->data, o->data, nb);   /* a partial last byte: transmitted bits, upper bits zero */
}
static int first_wrong_bit(const struct tx *t, const vbi_sliced *o)
{
        for (int b = 0; b < t->s->pbits; b++) if (((t->data[b >> 3] ^ o->data[b >> 3]) >> (b & 7)) & 1) return b;
        return -1;
}

/* exp[]: the transmitted lines the decoder must report, in order; want_line: 0 = must be 0, else ITU line.
 * out[0..cap): array handed to the decoder (cap >= max_lines given to it), all canary before the call. */
struct expect { const struct tx *t; unsigned line; };
static int check_records(const char *entry, const struct ctx *c, const struct expect *e, int ne,
                         const vbi_sliced *out, unsigned n, unsigned cap, unsigned granted)
{
        char more[256];
        static const vbi_sliced can_rec = { 0 };
        (void) can_rec;
        /* nothing written beyond the reported number of records */
        for (unsigned k = n; k < cap; k++) {
                const uint8_t *p = (const uint8_t *) &out[k];
                for (size_t j = 0; j < sizeof out[k]; j++) if (p[j] != CANARY) {
                        snprintf(more, sizeof more, "returned %u, record %u byte %zu modified", n, k, j);
                        report(entry, ne ? e[0].t->s : NULL, ne ? "record beyond the returned count written" : "record written although nothing was transmitted", c, more);
                        return 0;
                }
        }
        if (n > cap) { report(entry, NULL, "returned count exceeds the array", c, ""); return 0; }
        for (unsigned k = 0; k < n; k++) if (out[k].id & ~granted) {
                const struct svc *us = svc_by_id(out[k].id & -out[k].id);
                snprintf(more, sizeof more, "record %u: id %#x line %u, requested %#x", k, out[k].id, out[k].line, granted);
                report(entry, us, "record identified as a service that was not requested", c, more);
                return 0;
        }
        if ((int) n != ne) {
                /* which one is missing / surplus: align greedily by payload */
                int oi = 0; const struct svc *s = ne ? e[ne - 1].t->s : NULL; int miss = -1;
                for (int i = 0; i < ne; i++) {
                        if (oi < (int) n && payload_eq(e[i].t, &out[oi])) oi++;
                        else if (miss < 0) { miss = i; s = e[i].t->s; }
                }
                if ((int) n < ne) {
                        snprintf(more, sizeof more, "expected %d records, got %u; first missing: transmitted #%d line %u", ne, n, miss, miss >= 0 ? e[miss].t->line : 0);
                        report(entry, s, "line not decoded", c, more);
                } else {
                        snprintf(more, sizeof more, "expected %d records, got %u; out[%d] id=%#x line=%u", ne, n, oi < (int) n ? oi : 0, out[oi < (int) n ? oi : 0].id, out[oi < (int) n ? oi : 0].line);
                        report(entry, ne ? s : NULL, ne ? "more records than transmitted lines" : "blank frame produced a record", c, more);
                }
                return 0;
        }
        unsigned prev_line = 0;
        for (int i = 0; i < ne; i++) {
                const struct tx *t = e[i].t; const vbi_sliced *o = &out[i];
                if (!(o->id & t->s->merge) || (o->id & ~granted) || !(o->id & (t->id | t->s->merge))) {
                        snprintf(more, sizeof more, "record %d: id %#x, transmitted %#x on line %u, granted %#x", i, o->id, t->id, t->line, granted);
                        report(entry, t->s, (o->id & ~granted) ? "identified as a service that was not requested" : "wrong service id", c, more);
                        return 0;
                }
                if (o->line != e[i].line) {
                        snprintf(more, sizeof more, "record %d: line %u, expected %u (transmitted on %u)", i, o->line, e[i].line, t->line);
                        report(entry, t->s, "wrong line number", c, more);
                        return 0;
                }
                if (o->line && o->line <= prev_line) { report(entry, t->s, "line numbers not ascending", c, ""); return 0; }
                if (o->line) prev_line = o->line;
                if (!payload_eq(t, o)) {
                        snprintf(more, sizeof more, "record %d (line %u): first wrong payload bit %d of %d", i, t->line, first_wrong_bit(t, o), t->s->pbits);
                        report(entry, t->s, "payload bits differ", c, more);
                        return 0;
                }
        }
        return 1;
}

/* ---- the four entry points -------------------------------------------------- */

static uint64_t evals;          /* (entry point, line) evaluations in this case */

static vbi_sliced *out_alloc(unsigned cap)
{
        vbi_sliced *o = malloc((cap ? cap : 1) * sizeof *o);   /* exactly sized: ASan red zone right behind */
        memset(o, CANARY, (cap ? cap : 1) * sizeof *o);
        return o;
}

/* Whole image through vbi3_raw_decoder (twice: the second pass runs with adapted
 * thresholds and the "found service first" pattern order) and through the legacy wrapper.
 * services: requested set; must: subset that has to be granted (0 = no demand).
 * e/ne are computed by the caller for `granted' via the callback, because what is
 * expected depends on what was granted. */
typedef int (*expect_fn)(void *arg, unsigned granted, struct expect *e);

static int run_raw_decoders(const struct ctx *c, const vbi_sampling_par *dsp, const uint8_t *raw,
                            unsigned services, unsigned must, expect_fn ef, void *ea, unsigned max_lines, unsigned *granted_out)
{
        struct expect e[MAXROWS]; int ne; int ok = 1;
        unsigned cap = max_lines
#ifndef C04_ASAN_PASS
                + 3     /* canary records behind the array the decoder knows about */
#endif
                ;
        /* new interface */
        vbi3_raw_decoder *rd = vbi3_raw_decoder_new(dsp);
        if (!rd) { report("vbi3_raw_decoder", NULL, "valid sampling parameters refused", c, ""); return 0; }
        unsigned g = vbi3_raw_decoder_add_services(rd, services, c->strict);
        if (granted_out) *granted_out = g;
        /* level 1.0 / level 2.5 are line ranges of one service (Teletext B 625): asking for one id bit grants the merged id */
        unsigned allowed = services | ((services & VBI_SLICED_TELETEXT_B) ? VBI_SLICED_TELETEXT_B : 0);
        if (g & ~allowed) { report("vbi3_raw_decoder", NULL, "granted a service that was not requested", c, ""); ok = 0; }
        if (must & ~g) {
                char more[64]; snprintf(more, sizeof more, "requested %#x must %#x granted %#x", services, must, g);
                report("vbi3_raw_decoder", svc_by_id(must & ~g & -(must & ~g)), "service refused although the sampling parameters cover it", c, more); ok = 0;
        }
        if (g != vbi3_raw_decoder_services(rd)) { report("vbi3_raw_decoder", NULL, "services() differs from add_services() result", c, ""); ok = 0; }
        ne = ef(ea, g, e);
        if (ne < 0) {   /* a transmitted service is not decoded in this configuration: outside the property's premise */
                vbi3_raw_decoder_delete(rd); OUTCOME("not compared: a transmitted service was legitimately refused"); return ok;
        }
        for (int pass = 0; pass < 2 && ok; pass++) {
                vbi_sliced *out = out_alloc(cap);
                unsigned n = vbi3_raw_decoder_decode(rd, out, max_lines, raw);
                ok = check_records(pass ? "vbi3_raw_decoder (second frame)" : "vbi3_raw_decoder", c, e, ne, out, n, cap, g);
                evals += ne ? ne : 1;
                free(out);
        }
        /* an output array of exactly as many records as lines were transmitted (fewer than scan lines: the
         * data lines lie behind blank ones) still receives every one of them: max_lines counts records, not scan lines */
        if (ok && ne > 0 && (unsigned) ne < max_lines) {
                unsigned ml = ne, cap2 = ml + (cap - max_lines);
                vbi_sliced *out = out_alloc(cap2);
                unsigned n = vbi3_raw_decoder_decode(rd, out, ml, raw);
                ok = check_records("vbi3_raw_decoder (max_lines = transmitted lines)", c, e, ne, out, n, cap2, g);
                evals += ne;
                free(out);
                OUTCOME("sparse frame decoded into an array of exactly the transmitted number of records");
        }
        vbi3_raw_decoder_delete(rd);
        if (!g) OUTCOME("all services refused (legitimate)");
        else if (g != services) OUTCOME("some services refused (legitimate)");
        /* legacy interface: its array must hold count[0] + count[1] records, it has no max_lines */
        {
                vbi_raw_decoder lrd; unsigned rows = dsp->count[0] + dsp->count[1];
                unsigned lcap = rows
#ifndef C04_ASAN_PASS
                        + 3
#endif
                        ;
                vbi_raw_decoder_init(&lrd);
                lrd.scanning = dsp->scanning; lrd.sampling_format = dsp->sampling_format; lrd.sampling_rate = dsp->sampling_rate;
                lrd.bytes_per_line = dsp->bytes_per_line; lrd.offset = dsp->offset;
                lrd.start[0] = dsp->start[0]; lrd.start[1] = dsp->start[1]; lrd.count[0] = dsp->count[0]; lrd.count[1] = dsp->count[1];
                lrd.interlaced = dsp->interlaced; lrd.synchronous = dsp->synchronous;
                unsigned lg = vbi_raw_decoder_add_services(&lrd, services, c->strict);
                if (lg != g) {
                        char more[64]; snprintf(more, sizeof more, "vbi3 granted %#x, legacy %#x", g, lg);
                        report("vbi_raw_decode", NULL, "legacy wrapper grants a different service set", c, more); ok = 0;
                } else if (ok || 1) {
                        vbi_sliced *out = out_alloc(lcap);
                        unsigned n = vbi_raw_decode(&lrd, (uint8_t *) raw, out);
                        if (!check_records("vbi_raw_decode", c, e, ne, out, n, lcap, lg)) ok = 0;
                        evals += ne ? ne : 1;
                        free(out);
                }
                vbi_raw_decoder_destroy(&lrd);
        }
        return ok;
}

/* One scan line through a fresh bare bit slicer of each generation, parameters of the
 * standard signal from _vbi_service_table (as the raw decoder of either generation does). */
static int run_bit_slicers(const struct ctx *c, const struct svc *s, vbi_pixfmt fmt, int rate, int spl,
                           const uint8_t *line, const struct tx *t /* NULL: blank line */)
{
        const _vbi_service_par *p = lib_par(s->id);
        uint8_t buf[64 + 8]; char more[128]; int ok = 1;
        int nb = (s->pbits + 7) / 8;
        if (!p) { report("harness", NULL, "service not in _vbi_service_table", c, s->name); return 0; }
        /* new */
        {
                vbi3_bit_slicer *bs = vbi3_bit_slicer_new();
                memset(buf, CANARY, sizeof buf);
                if (!vbi3_bit_slicer_set_params(bs, fmt, rate, 0, spl, p->cri_frc >> p->frc_bits, p->cri_frc_mask >> p->frc_bits, p->cri_bits, p->cri_rate, ~0u,
                                                p->cri_frc & ((1u << p->frc_bits) - 1), p->frc_bits, p->payload, p->bit_rate, (vbi3_modulation) p->modulation)) {
                        report("vbi3_bit_slicer", s, "set_params refuses the standard signal", c, ""); ok = 0;
                } else {
                        vbi_bool r = vbi3_bit_slicer_slice(bs, buf, 64, line);
                        evals++;
                        if (!t) {
                                if (r) { report("vbi3_bit_slicer", s, "blank line decoded", c, ""); ok = 0; }
                                else for (int k = 0; k < 72; k++) if (buf[k] != CANARY) { report("vbi3_bit_slicer", s, "buffer modified although slice() failed", c, ""); ok = 0; break; }
                        } else if (!r) { snprintf(more, sizeof more, "line %u", t->line); report("vbi3_bit_slicer", s, "line not decoded", c, more); ok = 0; }
                        else if (memcmp(buf, t->data, nb)) {
                                vbi_sliced o; memcpy(o.data, buf, 56);
                                snprintf(more, sizeof more, "line %u: first wrong payload bit %d of %d", t->line, first_wrong_bit(t, &o), s->pbits);
                                report("vbi3_bit_slicer", s, "payload bits differ", c, more); ok = 0;
                        } else for (int k = nb; k < 72; k++) if (buf[k] != CANARY) { report("vbi3_bit_slicer", s, "bytes behind the payload written", c, ""); ok = 0; break; }
                }
                vbi3_bit_slicer_delete(bs);
        }
        /* old */
        {
                vbi_bit_slicer obs; memset(&obs, 0, sizeof obs);
                memset(buf, CANARY, sizeof buf);
                vbi_bit_slicer_init(&obs, spl, rate, p->cri_rate, p->bit_rate, p->cri_frc, p->cri_frc_mask >> p->frc_bits, p->cri_bits, p->frc_bits, p->payload, p->modulation, fmt);
                vbi_bool r = vbi_bit_slice(&obs, (uint8_t *) line, buf);
                evals++;
                if (!t) {
                        if (r) { report("vbi_bit_slice", s, "blank line decoded", c, ""); ok = 0; }
                } else if (!r) { snprintf(more, sizeof more, "line %u", t->line); report("vbi_bit_slice", s, "line not decoded", c, more); ok = 0; }
                else if (memcmp(buf, t->data, nb)) {
                        vbi_sliced o; memcpy(o.data, buf, 56);
                        snprintf(more, sizeof more, "line %u: first wrong payload bit %d of %d", t->line, first_wrong_bit(t, &o), s->pbits);
                        report("vbi_bit_slice", s, "payload bits differ", c, more); ok = 0;
                } else for (int k = nb; k < 72; k++) if (buf[k] != CANARY) { report("vbi_bit_slice", s, "bytes behind the payload written", c, ""); ok = 0; break; }
        }
        return ok;
}

static void setup(void);

/* ---- phase slicer-grid ---------------------------------------------------------- */

#define MAXRATES 8192
static int *rates[NWAVE]; static int nrates[NWAVE]; static int nedge[NWAVE], nuni[NWAVE];
static uint64_t grid_base[NWAVE + 1];

static int cmp_int(const void *a, const void *b) { int x = *(const int *) a, y = *(const int *) b; return (x > y) - (x < y); }
#define RATE_MAX 40000000
static const int STD_RATES[] = { 2000000, 3000000, 5000000, 6750000, 10000000, 12272727, 13500000, 14318180, 14750000, 17734475, 18000000, 20250000,
                                 24545454, 27000000, 28636363, 29500000, 35468950, 40000000 };
static void build_rates(void)
{
        for (int w = 0; w < NWAVE; w++) {
                const struct svc *s = &SV[WAVE[w]];
                int *r = malloc(MAXRATES * sizeof *r), n = 0, lo = min_rate(s);
                /* uniform grid */
                int ustep = thorough ? 25000 : 250000;
                for (long x = lo; x <= RATE_MAX; x += ustep) if (n < MAXRATES - 64) r[n++] = (int) x;
                nuni[w] = n;
                /* both edges of constant slicer step: step = floor(rate * 256 / bit_rate) */
                long br = (long) floor(s->bit_rate + .5);
                long k0 = (long) ceil(lo * 256.0 / br), k1 = (long)(RATE_MAX * 256.0 / br);
                long target = thorough ? 1500 : 160, stride = (k1 - k0) / target; if (stride < 1) stride = 1;
                if (stride % 2 == 0) stride++;          /* visit odd and even step values */
                int n0 = n;
                for (long k = k0; k <= k1 && n < MAXRATES - 32; k += stride) {
                        long rl = (k * br + 255) / 256, rh = ((k + 1) * br + 255) / 256 - 1;
                        if (rl >= lo && rl <= RATE_MAX) r[n++] = (int) rl;
                        if (rh >= lo && rh <= RATE_MAX) r[n++] = (int) rh;
                }
                nedge[w] = n - n0;
                for (unsigned i = 0; i < sizeof STD_RATES / sizeof *STD_RATES; i++) if (STD_RATES[i] >= lo) r[n++] = STD_RATES[i];
                qsort(r, n, sizeof *r, cmp_int);
                int m = 0; for (int i = 0; i < n; i++) if (!m || r[i] != r[m - 1]) r[m++] = r[i];
                rates[w] = r; nrates[w] = m;
                grid_base[w + 1] = grid_base[w] + m;
        }
}

struct geo { int spl, off; const char *what; };
/* samples_per_line x offset lattice for one (service, rate): {minimum, +1, +7, first multiple of 720,
 * 2048, one whole line period} x {earliest, middle, latest offset keeping the signal inside} */
static int build_geo(const struct svc *s, int rate, int bppx, struct geo *g)
{
        int n = 0;
        double H = line_period(s->scanning);
        int splmin = (int) ceil((s->te - s->ts) * rate) + 1;
        int splmax = (int) floor(H * rate);
        int cand[8], nc = 0;
        cand[nc++] = splmin; cand[nc++] = splmin + 1; cand[nc++] = splmin + 7;
        for (int k = 720; k <= splmax; k += 720) if (k >= splmin) { cand[nc++] = k; break; }
        if (2048 >= splmin && 2048 <= splmax) cand[nc++] = 2048;
        cand[nc++] = splmax;
        for (int i = 0; i < nc; i++) {
                int spl = cand[i];
                if (bppx) spl = (spl + 1) & ~1;          /* two-pixel macro formats need an even count */
                if (spl > splmax || spl > 32767) continue;
                int dup = 0; for (int j = 0; j < n; j++) if (g[j].spl == spl) dup = 1;
                if (dup) continue;
                int omin = (int) ceil(s->te * rate) - spl; if (omin < 0) omin = 0;
                int omax = (int) floor(s->ts * rate);
                if (omax + spl > splmax) omax = splmax - spl;   /* the line ends within the line period */
                if (omin > omax) continue;
                int o3[3] = { omin, (omin + omax) / 2, omax };
                static const char *nm[3] = { "earliest", "middle", "latest" };
                for (int k = 0; k < 3; k++) {
                        if (k && o3[k] == o3[k - 1]) continue;
                        g[n].spl = spl; g[n].off = o3[k]; g[n].what = nm[k]; n++;
                }
        }
        return n;
}

struct grid_exp { struct frame *f; int lines_known; int row0, nrow; };
static int grid_expect(void *arg, unsigned granted, struct expect *e)
{
        struct grid_exp *x = arg; int n = 0;
        for (int i = 0; i < x->f->ntx; i++) {
                const struct tx *t = &x->f->tx[i];
                if (!(granted & t->s->merge)) continue;
                e[n].t = t; e[n].line = x->lines_known ? t->line : 0; n++;
        }
        return n;
}

static int fmt_sel_grid(int ri, const vbi_pixfmt **list)
{
        /* every rate: YUV420 with VBI levels (handled by the caller); every 4th rate index the extra formats */
        if (thorough) { *list = FMT_ALL; return (ri % 4 == 0) ? NFMT_ALL : ((ri % 4 == 2) ? 5 : 0); }
        *list = FMT_QUICK; return (ri % 4 == 0) ? NFMT_QUICK : 0;
}

static void grid_one(const struct svc *s, int rate, vbi_pixfmt fmt, int video_levels, int geo_stride, int geo_phase)
{
        struct geo g[24]; char extra[96];
        int bppx = (fmt >= VBI_PIXFMT_YUYV && fmt <= VBI_PIXFMT_VYUY);
        int ng = build_geo(s, rate, bppx, g);
        for (int gi = geo_phase % geo_stride; gi < ng; gi += geo_stride) {
                struct frame f; memset(&f, 0, sizeof f);
                struct ctx c = { "slicer-grid", rate, g[gi].spl, g[gi].off, fmt, 0, 1, 0, extra, video_levels };
                snprintf(extra, sizeof extra, "levels=%s offset=%s", video_levels ? "video" : "vbi", g[gi].what);
                CASE("slicer-grid", "svc=%s rate=%d spl=%d off=%d fmt=%s", s->name, rate, g[gi].spl, g[gi].off, fmt_name(fmt));
                sp_init(&f.gsp, s->scanning, fmt, rate, g[gi].spl, g[gi].off);
                int f2 = s->first[1] && s->first[0];                 /* service lives on both fields: both must be sampled */
                int only2 = !s->first[0];
                int fld = only2 ? 1 : 0;
                int base0 = s->scanning == 625 ? 6 : 10, base1 = s->scanning == 625 ? 318 : 272;
                /* one blank row before and after the payload rows */
                f.gsp.start[fld] = fld ? base1 : base0; f.gsp.count[fld] = npay + 2;
                if (f2) { f.gsp.start[1] = base1; f.gsp.count[1] = 2; }
                for (int pi = 0; pi < npay; pi++) frame_add(&f, s, s->id, fld, f.gsp.start[fld] + 1 + pi, pi);
                if (f2) frame_add(&f, s, s->id, 1, base1 + 1, (rate / 1000) % npay);
                if (!frame_render(&f, video_levels)) { report("harness", s, "generator refused the frame", &c, ""); frame_free(&f); continue; }
                CNT("frames", 1);
                int bpl = f.gsp.bytes_per_line;
                if (!s->need_line) {
                        /* whole image, line numbers unknown to the decoder: every row is searched */
                        vbi_sampling_par d = f.gsp; d.start[0] = 0; d.start[1] = 0;
                        struct grid_exp x = { &f, 0, 0, 0 };
                        run_raw_decoders(&c, &d, f.raw, s->id, s->id, grid_expect, &x, d.count[0] + d.count[1], NULL);
                } else {
                        /* the service needs its line number: each row is presented as a one line image on the service's line */
                        struct frame f1 = f; vbi_sampling_par d = f.gsp;
                        d.start[fld] = s->first[fld]; d.count[fld] = 1; d.start[!fld] = 0; d.count[!fld] = 0;
                        for (int row = 0; row < f.gsp.count[fld]; row++) {
                                struct tx t1; f1.ntx = 0;
                                if (row >= 1 && row <= npay) { t1 = f.tx[row - 1]; t1.line = s->first[fld]; f1.tx[0] = t1; f1.ntx = 1; }
                                struct grid_exp x = { &f1, 1, 0, 0 };
                                if (!run_raw_decoders(&c, &d, f.raw + (size_t) row * bpl, s->id, s->id, grid_expect, &x, 1, NULL)) break;
                        }
                }
                /* bare bit slicers, fresh per row */
                for (int row = 0; row < f.gsp.count[fld]; row++) {
                        const struct tx *t = (row >= 1 && row <= npay) ? &f.tx[row - 1] : NULL;
                        if (!run_bit_slicers(&c, s, fmt, rate, g[gi].spl, f.raw + (size_t) row * bpl, t)) break;
                }
                frame_free(&f);
        }
}

static void grid_case(uint64_t idx, void *arg)
{
        int w = 0; while (idx >= grid_base[w + 1]) w++;
        int ri = (int)(idx - grid_base[w]); int rate = rates[w][ri];
        const struct svc *s = &SV[WAVE[w]];
        evals = 0;
        grid_one(s, rate, VBI_PIXFMT_YUV420, 0, 1, 0);
        const vbi_pixfmt *fl; int nf = fmt_sel_grid(ri, &fl);
        for (int i = 0; i < nf; i++) grid_one(s, rate, fl[i], 1, thorough ? 2 : 3, ri / 4 + i);
        CNT("evaluations", evals);
        DISTINCT(((uint64_t) 1 << 56) | ((uint64_t) w << 40) | (uint64_t) rate);
        if (ri == 0 || rate == 27000000) SAMPLE("slicer-grid %s rate=%d Hz (%.3f samples per bit): %d payloads per frame, %d extra formats", s->name, rate, rate / s->clock, npay, nf);
        (void) arg;
}


/* ---- phase layout ------------------------------------------------------------------ */

struct sset { int scanning; unsigned ids[6]; };
static const struct sset SETS[] = {
        { 625, { VBI_SLICED_TELETEXT_A } }, { 625, { VBI_SLICED_TELETEXT_B_L10_625 } }, { 625, { VBI_SLICED_TELETEXT_B } },
        { 625, { VBI_SLICED_TELETEXT_C_625 } }, { 625, { VBI_SLICED_TELETEXT_D_625 } },
        { 625, { VBI_SLICED_VPS } }, { 625, { VBI_SLICED_VPS_F2 } }, { 625, { VBI_SLICED_VPS, VBI_SLICED_VPS_F2 } },
        { 625, { VBI_SLICED_WSS_625 } }, { 625, { VBI_SLICED_CAPTION_625_F1 } }, { 625, { VBI_SLICED_CAPTION_625_F2 } },
        { 625, { VBI_SLICED_CAPTION_625_F1, VBI_SLICED_CAPTION_625_F2 } },
        { 625, { VBI_SLICED_TELETEXT_B, VBI_SLICED_VPS, VBI_SLICED_WSS_625, VBI_SLICED_CAPTION_625_F1, VBI_SLICED_CAPTION_625_F2 } },
        { 625, { VBI_SLICED_TELETEXT_B_L10_625, VBI_SLICED_VPS_F2, VBI_SLICED_CAPTION_625_F1 } },
        { 625, { VBI_SLICED_TELETEXT_A, VBI_SLICED_VPS, VBI_SLICED_VPS_F2, VBI_SLICED_WSS_625, VBI_SLICED_CAPTION_625_F1, VBI_SLICED_CAPTION_625_F2 } },
        { 625, { VBI_SLICED_TELETEXT_D_625, VBI_SLICED_WSS_625, VBI_SLICED_CAPTION_625_F2 } },
        { 525, { VBI_SLICED_TELETEXT_B_525 } }, { 525, { VBI_SLICED_TELETEXT_C_525 } }, { 525, { VBI_SLICED_TELETEXT_D_525 } },
        { 525, { VBI_SLICED_CAPTION_525_F1 } }, { 525, { VBI_SLICED_CAPTION_525_F2 } }, { 525, { VBI_SLICED_CAPTION_525_F1, VBI_SLICED_CAPTION_525_F2 } },
        { 525, { VBI_SLICED_TELETEXT_B_525, VBI_SLICED_CAPTION_525_F1, VBI_SLICED_CAPTION_525_F2 } },
        { 525, { VBI_SLICED_TELETEXT_C_525, VBI_SLICED_CAPTION_525_F1 } }, { 525, { VBI_SLICED_TELETEXT_D_525, VBI_SLICED_CAPTION_525_F2 } },
};
#define NSETS ((int)(sizeof SETS / sizeof *SETS))
#define NLAYOUT 5
static const char *layout_name[NLAYOUT] = { "full VBI", "exact span", "field 1 only", "field 2 only", "partial range" };
static const struct { int rate, spl, off; } LRATE[3] = { { 13500000, 720, 130 }, { 27000000, 1440, 262 }, { 35468950, 2048, 344 } };

static int set_services(const struct sset *ss, const struct svc **sv, unsigned *mask)
{
        int n = 0; *mask = 0;
        for (int i = 0; i < 6 && ss->ids[i]; i++) { sv[n++] = svc_by_id(ss->ids[i]); *mask |= ss->ids[i]; }
        return n;
}
static int layout_lines(const struct sset *ss, int layout, int st[2], int cn[2])
{
        const struct svc *sv[6]; unsigned m; int n = set_services(ss, sv, &m);
        int s625 = ss->scanning == 625;
        switch (layout) {
        case 0: st[0] = s625 ? 6 : 10; cn[0] = s625 ? 18 : 13; st[1] = s625 ? 318 : 272; cn[1] = s625 ? 18 : 13; break;
        case 1:
                for (int f = 0; f < 2; f++) {
                        int lo = 0, hi = 0;
                        for (int i = 0; i < n; i++) if (sv[i]->first[f]) { if (!lo || sv[i]->first[f] < lo) lo = sv[i]->first[f]; if (sv[i]->last[f] > hi) hi = sv[i]->last[f]; }
                        st[f] = lo; cn[f] = lo ? hi - lo + 1 : 0;
                }
                break;
        case 2: st[0] = s625 ? 6 : 10; cn[0] = s625 ? 18 : 13; st[1] = 0; cn[1] = 0; break;
        case 3: st[0] = 0; cn[0] = 0; st[1] = s625 ? 318 : 272; cn[1] = s625 ? 18 : 13; break;
        case 4: st[0] = s625 ? 10 : 12; cn[0] = s625 ? 8 : 6; st[1] = s625 ? 322 : 275; cn[1] = s625 ? 8 : 6; break;
        }
        return cn[0] + cn[1] > 0;
}
static int legal_on(const struct svc *v, int f, int line) { return v->first[f] && line >= v->first[f] && line <= v->last[f]; }

static int must_grant(const struct svc *v, const vbi_sampling_par *d, int spl, int strict)
{
        if (d->sampling_rate < min_rate(v)) return 0;
        if (spl / (double) d->sampling_rate < (v->te - v->ts) + (strict > 0 ? 1e-6 : 0) + 2.0 / d->sampling_rate) return 0;
        if (v->need_sync && !d->synchronous) return 0;
        for (int f = 0; f < 2; f++) {
                if (!v->first[f]) continue;
                if (!d->count[f]) return 0;
                if (v->need_line && !d->start[f]) return 0;
                if (strict > 0 && d->start[f] && (d->start[f] > v->first[f] || d->start[f] + d->count[f] - 1 < v->last[f])) return 0;
        }
        return 1;
}

struct lay_exp { struct frame *f; const vbi_sampling_par *d; };
static int lay_expect(void *arg, unsigned granted, struct expect *e)
{
        struct lay_exp *x = arg; int n = 0;
        for (int i = 0; i < x->f->ntx; i++) {
                const struct tx *t = &x->f->tx[i]; int cov = 0;
                for (int k = 0; k < NSV && !cov; k++) {
                        const struct svc *v = &SV[k];
                        if (v->merge != t->s->merge || (v->id & granted) != v->id || !v->first[t->field]) continue;
                        if (!x->d->synchronous || !x->d->start[t->field] || legal_on(v, t->field, t->line)) cov = 1;
                }
                if (!cov) return -1;
                e[n].t = t; e[n].line = (x->d->synchronous && x->d->start[t->field]) ? t->line : 0; n++;
        }
        return n;
}

static const char *pat_name[4] = { "every legal line", "every other line", "no line", "first and last line" };

static void layout_case(uint64_t idx, void *arg)
{
        int set = (int)(idx / NLAYOUT), layout = (int)(idx % NLAYOUT);
        const struct sset *ss = &SETS[set];
        const struct svc *sv[6]; unsigned req; int nsv = set_services(ss, sv, &req);
        int st[2], cn[2]; char extra[200];
        evals = 0;
        if (!layout_lines(ss, layout, st, cn)) return;
        int nr = thorough ? 3 : 2; uint64_t frames = 0;
        for (int ri = 0; ri < nr; ri++)
        for (int il = 0; il < 2; il++) {
                if (il && cn[0] != cn[1]) continue;
                for (int pat = 0; pat < 4; pat++) {
                        /* which format besides YUV420/VBI levels: rotates over all formats */
                        for (int fv = 0; fv < 2; fv++) {
                                vbi_pixfmt fmt = fv ? FMT_ALL[1 + (set * 7 + layout * 3 + ri * 5 + il * 11 + pat) % (NFMT_ALL - 1)] : VBI_PIXFMT_YUV420;
                                if (fv && !thorough && (pat == 2 || pat == 3)) continue;
                                struct frame f; memset(&f, 0, sizeof f);
                                sp_init(&f.gsp, ss->scanning, fmt, LRATE[ri].rate, LRATE[ri].spl, LRATE[ri].off);
                                f.gsp.start[0] = st[0]; f.gsp.count[0] = cn[0]; f.gsp.start[1] = st[1]; f.gsp.count[1] = cn[1]; f.gsp.interlaced = il;
                                /* line assignment: single line services on their line, Teletext elsewhere */
                                int cand = 0;
                                for (int fld = 0; fld < 2; fld++) for (int l = st[fld]; l < st[fld] + cn[fld]; l++) {
                                        const struct svc *pick = NULL;
                                        for (int i = 0; i < nsv; i++) if (legal_on(sv[i], fld, l) && (!pick || (pick->kind == K_TTX && sv[i]->kind != K_TTX))) pick = sv[i];
                                        if (!pick) continue;
                                        cand++;
                                        if (pat == 1 && (cand & 1)) continue;
                                        if (pat == 2) continue;
                                        frame_add(&f, pick, pick->id, fld, l, (cand * 5 + set + pat) % npay);
                                }
                                if (pat == 3 && f.ntx > 2) { f.tx[1] = f.tx[f.ntx - 1]; f.ntx = 2; }
                                if (!frame_render(&f, fv)) { struct ctx c0 = { "layout", LRATE[ri].rate, LRATE[ri].spl, LRATE[ri].off, fmt, il, 1, 0, "" }; report("harness", NULL, "generator refused the frame", &c0, ""); frame_free(&f); continue; }
                                frames++;
                                for (int sync = 1; sync >= 0; sync--)
                                for (int known = 3; known >= 0; known--)
                                for (int strict = 0; strict < 3; strict++) {
                                        vbi_sampling_par d = f.gsp; d.synchronous = sync;
                                        if (!(known & 1)) d.start[0] = 0;
                                        if (!(known & 2)) d.start[1] = 0;
                                        if (!sync && known != 3 && known != 0) continue;
                                        struct ctx c = { "layout", LRATE[ri].rate, LRATE[ri].spl, LRATE[ri].off, fmt, il, sync, strict, extra, fv };
                                        snprintf(extra, sizeof extra, "set=%d(%#x) layout=%s lines=%d+%d/%d+%d known=%d pattern=%s levels=%s", set, req, layout_name[layout], st[0], cn[0], st[1], cn[1], known, pat_name[pat], fv ? "video" : "vbi");
                                        CASE("layout", "%s strict=%d sync=%d il=%d fmt=%s rate=%d", extra, strict, sync, il, fmt_name(fmt), LRATE[ri].rate);
                                        unsigned must = 0;
                                        for (int i = 0; i < nsv; i++) if (must_grant(sv[i], &d, LRATE[ri].spl, strict)) must |= sv[i]->id;
                                        struct lay_exp x = { &f, &d }; unsigned g = 0;
                                        run_raw_decoders(&c, &d, f.raw, req, must, lay_expect, &x, cn[0] + cn[1], &g);
                                        if (g) OUTCOME(sync ? (known == 3 ? "decoded, line numbers known" : "decoded, line numbers (partly) unknown") : "decoded, field order unknown");
                                }
                                frame_free(&f);
                        }
                }
        }
        CNT("frames", frames); CNT("evaluations", evals);
        DISTINCT(((uint64_t) 2 << 56) | idx);
        if (idx == 12 * NLAYOUT || idx == 22 * NLAYOUT) SAMPLE("layout set=%d (%#x) %s: lines %d+%d / %d+%d, x interlaced x 4 patterns x sync x known/unknown line numbers x strict 0..2 x %d rates", set, req, layout_name[layout], st[0], cn[0], st[1], cn[1], nr);
        (void) arg;
}

/* ---- phase all-payloads: every Caption (2^16) and WSS (2^14) payload ------------- */

static const struct { int svi, rate; } APCFG[] = {
        { 8, 13500000 }, { 8, 27000000 }, { 13, 13500000 }, { 13, 27000000 }, { 7, 13500000 }, { 7, 27000000 },
        { 8, 3000000 }, { 13, 3000000 }, { 7, 10000000 }, { 8, 35468950 }, { 13, 28636363 }, { 7, 35468950 },
};
#define AP_CHUNK 1024
static void allpay_case(uint64_t idx, void *arg)
{
        int cfg = (int)(idx >> 6), chunk = (int)(idx & 63);
        const struct svc *s = &SV[APCFG[cfg].svi]; int rate = APCFG[cfg].rate;
        int total = 1 << s->pbits; int per = total / 64;
        int fld = 0; char extra[64];
        evals = 0;
        int spl = (int) floor(line_period(s->scanning) * rate) - (int)(8e-6 * rate), off = (int)(8e-6 * rate);
        const int ROWS = 64;
        for (int p0 = chunk * per; p0 < (chunk + 1) * per; p0 += ROWS) {
                struct frame f; memset(&f, 0, sizeof f);
                struct ctx c = { "all-payloads", rate, spl, off, VBI_PIXFMT_YUV420, 0, 1, 0, extra };
                snprintf(extra, sizeof extra, "payloads %#x..%#x", p0, p0 + ROWS - 1);
                CASE("all-payloads", "svc=%s rate=%d %s", s->name, rate, extra);
                sp_init(&f.gsp, s->scanning, VBI_PIXFMT_YUV420, rate, spl, off);
                f.gsp.start[0] = 30; f.gsp.count[0] = ROWS;
                for (int r = 0; r < ROWS; r++) {
                        struct tx *t = &f.tx[f.ntx++]; memset(t, 0, sizeof *t);
                        t->id = s->id; t->line = 30 + r; t->field = fld; t->s = s;
                        t->data[0] = (p0 + r) & 0xFF; t->data[1] = (p0 + r) >> 8;
                }
                if (!frame_render(&f, 0)) { report("harness", s, "generator refused the frame", &c, ""); frame_free(&f); continue; }
                vbi_sampling_par d = f.gsp; d.start[0] = s->first[0]; d.count[0] = 1;
                struct frame f1 = f;
                for (int r = 0; r < ROWS; r++) {
                        f1.tx[0] = f.tx[r]; f1.tx[0].line = s->first[0]; f1.ntx = 1;
                        struct grid_exp x = { &f1, 1, 0, 0 };
                        if (!run_raw_decoders(&c, &d, f.raw + (size_t) r * f.gsp.bytes_per_line, s->id, s->id, grid_expect, &x, 1, NULL)) break;
                        if (!run_bit_slicers(&c, s, VBI_PIXFMT_YUV420, rate, spl, f.raw + (size_t) r * f.gsp.bytes_per_line, &f.tx[r])) break;
                }
                frame_free(&f);
        }
        CNT("evaluations", evals);
        DISTINCT(((uint64_t) 3 << 56) | idx);
        if (chunk == 0) SAMPLE("all-payloads %s at %d Hz: all %d payloads through four entry points", s->name, rate, total);
        (void) arg;
}

static void setup(void)
{
        npay = (thorough ? 32 : 8) + 9;
        SV[1].merge = VBI_SLICED_TELETEXT_B;    /* level 1.0 and 2.5 lines are one waveform */
        build_rates();
}


#ifndef C04_ASAN_PASS
/* ---- phase history: E2 over {add S, remove S, decode} ------------------------------ */

static const unsigned HSVC[] = {
        VBI_SLICED_TELETEXT_B_L10_625, VBI_SLICED_TELETEXT_B_L25_625, VBI_SLICED_TELETEXT_B, VBI_SLICED_VPS, VBI_SLICED_VPS_F2,
        VBI_SLICED_WSS_625, VBI_SLICED_CAPTION_625_F1, VBI_SLICED_CAPTION_625_F2, VBI_SLICED_CAPTION_625,
};
#define NHSVC ((int)(sizeof HSVC / sizeof *HSVC))
#define NHLET (2 * NHSVC + 6)          /* add x9, remove x9, decode the frame with other services on two lines, reset, resize, change the field storage mode, decode a blank frame, decode the reference frame */
static const char *hsvc_name[] = { "B_L10", "B_L25", "B", "VPS", "VPS_F2", "WSS", "CC_F1", "CC_F2", "CC_625" };
static struct frame HF;         /* reference frame: every service on its own line */
static struct frame HFI, HBLI; /* both frames stored interlaced (letter "reconfigure": the same parameters with interlaced toggled) */
static struct frame HBL;        /* the same geometry, every line blank: no record, and the frames after it decode as before
                                   (the decoder predicts lines as blank and skips them for up to 15 frames) */
static struct frame HF2, HF21;  /* the reference frame with Teletext instead of VPS on lines 16 and 329 (full and short window): a scan line
                                   carries different services in different frames of one decoder (seed C04-12: the "try the found service
                                   first next time" reordering dropped the other candidate of the line for good) */
static struct frame HF1, HBL1;  /* letter "resize": the same transmissions in a window whose second field is 6 lines shorter (318..329);
                                   only count[1] differs, the field compared last by vbi_raw_decoder_resize() */

static const char *hist_letter(int l, void *arg)
{
        static char b[32]; (void) arg;
        if (l == NHLET - 1) return "decode";
        if (l == NHLET - 2) return "decode blank frame";
        if (l == NHLET - 3) return "set_sampling_par: sequential <-> interlaced";
        if (l == NHLET - 4) return "resize: second field 12 <-> 18 lines";
        if (l == NHLET - 5) return "reset";
        if (l == NHLET - 6) return "decode frame with Teletext on the VPS lines";
        snprintf(b, sizeof b, "%s %s", l < NHSVC ? "add" : "remove", hsvc_name[l % NHSVC]);
        return b;
}
static void hist_frame(void)
{
        memset(&HF, 0, sizeof HF);
        sp_init(&HF.gsp, 625, VBI_PIXFMT_YUV420, 27000000, 1440, 262);
        HF.gsp.start[0] = 6; HF.gsp.count[0] = 18; HF.gsp.start[1] = 318; HF.gsp.count[1] = 18;
        const struct svc *B = svc_by_id(VBI_SLICED_TELETEXT_B);
        int k = 0;
        for (int f = 0; f < 2; f++) for (int l = HF.gsp.start[f]; l < HF.gsp.start[f] + 18; l++, k++) {
                const struct svc *p = B;
                if (l == 16) p = svc_by_id(VBI_SLICED_VPS); else if (l == 329) p = svc_by_id(VBI_SLICED_VPS_F2);
                else if (l == 22) p = svc_by_id(VBI_SLICED_CAPTION_625_F1); else if (l == 335) p = svc_by_id(VBI_SLICED_CAPTION_625_F2);
                else if (l == 23) p = svc_by_id(VBI_SLICED_WSS_625);
                else if (l == 10 || l == 325) continue;         /* blank lines */
                frame_add(&HF, p, p->id, f, l, k % npay);
        }
        if (!frame_render(&HF, 0)) { fprintf(stderr, "C04: cannot render the history reference frame\n"); exit(2); }
        memset(&HBL, 0, sizeof HBL); HBL.gsp = HF.gsp;
        if (!frame_render(&HBL, 0)) { fprintf(stderr, "C04: cannot render the blank history frame\n"); exit(2); }
        HFI = HF; HFI.raw = NULL; HFI.gsp.interlaced = TRUE; HBLI = HBL; HBLI.raw = NULL; HBLI.gsp.interlaced = TRUE;
        if (!frame_render(&HFI, 0) || !frame_render(&HBLI, 0)) { fprintf(stderr, "C04: cannot render the interlaced history frames\n"); exit(2); }
        memset(&HF2, 0, sizeof HF2); HF2.gsp = HF.gsp;
        for (int i = 0; i < HF.ntx; i++) {
                HF2.tx[HF2.ntx] = HF.tx[i];
                if (HF.tx[i].line == 16 || HF.tx[i].line == 329) { HF2.tx[HF2.ntx].s = B; HF2.tx[HF2.ntx].id = B->id; }
                HF2.ntx++;
        }
        if (!frame_render(&HF2, 0)) { fprintf(stderr, "C04: cannot render the second history frame\n"); exit(2); }
        memset(&HF21, 0, sizeof HF21); HF21.gsp = HF.gsp; HF21.gsp.count[1] = 12;
        for (int i = 0; i < HF2.ntx; i++) if (HF2.tx[i].field == 0 || HF2.tx[i].line < 318 + 12) HF21.tx[HF21.ntx++] = HF2.tx[i];
        if (!frame_render(&HF21, 0)) { fprintf(stderr, "C04: cannot render the second short history frame\n"); exit(2); }
        memset(&HF1, 0, sizeof HF1); HF1.gsp = HF.gsp; HF1.gsp.count[1] = 12;
        for (int i = 0; i < HF.ntx; i++) if (HF.tx[i].field == 0 || HF.tx[i].line < 318 + 12) HF1.tx[HF1.ntx++] = HF.tx[i];
        memset(&HBL1, 0, sizeof HBL1); HBL1.gsp = HF1.gsp;
        if (!frame_render(&HF1, 0) || !frame_render(&HBL1, 0)) { fprintf(stderr, "C04: cannot render the resized history frames\n"); exit(2); }
}
struct hist_exp { unsigned eff; const struct frame *fr; };
static int hist_expect(void *arg, unsigned granted, struct expect *e)
{
        struct hist_exp *x = arg; int n = 0; (void) granted;
        const struct frame *fr = x->fr ? x->fr : &HF;
        for (int i = 0; i < fr->ntx; i++) {
                const struct tx *t = &fr->tx[i]; int cov = 0;
                for (int k = 0; k < NSV && !cov; k++) {
                        const struct svc *v = &SV[k];
                        int asked = (v->id & x->eff) == v->id || (v->id == VBI_SLICED_TELETEXT_B && (x->eff & VBI_SLICED_TELETEXT_B_L25_625));
                        if (v->merge == t->s->merge && asked && legal_on(v, t->field, t->line)) cov = 1;
                }
                if (cov) { e[n].t = t; e[n].line = t->line; n++; }
        }
        return n;
}
static int hist_run(const uint8_t *h, int n, uint64_t hash[2], void *arg)
{
        int legacy = arg != NULL;
        char hs[400] = ""; struct ctx c = { "history", 27000000, 1440, 262, VBI_PIXFMT_YUV420, 0, 1, 0, hs };
        const char *entry = legacy ? "vbi_raw_decode after add/remove history" : "vbi3_raw_decoder after add/remove history";
        vbi_raw_decoder lrd; vbi3_raw_decoder *rd;
        unsigned want = 0, G = 0; int bad = 0, il = 0, small = 1;     /* histories start in the short window: a resize that is lost leaves lines 330..335 undecoded */
        for (int i = 0; i < n; i++) { strncat(hs, hist_letter(h[i], NULL), sizeof hs - strlen(hs) - 3); strcat(hs, "; "); }
        mc_case(entry, "history: %s", hs);
        if (legacy) {
                vbi_raw_decoder_init(&lrd);
                lrd.scanning = 625; lrd.sampling_format = VBI_PIXFMT_YUV420; lrd.sampling_rate = HF.gsp.sampling_rate; lrd.bytes_per_line = HF.gsp.bytes_per_line; lrd.offset = HF.gsp.offset;
                lrd.start[0] = 6; lrd.count[0] = 18; lrd.start[1] = 318; lrd.count[1] = 12; lrd.interlaced = 0; lrd.synchronous = 1;
                rd = (vbi3_raw_decoder *) lrd.pattern;
        } else rd = vbi3_raw_decoder_new(&HF1.gsp);
        vbi_sliced *out = out_alloc(39);
        for (int i = 0; i <= n && !bad; i++) {
                int l = i < n ? h[i] : NHLET - 1;         /* every history ends with the audit decode */
                if (l < NHSVC) {
                        unsigned S = HSVC[l];
                        G = legacy ? vbi_raw_decoder_add_services(&lrd, S, 0) : vbi3_raw_decoder_add_services(rd, S, 0);
                        /* the return value tells the caller what is decoded now: asking for one Teletext B level yields both */
                        want |= S | (G & ((S & VBI_SLICED_TELETEXT_B) ? VBI_SLICED_TELETEXT_B : 0));
                }
                else if (l < 2 * NHSVC) {
                        want &= ~HSVC[l - NHSVC];
                        G = legacy ? vbi_raw_decoder_remove_services(&lrd, HSVC[l - NHSVC]) : vbi3_raw_decoder_remove_services(rd, HSVC[l - NHSVC]);
                        if (want & VBI_SLICED_TELETEXT_B) want |= G & VBI_SLICED_TELETEXT_B;      /* while a B level is wanted, the levels reported as decoded are what the caller gets */
                }
                else if (l == NHLET - 6) {
                        if (il) continue;               /* rendered for sequential storage only */
                        unsigned clo = want | ((want & VBI_SLICED_TELETEXT_B) ? VBI_SLICED_TELETEXT_B : 0);
                        struct hist_exp x = { G & want, small ? &HF21 : &HF2 }; struct expect e[MAXROWS];
                        int ne = hist_expect(&x, 0, e);
                        memset(out, CANARY, 39 * sizeof *out);
                        const uint8_t *img = small ? HF21.raw : HF2.raw;
                        unsigned cnt = legacy ? (unsigned) vbi_raw_decode(&lrd, (uint8_t *) img, out) : vbi3_raw_decoder_decode(rd, out, 36, img);
                        if (!check_records(entry, &c, e, ne, out, cnt, 39, clo)) bad = 1;
                        mc_count("evaluations", 1);
                        continue;
                }
                else if (l == NHLET - 5) {
                        /* all services are dropped, the parameters stay; what is added afterwards is decoded as on a new decoder
                         * (seed C04-10: a job slot reused after the reset kept the id of its previous service) */
                        if (legacy) { vbi_raw_decoder_reset(&lrd); rd = (vbi3_raw_decoder *) lrd.pattern; } else vbi3_raw_decoder_reset(rd);
                        want = 0; G = vbi3_raw_decoder_services(rd);
                        if (G) { report(entry, NULL, "services left after a reset", &c, ""); bad = 1; }
                }
                else if (l == NHLET - 4) {
                        /* the window changes (0.2: vbi_raw_decoder_resize(), documented to keep the services; vbi3: set_sampling_par).
                         * Unequal field counts cannot be stored interlaced: the letter does nothing then. */
                        if (il) continue;
                        small ^= 1;
                        if (legacy) {
                                int st[2] = { 6, 318 }; unsigned ct[2] = { 18, small ? 12 : 18 };
                                vbi_raw_decoder_resize(&lrd, st, ct);
                                rd = (vbi3_raw_decoder *) lrd.pattern;
                                G = vbi3_raw_decoder_services(rd);
                        } else {
                                G = vbi3_raw_decoder_set_sampling_par(rd, small ? &HF1.gsp : &HF.gsp, 0);
                        }
                }
                else if (l == NHLET - 3) {
                        if (small) continue;             /* see above */
                        /* only the field storage mode changes; the services stay (vbi3: re-added by the call; 0.2: reset drops them, the caller adds them again) */
                        il ^= 1;
                        if (legacy) {
                                vbi_raw_decoder_reset(&lrd); lrd.interlaced = il;
                                G = want ? vbi_raw_decoder_add_services(&lrd, want, 0) : 0;
                                rd = (vbi3_raw_decoder *) lrd.pattern;
                        } else {
                                vbi_sampling_par sp2 = HF.gsp; sp2.interlaced = il;
                                G = vbi3_raw_decoder_set_sampling_par(rd, &sp2, 0);
                        }
                        c.interlaced = il;
                }
                else if (l == NHLET - 2) {
                        memset(out, CANARY, 39 * sizeof *out);
                        const uint8_t *img = small ? HBL1.raw : il ? HBLI.raw : HBL.raw;
                        unsigned cnt = legacy ? (unsigned) vbi_raw_decode(&lrd, (uint8_t *) img, out) : vbi3_raw_decoder_decode(rd, out, 36, img);
                        if (!check_records(entry, &c, NULL, 0, out, cnt, 39, want)) bad = 1;
                        mc_count("evaluations", 1);
                        continue;
                }
                else {
                        unsigned clo = want | ((want & VBI_SLICED_TELETEXT_B) ? VBI_SLICED_TELETEXT_B : 0);      /* Teletext B records carry the merged id */
                        struct hist_exp x = { G & want, small ? &HF1 : &HF }; struct expect e[MAXROWS];
                        int ne = hist_expect(&x, 0, e);
                        memset(out, CANARY, 39 * sizeof *out);
                        const uint8_t *img = small ? HF1.raw : il ? HFI.raw : HF.raw;
                        unsigned cnt = legacy ? (unsigned) vbi_raw_decode(&lrd, (uint8_t *) img, out) : vbi3_raw_decoder_decode(rd, out, 36, img);
                        if (!check_records(entry, &c, e, ne, out, cnt, 39, clo)) bad = 1;
                        mc_count("evaluations", 1);
                        continue;
                }
                if (want & ~G) {
                        char more[96]; snprintf(more, sizeof more, "after step %d: asked for %#x, decoder set %#x", i, want, G);
                        report(entry, svc_by_id((want & ~G) & -(want & ~G)), "requested service dropped from the decoder's set", &c, more); bad = 1;
                }
                if (G != (legacy ? vbi3_raw_decoder_services(rd) : vbi3_raw_decoder_services(rd))) { report(entry, NULL, "return value differs from services()", &c, ""); bad = 1; }
        }
        /* canonical state: what determines future decoding - service set, jobs, per line job pattern.
         * (slicer thresholds adapt continuously and are left out.) */
        mc_hash hh; mc_hash_init(&hh);
        mc_hash_u64(&hh, rd->services); mc_hash_u64(&hh, rd->n_jobs); mc_hash_u64(&hh, want); mc_hash_u64(&hh, (unsigned) rd->readjust); mc_hash_u64(&hh, il * 2 + rd->sampling.interlaced + small * 4 + rd->sampling.count[1] * 8);
        for (unsigned j = 0; j < rd->n_jobs; j++) mc_hash_u64(&hh, rd->jobs[j].id);
        if (rd->pattern) mc_hash_add(&hh, rd->pattern, 36 * _VBI3_RAW_DECODER_MAX_WAYS);
        hash[0] = hh.a; hash[1] = hh.b;
        free(out);
        if (legacy) vbi_raw_decoder_destroy(&lrd); else vbi3_raw_decoder_delete(rd);
        return bad;
}
#endif


/* ---- phase asan-pass ------------------------------------------------------------------ */
#ifdef C04_ASAN_PASS
static void on_abort(int sig) { (void) sig; if (cur_case[0]) { ssize_t r = write(1, cur_case, strlen(cur_case)); (void) r; } signal(SIGABRT, SIG_DFL); }
int main(int argc, char **argv)
{
        if (argc < 5) { fprintf(stderr, "usage: C04_asan <thorough 0|1> <grid|layout> <first> <last+1> [stride]\n"); return 2; }
        thorough = atoi(argv[1]);
        setup();
        signal(SIGABRT, on_abort);
        uint64_t lo = strtoull(argv[3], NULL, 10), hi = strtoull(argv[4], NULL, 10), st = argc > 5 ? strtoull(argv[5], NULL, 10) : 1;
        for (uint64_t i = lo; i < hi; i += st) {
                if (!strcmp(argv[2], "grid")) { if (i < grid_base[NWAVE]) grid_case(i, NULL); }
                else if (i < (uint64_t) NSETS * NLAYOUT) layout_case(i, NULL);
        }
        cur_case[0] = 0;
        printf("C04-EVALS: %llu\n", n_eval);
        return 0;
}
#else
#define ASAN_GRID_CHUNK 64
static int asan_grid_stride;
static void asan_case(uint64_t idx, void *arg)
{
        int is_layout = arg != NULL;
        char bin[600], log[600], a1[8], a3[32], a4[32], a5[16];
        const char *b = getenv("VERIF_BUILD"); if (!b) b = "build";
        snprintf(bin, sizeof bin, "%s/bin/C04_asan", b);
        snprintf(log, sizeof log, "%s/run/C04/asan.%s.%llu.log", b, is_layout ? "layout" : "grid", (unsigned long long) idx);
        snprintf(a1, sizeof a1, "%d", thorough);
        if (is_layout) { snprintf(a3, sizeof a3, "%llu", (unsigned long long) idx); snprintf(a4, sizeof a4, "%llu", (unsigned long long) idx + 1); snprintf(a5, sizeof a5, "1"); }
        else { snprintf(a3, sizeof a3, "%llu", (unsigned long long) idx * ASAN_GRID_CHUNK); snprintf(a4, sizeof a4, "%llu", (unsigned long long)(idx + 1) * ASAN_GRID_CHUNK); snprintf(a5, sizeof a5, "%d", asan_grid_stride); }
        mc_case("asan pass", "%s %s..%s stride %s", is_layout ? "layout" : "grid", a3, a4, a5);
        pid_t pid = fork();
        if (pid == 0) {
                int fd = open(log, O_WRONLY | O_CREAT | O_TRUNC, 0666);
                dup2(fd, 2); dup2(fd, 1);
                alarm(900);
                execl(bin, bin, a1, is_layout ? "layout" : "grid", a3, a4, a5, (char *) NULL);
                _exit(127);
        }
        int st; waitpid(pid, &st, 0);
        if (WIFEXITED(st) && WEXITSTATUS(st) == 127) { fprintf(stderr, "cannot exec %s\n", bin); _exit(42); }
        FILE *f = fopen(log, "r"); char line[2048], kind[80] = "abnormal exit", fn[80] = "?", ccase[600] = ""; unsigned long long ev = 0; int have_fn = 0;
        while (f && fgets(line, sizeof line, f)) {
                char *q;
                line[strcspn(line, "\n")] = 0;
                if (!strncmp(line, "C04-FAULT: ", 11) && (q = strstr(line, " | "))) { *q = 0; mc_violation(line + 11, "[asan pass] %s", q + 3); }
                if (!strncmp(line, "C04-EVALS: ", 11)) ev = strtoull(line + 11, NULL, 10);
                if (!strncmp(line, "C04-CASE: ", 10)) snprintf(ccase, sizeof ccase, "%s", line + 10);
                if ((q = strstr(line, "ERROR: AddressSanitizer: ")) && !strcmp(kind, "abnormal exit")) sscanf(q + 25, "%79[^ \n]", kind);
                int fno; char fname[80], fpath[400];
                if (!have_fn && sscanf(line, " #%d %*s in %79s %399s", &fno, fname, fpath) == 3 && strstr(fpath, "/src/") && !strstr(fpath, "/verif/")) { strcpy(fn, fname); have_fn = 1; }
        }
        if (f) fclose(f);
        mc_count("asan_pass_evaluations", ev);
        if (WIFEXITED(st) && WEXITSTATUS(st) == 0) { unlink(log); return; }
        char key[300];
        if (WIFSIGNALED(st) && WTERMSIG(st) == SIGALRM) snprintf(key, sizeof key, "asan pass: decoder hangs");
        else snprintf(key, sizeof key, "asan pass: %s in %s", kind, fn);
        mc_violation(key, "%s; status %#x, log %s", ccase[0] ? ccase : "no case recorded", st, log);
}
#endif


#ifndef C04_ASAN_PASS
int main(int argc, char **argv)
{
        mc_init(argc, argv, "C04");
        mc_set_budget(240, 1500);
        thorough = mc_tier == MC_THOROUGH;
        setup();
        mc_meta("level", "exploration");
        mc_meta("technique", "bounded-exhaustive configuration x payload lattice: the library's generator (_vbi_raw_vbi_image / _vbi_raw_video_image) renders every frame, four decoder entry points (vbi3_raw_decoder, legacy vbi_raw_decode, fresh vbi3_bit_slicer and fresh legacy vbi_bit_slice per line) must return exactly the transmitted records; E2 explicit state search over service add/remove/decode histories; ASan re-run of a sub-lattice with exactly sized output arrays");
        mc_meta("rule", "one evaluation = one scan line (or one blank frame) through one entry point, compared record by record (count, id, ITU line, payload bits, canary records behind the returned count); distinct = one (waveform, sampling rate) work unit of slicer-grid, one (service set, line layout) unit of layout, one 1/64 payload range of all-payloads, one canonical decoder state of history; every unit decodes at least one transmitted line, refused configurations are counted as outcomes and not as evaluations of the value oracle");
        char gb[1400]; int o = 0;
        for (int w = 0; w < NWAVE; w++) o += snprintf(gb + o, sizeof gb - o, "%s%s %d rates %.3f-40 MHz", w ? ", " : "", SV[WAVE[w]].name, nrates[w], rates[w][0] / 1e6);
        mc_meta("bound", "GRID, not a continuum. slicer-grid: 11 waveforms x sampling rates {uniform %d kHz steps from the property's minimum to 40 MHz} + {both edges of constant slicer step floor(256*rate/bit_rate), every %s} + 18 standard rates [%s] x samples_per_line {minimum holding the signal, +1, +7, first multiple of 720, 2048, one line period} x offset {earliest, middle, latest keeping the signal inside} x YUV420 with VBI levels at every rate and %d pixel formats (video levels, luma/green only, other channels garbage) at every 4th rate on every %s geometry x %d payloads per frame (all cyclic shifts of de Bruijn B(2,%d), all-0, all-1, single 1, single 0, 00/FF, 55, AA, 0F, walking 1) + blank lines. layout: %d service sets x 5 line layouts x sequential/interlaced x 4 transmit patterns x synchronous(known x unknown start per field)/non-synchronous x strict 0,1,2 x %d rates (13.5 MHz/720, 27 MHz/1440%s) x YUV420 + one rotating format. all-payloads: all 2^16 Caption 625, Caption 525 and all 2^14 WSS payloads at %d rates each. history: depth %d over 24 letters (decode of a blank frame; decode of a frame with Teletext on the VPS lines; reset; resize of the second field; set_sampling_par toggling sequential/interlaced; add/remove of B_L10, B_L25, B, VPS, VPS_F2, WSS, CC_F1, CC_F2, CC_625; decode), both interfaces",
                thorough ? 25 : 250, thorough ? "step value up to 1500 per waveform" : "n-th step value (160 per waveform)", gb,
                thorough ? NFMT_ALL : NFMT_QUICK, thorough ? "2nd" : "3rd", npay, thorough ? 5 : 3, NSETS, thorough ? 3 : 2, thorough ? ", 35.46895 MHz/2048" : "", thorough ? 4 : 2, thorough ? 5 : 4);
        mc_meta("assume", "sampling rates between grid points, offsets between the three per geometry and samples_per_line values other than the six listed are not covered");
        mc_meta("assume", "'twice the clock rate' is read as twice the fastest element rate of the signal: 10 MHz for VPS and WSS (5 MHz elements), 2.0 MHz for Caption (1.0 MHz run-in half periods); Teletext from 13.5 MHz; upper end 40 MHz");
        mc_meta("assume", "services: the 15 rows io-sim.c can generate and the property names (Teletext A, B level 1.0, B, C 625, D 625, VPS, VPS field 2, WSS 625, Caption 625 F1/F2, Teletext B/C/D 525, Caption 525 F1/F2); 2xCaption 525 has no generator; 23 pixel formats (VBI_PIXFMT_SET_ALL of this tree)");
        mc_meta("assume", "a frame only carries services that the decoder granted (a line carrying a refused or never requested service is outside the premise; such configurations are counted as 'not compared'); different Teletext systems are not requested together (bit rate and framing code too close, documented in test-raw_decoder.cc)");
        mc_meta("assume", "Teletext B level 1.0 / 2.5 are one service: asking for either id bit legitimately grants and reports the merged id; what must be granted is demanded only where rate, line length (+1 us at strict > 0), field order, line numbers and line coverage (strict > 0) satisfy the property's premise");
        mc_meta("assume", "raw images carry a 4096 byte zero tail and a line never extends beyond one line period (reads behind the image are property C05); history states leave out the adaptive slicer thresholds");
        mc_pool("slicer-grid", grid_base[NWAVE], grid_case, NULL, 300);
        mc_pool("layout", NSETS * NLAYOUT, layout_case, NULL, 300);
        mc_pool("all-payloads", (thorough ? 12 : 6) * 64, allpay_case, NULL, 300);
        hist_frame();
        for (int legacy = 0; legacy < 2; legacy++) {
                mc_bfs_spec sp = { NHLET, thorough ? 5 : 4, 0, 60, hist_run, legacy ? (void *) 1 : NULL, hist_letter };
                mc_bfs_result res;
                mc_bfs(legacy ? "history-legacy" : "history", &sp, &res);
                if (!mc_replaying) mc_note("%s: %llu states, %llu transitions, depth %d%s", legacy ? "history-legacy" : "history",
                        (unsigned long long) res.states, (unsigned long long) res.transitions, res.depth_completed, res.fixpoint ? " (fixpoint)" : "");
        }
        {
                asan_grid_stride = thorough ? 8 : 32;
                mc_meta("assume", "memory oracle (phase asan-pass, bin/C04_asan against the ASan-only library): every %dth (waveform, rate) unit of slicer-grid and every layout unit, output arrays sized exactly to max_lines / count[0]+count[1]", asan_grid_stride);
                mc_pool("asan-pass-grid", (grid_base[NWAVE] + ASAN_GRID_CHUNK - 1) / ASAN_GRID_CHUNK, asan_case, NULL, 1200);
                mc_pool("asan-pass-layout", NSETS * NLAYOUT, asan_case, (void *) 1, 1200);
        }
        return mc_finish();
}
#endif
