HLINK_PROXYENV := $(PROXY_WRAP)
HDEPS_PROXYENV := harness/proxyd_env.h
