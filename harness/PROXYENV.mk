PROXY_WRAP := -Wl,--wrap=select,--wrap=accept,--wrap=send,--wrap=time,--wrap=alarm
HLINK_PROXYENV := $(PROXY_WRAP)
HDEPS_PROXYENV := harness/proxyd_env.h
