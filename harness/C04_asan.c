/* C04 sub-lattice executed against the ASan-only library variant (memory oracle for the
 * output arrays; see the asan-pass phase in C04.c).  ASan-only because the transmitter
 * (io-sim.c signal_closed_caption) converts negative doubles to unsigned, which the UBSan
 * float-cast-overflow check of the `asan' variant aborts on; that is not the decoder. */
#define C04_ASAN_PASS 1
#include "C04.c"
