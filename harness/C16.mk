# C16: relational oracle on export targets + ASan red zones right after caller buffers -> asan variant.
# The calls the export modules make into the write layer of export.c are interposed (recorded and
# forwarded unchanged) to learn the internal write boundaries of the image modules; vsnprintf is the
# one libc call vbi_export_vprintf() writes through.
VARIANT_C16 := asan
HLINK_C16 := -Wl,--wrap=vbi_export_putc,--wrap=vbi_export_write,--wrap=vbi_export_puts,--wrap=vbi_export_flush,--wrap=_vbi_export_grow_buffer_space,--wrap=vsnprintf
HDEPS_C16 := harness/C16_pages.h harness/C16.mk
