/* C16 - Export and rendering are faithful, bounded and independent of the output target.
 *
 * Page alphabet (harness/C16_pages.h): 26 Teletext pages and 4 caption pages produced by
 * the real decoders from transmissions built here (plain text with links and FLOF, the 8
 * national option subsets, Cyrillic and Greek G0, double height / width / size incl. codes
 * in column 37/38 and rows 22..24, conceal, flash, boxed / newsflash / subtitle / inhibit
 * display, contiguous / separated / held mosaics, a Level 2.5 page with X/28/0 colour map,
 * X/26 G0/G2/G3/G1/composed characters, DRCS, transparent colours, the same page at
 * Level 1 / 1.5 / 3.5, X/26 display attributes incl. double width in column 39,
 * header-only and 12 row fetches; caption pop-on, roll-up, paint-on, text mode).
 *
 * Phases
 *   export   : (page, module, option vector[, chunk of buffer sizes]).  vbi_export_alloc is
 *              the reference; a second vbi_export_alloc, vbi_export_stdio (open_memstream)
 *              and vbi_export_file (file below the run directory) must give the same bytes;
 *              vbi_export_mem is called with exactly sized heap buffers (ASan red zone right
 *              after the last byte) of every size 0..needed+1 for text and html, and for the
 *              image modules of {0..K} + {needed-K..needed+1} + every internal write boundary
 *              +-1 (boundaries learned on a first pass by interposing the write layer calls
 *              the modules make, -Wl,--wrap); it must return `needed' for every size and
 *              deliver the reference bytes when the size suffices.  An export that fails must
 *              fail on all four targets and leave no file.  Text module: the reference output
 *              is converted back from the requested encoding (own iconv descriptor) and
 *              compared row by row with the page (independent model of "printable", "graphics
 *              replaced by gfx_chr", "unrepresentable replaced by space"; ANSI sequences of
 *              control=1/2 are stripped).
 *   print    : vbi_print_page_region(table=TRUE) for formats ASCII, ISO-8859-1, UTF-8, UCS-2
 *              (+ ISO-8859-5 / -7, KOI8-R) on a set of regions, every buffer size
 *              0..needed+1 in an exactly sized heap buffer: result <= size; a positive result
 *              must decode to exactly the region's characters (graphics, DRCS and
 *              unrepresentable characters as spaces, rows separated by a line feed).
 *   render   : vbi_draw_vt_page_region / vbi_draw_cc_page_region for rectangles
 *              (column,row,width,height) x {RGBA32_LE, PAL8} x rowstride {-1, exact, exact+32}
 *              x reveal x flash into a canvas of the documented size (rowstride*height*10 or
 *              *26 bytes) embedded in a patterned arena: every byte outside the rectangle's
 *              pixel lines must keep the pattern; the cells inside must equal the same cells
 *              of the full page rendering, except a first-column cell that is the right half
 *              (VBI_OVER_TOP/BOTTOM) or a last-column cell that is the left half of a double
 *              width/size character ("cut").  Unsupported pixel formats must leave the arena
 *              untouched.
 *
 * Deviations from DESIGN.md: flat enumeration in pool cases (no choice points are needed:
 * every case is a pure function of its index).  The continuation cells of enlarged
 * characters (size > VBI_DOUBLE_SIZE) may appear in text output either as the character
 * they repeat or as a space: format.h documents that they "can be safely ignored", the
 * text exporter repeats them, vbi_print_page_region blanks them; both are accepted.
 * With control=1/2 the exporter omits VBI_OVER_TOP/BOTTOM cells (the terminal doubles the
 * glyph); that is accepted as well.  Content of the image files is not modelled (the
 * property only relates targets to each other).  The `--wrap' interposition records
 * offsets and forwards to the real function unchanged.
 *
 * Violation keys name the failing clause, not the concrete case.  Two page classes get a
 * key of their own because one cause produces many symptoms there: image exports of a page
 * whose last column holds the left half of a double width character (crash key carries
 * that class), and image exports of a page with a VBI_OVER_TOP/BOTTOM cell whose left
 * neighbour is not enlarged (no renderer draws such a cell, the exported bytes are stale
 * buffer contents and differ between targets).  Rectangles whose last column is the left
 * half of an enlarged character report under one key whatever the symptom (pixels right of
 * the rectangle, wrap into the next line with an exact rowstride, bytes after the canvas).
 * Combinations that crash in their first call are enumerated once (the engine stops a
 * phase after 40 crashing cases).  Findings on the unchanged tree and proposed fixes:
 * mutants/C16/README.md.
 */
#include <stdio.h>
#include <stdlib.h>
#include <string.h>
#include <stdint.h>
#include <stdarg.h>
#include <unistd.h>
#include <errno.h>
#include <fcntl.h>
#include <iconv.h>
#include <sys/stat.h>
#include "mc.h"
#include "src/vbi.h"
#include "src/hamm.h"
#include "src/format.h"
#include "src/lang.h"
#include "src/export.h"
#include "src/exp-gfx.h"
#include "src/exp-txt.h"
#include "C16_pages.h"

static char outdir[600] = "build/run";

/* ---- boundary learning: the calls export modules make into the write layer --------- */

static vbi_export *learn_e;
static size_t *bnd; static int nbnd, capbnd;

static void bnd_add(size_t o)
{
        if (nbnd == capbnd) { capbnd = capbnd ? capbnd * 2 : 1024; bnd = realloc(bnd, capbnd * sizeof *bnd); }
        bnd[nbnd++] = o;
}
static inline void learn_mark(vbi_export *e)
{
        if (learn_e && e == learn_e && e->target == VBI_EXPORT_TARGET_ALLOC) bnd_add(e->buffer.offset);
}

vbi_bool __real_vbi_export_putc(vbi_export *e, int c);
vbi_bool __wrap_vbi_export_putc(vbi_export *e, int c) { learn_mark(e); vbi_bool r = __real_vbi_export_putc(e, c); learn_mark(e); return r; }
vbi_bool __real_vbi_export_write(vbi_export *e, const void *s, size_t n);
vbi_bool __wrap_vbi_export_write(vbi_export *e, const void *s, size_t n) { learn_mark(e); vbi_bool r = __real_vbi_export_write(e, s, n); learn_mark(e); return r; }
vbi_bool __real_vbi_export_puts(vbi_export *e, const char *s);
vbi_bool __wrap_vbi_export_puts(vbi_export *e, const char *s) { learn_mark(e); vbi_bool r = __real_vbi_export_puts(e, s); learn_mark(e); return r; }
vbi_bool __real_vbi_export_flush(vbi_export *e);
vbi_bool __wrap_vbi_export_flush(vbi_export *e) { learn_mark(e); return __real_vbi_export_flush(e); }
vbi_bool __real__vbi_export_grow_buffer_space(vbi_export *e, size_t n);
vbi_bool __wrap__vbi_export_grow_buffer_space(vbi_export *e, size_t n)
{
        if (learn_e && e == learn_e && e->target == VBI_EXPORT_TARGET_ALLOC) { bnd_add(e->buffer.offset); bnd_add(e->buffer.offset + n); }
        return __real__vbi_export_grow_buffer_space(e, n);
}
int __real_vsnprintf(char *s, size_t n, const char *f, va_list ap);
int __wrap_vsnprintf(char *s, size_t n, const char *f, va_list ap)
{
        int r = __real_vsnprintf(s, n, f, ap);
        vbi_export *e = learn_e;
        if (e && e->target == VBI_EXPORT_TARGET_ALLOC && e->buffer.data && s >= e->buffer.data && s <= e->buffer.data + e->buffer.capacity) {
                bnd_add((size_t)(s - e->buffer.data));
                if (r >= 0) bnd_add((size_t)(s - e->buffer.data) + (size_t) r);
        }
        return r;
}

/* ---- small helpers ----------------------------------------------------------------- */

#define PAT 0xA5        /* never a pixel's alpha byte (0xFF) nor a palette index (< 0x80) */

static int all_pat(const uint8_t *p, size_t n)
{
        if (!n) return 1;
        return p[0] == PAT && !memcmp(p, p + 1, n - 1);
}

static uint64_t hstr(const char *s) { return mc_hash64(s, strlen(s)); }

static const char *MODS[] = { "html", "png", "ppm", "text", "xpm" };
enum { M_HTML, M_PNG, M_PPM, M_TEXT, M_XPM, NMOD };

/* ---- option vectors ---------------------------------------------------------------- */

struct optvec {
        char     str[300];      /* keyword string for vbi_export_new */
        int      mod, quick, bad, full_k, crashy;
        /* text module */
        int      control; unsigned gfx_chr; char charset[24];
        char     label[120];
};
#define MAXOPT 160
static struct optvec OPT[MAXOPT];
static int nOPT;

static const char *iconv_formats[11] = { "ASCII", "ISO-8859-1", "ISO-8859-2", "ISO-8859-4", "ISO-8859-5", "ISO-8859-7", "ISO-8859-8",
                                         "ISO-8859-9", "KOI8-R", "KOI8-U", "UTF-8" };

static struct optvec *add_opt(int mod, int quick, const char *fmt, ...)
{
        if (nOPT >= MAXOPT) hdie("too many option vectors");
        struct optvec *o = &OPT[nOPT++];
        memset(o, 0, sizeof *o);
        o->mod = mod; o->quick = quick; o->gfx_chr = '#';
        va_list ap; va_start(ap, fmt); vsnprintf(o->str, sizeof o->str, fmt, ap); va_end(ap);
        snprintf(o->label, sizeof o->label, "%.110s", o->str);
        return o;
}

static void build_options(void)
{
        struct optvec *o;
        /* text: format x control, gfx_chr, charset */
        for (int f = 0; f < 11; f++)
                for (int c = 0; c < 3; c++) {
                        o = add_opt(M_TEXT, (f == 0 || f == 1 || f == 10) , "text;format=%d,control=%d", f, c);
                        o->control = c; snprintf(o->charset, sizeof o->charset, "%s", iconv_formats[f]);
                }
        for (int c = 0; c < 3; c++) {
                o = add_opt(M_TEXT, c == 0, "text;format=10,control=%d,gfx_chr=0x2588", c);
                o->control = c; o->gfx_chr = 0x2588; strcpy(o->charset, "UTF-8");
        }
        o = add_opt(M_TEXT, 0, "text;format=1,gfx_chr=' ',reveal=1"); o->gfx_chr = ' '; strcpy(o->charset, "ISO-8859-1");
        o = add_opt(M_TEXT, 0, "text;format=0,gfx_chr=65"); o->gfx_chr = 65; strcpy(o->charset, "ASCII");
        o = add_opt(M_TEXT, 1, "text;charset=UCS-2"); strcpy(o->charset, "UCS-2");
        o = add_opt(M_TEXT, 0, "text;charset=ISO-8859-15,control=2"); o->control = 2; strcpy(o->charset, "ISO-8859-15");
        o = add_opt(M_TEXT, 1, "text;charset=NO-SUCH-CHARSET"); o->bad = 1;
        /* html */
        for (int k = 0; k < 8; k++)
                add_opt(M_HTML, k == 7 || k == 0 || k == 2, "html;color=%d,header=%d,reveal=%d", k & 1, (k >> 1) & 1, (k >> 2) & 1);
        add_opt(M_HTML, 1, "html;network='Net <1&2>',creator='c16 \"q\"'");
        add_opt(M_HTML, 0, "html;color=0,header=1,network='N'");
        add_opt(M_HTML, 0, "html;gfx_chr=0x2588,color=1,header=0");
        add_opt(M_HTML, 0, "html;gfx_chr=' '");
        /* ppm */
        for (int k = 0; k < 4; k++) { o = add_opt(M_PPM, k == 1 || k == 2, "ppm;aspect=%d,reveal=%d", k & 1, (k >> 1) & 1); o->full_k = (k == 1); }
        /* png, xpm */
        for (int m = 0; m < 2; m++) {
                int mod = m ? M_XPM : M_PNG; const char *n = MODS[mod];
                for (int k = 0; k < 8; k++) {
                        o = add_opt(mod, k == 7 || k == 0, "%s;aspect=%d,transparency=%d,titled=%d", n, k & 1, (k >> 1) & 1, (k >> 2) & 1);
                        o->full_k = (k == 7);
                }
                add_opt(mod, 0, "%s;reveal=1", n);
                add_opt(mod, 1, "%s;network='Net <1&2> \"q\"',creator='a\"b'", n);
                add_opt(mod, 0, "%s;titled=0,creator=''", n);
                char net[100];
                memset(net, 'N', sizeof net);
                net[78] = 0; add_opt(mod, 0, "%s;network='%s'", n, net);                  /* network name of 78 characters */
                net[78] = 'N'; net[79] = 0; add_opt(mod, 1, "%s;network='%s'", n, net)->crashy = 1;   /* 79 characters: as long as the title buffer */
        }
        /* every option string must be accepted (harness self check) */
        for (int i = 0; i < nOPT; i++) {
                char *err = NULL;
                vbi_export *e = vbi_export_new(OPT[i].str, &err);
                if (!e) hdie("vbi_export_new(\"%s\") refused: %s", OPT[i].str, err ? err : "?");
                vbi_export_delete(e);
        }
        if (nOPT > 0) {
                int i;
                for (i = 0; i < NMOD; i++) {
                        vbi_export_info *xi = vbi_export_info_enum(i);
                        if (!xi || strcmp(xi->keyword, MODS[i])) hdie("export module %d is %s, expected %s", i, xi ? xi->keyword : "(none)", MODS[i]);
                }
                if (vbi_export_info_enum(NMOD)) hdie("unexpected sixth export module %s", vbi_export_info_enum(NMOD)->keyword);
        }
}

/* ---- text oracle ------------------------------------------------------------------- */

static int own_is_print(unsigned u) { return u < 0xE600; }              /* format.h: private codes start at U+E600 */
static int own_is_gfx(unsigned u) { return u >= 0xEE00 && u <= 0xEFFF; }  /* G1 / G3 mosaics */

static int is_16bit(const char *cs) { return !strncasecmp(cs, "UCS-2", 5) || !strncasecmp(cs, "UTF-16", 6); }

/* can `charset' represent u?  One fresh descriptor per question: no state carried. */
static int representable(const char *charset, unsigned u)
{
        static char cache_cs[24]; static int8_t cache[65536];
        if (strcmp(cache_cs, charset)) { memset(cache, -1, sizeof cache); snprintf(cache_cs, sizeof cache_cs, "%s", charset); }
        if (cache[u] >= 0) return cache[u];
        iconv_t cd = iconv_open(charset, "UCS-2LE");
        if (cd == (iconv_t) -1) return 0;
        char in[2] = { (char)(u & 0xFF), (char)(u >> 8) }, out[16], *ip = in, *op = out;
        size_t li = 2, lo = sizeof out;
        size_t r = iconv(cd, &ip, &li, &op, &lo);
        iconv_close(cd);
        return cache[u] = (r != (size_t) -1 && li == 0);
}

/* decode `n' bytes of `charset' into UCS-2 code units; -1 when the bytes are not valid */
static long decode_ucs2(const char *charset, const char *in, size_t n, uint16_t *out, size_t maxout)
{
        iconv_t cd = iconv_open("UCS-2LE", charset);
        if (cd == (iconv_t) -1) return -2;
        char *ip = (char *) in, *op = (char *) out;
        size_t li = n, lo = maxout * 2;
        size_t r = iconv(cd, &ip, &li, &op, &lo);
        iconv_close(cd);
        if (r == (size_t) -1 || li) return -1;
        long cnt = (op - (char *) out) / 2;
        /* a byte order mark written by a 16 bit encoder is not a character of the page */
        if (cnt && out[0] == 0xFEFF) { memmove(out, out + 1, (cnt - 1) * 2); cnt--; }
        return cnt;
}

struct cellexp { uint16_t a, b; int optional; };        /* allowed: a, or b (if b), or nothing (if optional) */

/* what one page cell may contribute to text output */
static struct cellexp expect_cell(const vbi_char *c, const char *charset, unsigned gfx_chr, int table, int control)
{
        struct cellexp x = { 0x20, 0, 0 };
        unsigned u = c->unicode, e;
        if (own_is_print(u)) e = u;
        else if (own_is_gfx(u) && !table) e = gfx_chr;
        else e = 0x20;
        if (!representable(charset, e)) e = 0x20;
        x.a = e;
        if (c->size > VBI_DOUBLE_SIZE) {        /* continuation of an enlarged character */
                x.b = 0x20;
                if (control > 0 && (c->size == VBI_OVER_TOP || c->size == VBI_OVER_BOTTOM)) x.optional = 1;
        }
        return x;
}

/* does out[0..n) match the row of cells?  (tiny NFA: cell index x output index) */
static int match_row(const struct cellexp *x, int ncell, const uint16_t *out, int n)
{
        static uint8_t reach[64][64];
        if (ncell >= 63 || n >= 63) return 0;
        memset(reach, 0, sizeof reach);
        reach[0][0] = 1;
        for (int i = 0; i < ncell; i++)
                for (int j = 0; j <= n; j++) {
                        if (!reach[i][j]) continue;
                        if (x[i].optional) reach[i + 1][j] = 1;
                        if (j < n && (out[j] == x[i].a || (x[i].b && out[j] == x[i].b))) reach[i + 1][j + 1] = 1;
                }
        return reach[ncell][n];
}

static void row_to_ascii(const uint16_t *u, int n, char *o, size_t on)
{
        size_t k = 0;
        for (int i = 0; i < n && k + 8 < on; i++)
                if (u[i] >= 0x20 && u[i] < 0x7F) o[k++] = (char) u[i];
                else k += snprintf(o + k, on - k, "<%04X>", u[i]);
        o[k] = 0;
}

/* Compare text (already without control sequences) with the region c0,r0,w,h of the page.
 * trailing_nl: the text ends with a row separator.  Returns 0 when fine, else reports. */
static int check_text(const char *what, const struct apage *a, const char *charset, unsigned gfx_chr, int table, int control,
                      int c0, int r0, int w, int h, const char *txt, size_t n, int trailing_nl)
{
        static uint16_t u[8192];
        const vbi_page *pg = &a->pg;
        long cnt = -1;
        if (is_16bit(charset) && (h > 1 || trailing_nl)) {
                /* are the row separators single 0x0A bytes between correctly encoded rows? */
                size_t rowb = (size_t) w * 2 + 1, k = 0; static char tmp[16384];
                int ok = n == rowb * (size_t) h - (trailing_nl ? 0 : 1);
                for (int r = 0; ok && r < h; r++) {
                        memcpy(tmp + k, txt + r * rowb, w * 2); k += w * 2;
                        if (r < h - 1 || trailing_nl) { if (txt[r * rowb + w * 2] != '\n') ok = 0; tmp[k++] = '\n'; tmp[k++] = 0; }
                }
                if (ok) {
                        mc_violation(table ? "print_page_region table: row separator is a single byte 0x0A in a 16 bit encoding"
                                           : "text export: row separator is a single byte 0x0A in a 16 bit encoding",
                                     "%s page '%s' charset=%s region %d,%d %dx%d: the %zu bytes cannot be converted back", what, a->name, charset, c0, r0, w, h, n);
                        /* go on with the characters, separators repaired */
                        cnt = decode_ucs2("UCS-2LE", tmp, k, u, 8192);
                }
        }
        if (cnt < 0) cnt = decode_ucs2(charset, txt, n, u, 8192);
        if (cnt == -2) { mc_violation("harness: iconv cannot decode charset", "%s", charset); return 1; }
        if (cnt < 0) {
                mc_violation(table ? "print_page_region table: output is not valid in the requested encoding"
                                   : "text export: output is not valid in the requested encoding",
                             "%s page '%s' charset=%s region %d,%d %dx%d len=%zu", what, a->name, charset, c0, r0, w, h, n);
                return 1;
        }
        /* split into rows */
        int row = 0; long i = 0;
        while (row < h) {
                long j = i;
                while (j < cnt && u[j] != 0x0A) j++;
                struct cellexp x[64];
                for (int c = 0; c < w; c++) x[c] = expect_cell(&pg->text[(r0 + row) * pg->columns + c0 + c], charset, gfx_chr, table, control);
                if (!match_row(x, w, u + i, (int)(j - i))) {
                        char got[700], want[700]; uint16_t wu[64];
                        for (int c = 0; c < w; c++) wu[c] = x[c].a;
                        row_to_ascii(u + i, (int)(j - i) > 60 ? 60 : (int)(j - i), got, sizeof got); row_to_ascii(wu, w, want, sizeof want);
                        /* classify the first differing cell for a stable key */
                        const char *cls = "characters differ from the page";
                        if ((int)(j - i) == w)
                                for (int c = 0; c < w; c++) {
                                        if (u[i + c] == x[c].a || (x[c].b && u[i + c] == x[c].b)) continue;
                                        unsigned pu = pg->text[(r0 + row) * pg->columns + c0 + c].unicode;
                                        if (!own_is_print(pu) && u[i + c] == pu) cls = "graphics/DRCS code not replaced";
                                        else if (u[i + c] == 0x20 && is_16bit(charset) && (x[c].a & 0xFF) == 0x40) cls = "character U+xx40 replaced by space in 16 bit encoding";
                                        else if (u[i + c] == 0x20) cls = "character replaced by space";
                                        break;
                                }
                        else cls = "row length differs from the page";
                        char key[200]; snprintf(key, sizeof key, "%s: %s", table ? "print_page_region table" : "text export", cls);
                        mc_violation(key, "%s page '%s' charset=%s gfx_chr=U+%04X control=%d region %d,%d %dx%d row %d: got [%s] want [%s]",
                                     what, a->name, charset, gfx_chr, control, c0, r0, w, h, r0 + row, got, want);
                        return 1;
                }
                row++;
                if (row < h || trailing_nl) {
                        if (j >= cnt) {
                                mc_violation(table ? "print_page_region table: row separator missing" : "text export: row separator missing",
                                             "%s page '%s' charset=%s region %d,%d %dx%d after row %d", what, a->name, charset, c0, r0, w, h, r0 + row - 1);
                                return 1;
                        }
                        j++;
                }
                i = j;
        }
        if (i != cnt) {
                mc_violation(table ? "print_page_region table: output continues after the last row" : "text export: output continues after the last row",
                             "%s page '%s' charset=%s region %d,%d %dx%d: %ld extra characters", what, a->name, charset, c0, r0, w, h, cnt - i);
                return 1;
        }
        return 0;
}

/* remove ESC # d and ESC [ ... m sequences */
static size_t strip_ansi(const char *in, size_t n, char *out)
{
        size_t k = 0;
        for (size_t i = 0; i < n; ) {
                if (in[i] == 0x1B && i + 2 < n + 1 && i + 1 < n && in[i + 1] == '#') { i += 3; continue; }
                if (in[i] == 0x1B && i + 1 < n && in[i + 1] == '[') {
                        size_t j = i + 2;
                        while (j < n && (in[j] == ';' || (in[j] >= '0' && in[j] <= '9'))) j++;
                        if (j < n && in[j] == 'm') { i = j + 1; continue; }
                }
                out[k++] = in[i++];
        }
        return k;
}

/* ---- export phase ------------------------------------------------------------------- */

struct ecase { int page, opt, chunk, nchunk; };
static struct ecase *EC; static uint64_t nEC;

static int K_gfx, K_gfx_full;

static int cmp_size(const void *a, const void *b) { size_t x = *(const size_t *) a, y = *(const size_t *) b; return x < y ? -1 : x > y; }

static char *read_file(const char *path, size_t *n)
{
        FILE *f = fopen(path, "rb"); if (!f) return NULL;
        size_t cap = 1 << 16, len = 0; char *b = malloc(cap);
        for (;;) {
                if (len == cap) { cap *= 2; b = realloc(b, cap); }
                size_t r = fread(b + len, 1, cap - len, f);
                if (!r) break;
                len += r;
        }
        fclose(f); *n = len; return b;
}

static void export_case(uint64_t idx, void *arg)
{
        (void) arg;
        const struct ecase *ec = &EC[idx];
        struct apage *a = &PG[ec->page];
        const struct optvec *o = &OPT[ec->opt];
        const char *mod = MODS[o->mod];
        int gfx = (o->mod == M_PNG || o->mod == M_PPM || o->mod == M_XPM);
        char ck[160], key[200];
        const char *pclass = (gfx && a->last_col_wide) ? " of a page with a double-width cell in its last column" : "";
        /* crash keys: module class + page class; the crashing function completes the key */
#define CASEKEY(target) do { snprintf(ck, sizeof ck, "export %s%s", gfx ? "image" : mod, pclass); \
        mc_case(ck, "%s target, page '%s' options \"%s\"", target, a->name, o->label); } while (0)
        /* any anomaly of an image export of a page with a cell that no renderer draws has that one cause */
#define EKEY(what) do { if (gfx && a->orphan) snprintf(key, sizeof key, "export image: output depends on stale memory on a page with a continuation cell that has no anchor (no renderer draws the cell; data, size or success differ between targets/calls)"); else snprintf(key, sizeof key, "export %s: %s", mod, what); } while (0)
#define EFAIL(what, ...) do { EKEY(what); mc_violation(key, __VA_ARGS__); goto out; } while (0)
#define EDIFF EFAIL

        uint64_t evals = 0;
        char *err = NULL, *ref = NULL, *ref2 = NULL, *ms = NULL, *fb = NULL;
        size_t needed = 0, n2 = 0, msn = 0, fbn = 0;
        size_t *sizes = NULL;
        vbi_export *e = vbi_export_new(o->str, &err);
        if (!e) { mc_violation("harness: vbi_export_new refused a checked option string", "%s", o->str); return; }

        /* reference: allocated buffer; learn the write boundaries on the way */
        CASEKEY("alloc");
        nbnd = 0; if (gfx) learn_e = e;
        void *rp = NULL;
        void *res = vbi_export_alloc(e, &rp, &needed, &a->pg);
        learn_e = NULL; evals++;
        ref = res;
        if (res && rp != res) EFAIL("alloc returns a different pointer than it stores", "page '%s' \"%s\"", a->name, o->label);

        if (ec->chunk == 0) {
                /* repeatable */
                void *r2 = vbi_export_alloc(e, (void **) &ref2, &n2, &a->pg); evals++;
                if (!r2 != !ref) EFAIL("second alloc call succeeds/fails differently", "page '%s' \"%s\"", a->name, o->label);
                if (ref && (n2 != needed || memcmp(ref, ref2, needed)))
                        EDIFF("second alloc call gives different data", "page '%s' \"%s\" %zu vs %zu bytes", a->name, o->label, needed, n2);

                /* stdio */
                CASEKEY("stdio");
                FILE *fp = open_memstream(&ms, &msn);
                if (!fp) { mc_violation("harness: open_memstream failed", "%s", strerror(errno)); goto out; }
                vbi_bool ok = vbi_export_stdio(e, fp, &a->pg); evals++;
                fclose(fp);
                if (!ok != !ref) EFAIL("stdio target succeeds/fails differently from alloc", "page '%s' \"%s\" alloc=%s stdio=%s (%s)", a->name, o->label, ref ? "ok" : "fails", ok ? "ok" : "fails", vbi_export_errstr(e));
                if (ref && (msn != needed || memcmp(ms, ref, needed))) {
                        size_t d = 0; while (d < needed && d < msn && ms[d] == ref[d]) d++;
                        EDIFF("stdio output differs from alloc", "page '%s' \"%s\": %zu vs %zu bytes, first difference at %zu", a->name, o->label, msn, needed, d);
                }

                /* file */
                CASEKEY("file");
                char path[700]; snprintf(path, sizeof path, "%s/C16/tmp-%d.out", outdir, (int) getpid());
                unlink(path);
                ok = vbi_export_file(e, path, &a->pg); evals++;
                fb = read_file(path, &fbn);
                unlink(path);
                if (!ok != !ref) EFAIL("file target succeeds/fails differently from alloc", "page '%s' \"%s\" alloc=%s file=%s (%s)", a->name, o->label, ref ? "ok" : "fails", ok ? "ok" : "fails", vbi_export_errstr(e));
                if (!ok && fb) EFAIL("failed file export leaves the file behind", "page '%s' \"%s\" %zu bytes", a->name, o->label, fbn);
                if (ref && (!fb || fbn != needed || memcmp(fb, ref, needed))) {
                        size_t d = 0; while (fb && d < needed && d < fbn && fb[d] == ref[d]) d++;
                        EDIFF("file output differs from alloc", "page '%s' \"%s\": %zu vs %zu bytes, first difference at %zu", a->name, o->label, fbn, needed, d);
                }

                /* file name that is already in use: the earlier, longer content must be gone (seed C16-10: O_TRUNC lost) */
                if (ref) {
                        free(fb); fb = NULL;
                        FILE *jf = fopen(path, "wb");
                        if (jf) { for (size_t i = 0; i < needed + 777; i++) fputc(0x5A, jf); fclose(jf); }
                        ok = vbi_export_file(e, path, &a->pg); evals++;
                        fb = read_file(path, &fbn);
                        unlink(path);
                        if (!ok) EFAIL("file target fails when the file exists already", "page '%s' \"%s\" (%s)", a->name, o->label, vbi_export_errstr(e));
                        if (!fb || fbn != needed || memcmp(fb, ref, needed)) {
                                size_t d = 0; while (fb && d < needed && d < fbn && fb[d] == ref[d]) d++;
                                EDIFF("file output over an existing longer file differs from alloc", "page '%s' \"%s\": %zu vs %zu bytes, first difference at %zu", a->name, o->label, fbn, needed, d);
                        }
                }

                /* text fidelity of the reference */
                if (ref && o->mod == M_TEXT) {
                        char *plain = ref; size_t pn = needed; char *tmp = NULL;
                        if (o->control > 0) { tmp = malloc(needed + 1); pn = strip_ansi(ref, needed, tmp); plain = tmp; }
                        if (!(o->control > 0 && is_16bit(o->charset)))
                                check_text("text export", a, o->charset, o->gfx_chr, 0, o->control, 0, 0, a->pg.columns, a->pg.rows, plain, pn, 1);
                        free(tmp); evals++;
                }
                if (o->bad && ref) EFAIL("unknown charset accepted", "\"%s\"", o->label);
                mc_outcome(ref ? "export succeeds, 4 targets identical" : "export refused on all targets, no file left");
        }

        /* caller buffer */
        CASEKEY("mem");
        if (!ref) {
                char small[64];
                ssize_t r = vbi_export_mem(e, small, sizeof small, &a->pg); evals++;
                if (r != -1) EFAIL("mem target succeeds where alloc fails", "page '%s' \"%s\" returns %zd", a->name, o->label, r);
                goto done;
        }
        {
                int K = gfx ? (o->full_k ? K_gfx_full : K_gfx) : -1;
                size_t ns = 0, cap = 0;
#define PUSH(v) do { size_t v_ = (v); if (v_ <= needed + 1) { if (ns == cap) { cap = cap ? cap * 2 : 4096; sizes = realloc(sizes, cap * sizeof *sizes); } sizes[ns++] = v_; } } while (0)
                if (K < 0 && needed <= 65536) {
                        for (size_t s = 0; s <= needed + 1; s++) PUSH(s);
                } else {
                        if (K < 0) K = 4096;
                        for (size_t s = 0; s <= (size_t) K; s++) PUSH(s);
                        for (size_t s = needed > (size_t) K ? needed - K : 0; s <= needed + 1; s++) PUSH(s);
                        for (int i = 0; i < nbnd; i++) { if (bnd[i]) PUSH(bnd[i] - 1); PUSH(bnd[i]); PUSH(bnd[i] + 1); }
                        qsort(sizes, ns, sizeof *sizes, cmp_size);
                        size_t k = 0;
                        for (size_t i = 0; i < ns; i++) if (!k || sizes[i] != sizes[k - 1]) sizes[k++] = sizes[i];
                        ns = k;
                }
                if (ec->chunk == 0) {
                        ssize_t r = vbi_export_mem(e, NULL, 0, &a->pg); evals++;
                        if (r != (ssize_t) needed) EFAIL("mem with NULL buffer does not return the needed size", "page '%s' \"%s\" returns %zd, needed %zu", a->name, o->label, r, needed);
                        r = vbi_export_mem(e, NULL, needed + 10, &a->pg); evals++;
                        if (r != (ssize_t) needed) EFAIL("mem with NULL buffer does not return the needed size", "page '%s' \"%s\" size %zu returns %zd, needed %zu", a->name, o->label, needed + 10, r, needed);
                }
                for (size_t i = ec->chunk; i < ns; i += ec->nchunk) {
                        size_t s = sizes[i];
                        char *blk = malloc(s ? s : 8), *buf = s ? blk : blk + 8;        /* size 0: one past a block, in the red zone */
                        if (!blk) { mc_violation("harness: out of memory", "%zu", s); goto out; }
                        if (s) memset(buf, PAT, s);
                        mc_case(NULL, "page '%s' options \"%s\" buffer size %zu (needed %zu)", a->name, o->label, s, needed);
                        ssize_t r = vbi_export_mem(e, buf, s, &a->pg); evals++;
                        if (r != (ssize_t) needed) {
                                EKEY(r < 0 ? "mem returns -1 where alloc succeeds" : s < needed ? "mem returns a wrong size for a buffer that is too small" : "mem returns a wrong size for a sufficient buffer");
                                mc_violation(key, "page '%s' \"%s\" size %zu returns %zd, needed %zu (offset from needed %+ld)", a->name, o->label, s, r, needed, (long) s - (long) needed);
                                free(blk); goto out;
                        }
                        if (s >= needed && memcmp(buf, ref, needed)) {
                                size_t d = 0; while (d < needed && buf[d] == ref[d]) d++;
                                EKEY("mem data differs from alloc");
                                mc_violation(key, "page '%s' \"%s\" size %zu (needed %+ld): first difference at %zu", a->name, o->label, s, (long) s - (long) needed, d);
                                free(blk); goto out;
                        }
                        free(blk);
                }
                if (ec->chunk == 0) {
                        mc_outcome("mem: buffer too small -> needed size returned, nothing written past the end");
                        mc_outcome("mem: buffer sufficient -> same bytes as alloc");
                        if (ec->page < 3 || a->is_cc)
                                mc_sample("export page '%s' \"%s\": %zu bytes; alloc x2 = stdio = file; mem with %zu buffer sizes%s", a->name, o->label, needed, ns,
                                          gfx ? " (ranges + write boundaries)" : " (all 0..needed+1)");
                }
        }
done:
        mc_distinct(hstr(a->name) ^ (hstr(o->str) * 31) ^ ((uint64_t) ec->chunk << 56));
out:
        mc_count("evaluations", evals);
        if (e) vbi_export_delete(e);
        free(ref); free(ref2); free(ms); free(fb); free(sizes);
        if (ec->chunk == 0) { snprintf(key, sizeof key, "export %s: memory leaked", mod); mc_leak_check(key); }
#undef CASEKEY
#undef EFAIL
#undef EDIFF
#undef EKEY
#undef PUSH
}

/* ---- print phase -------------------------------------------------------------------- */

static const char *PFMT[] = { "ASCII", "ISO-8859-1", "UTF-8", "UCS-2", "ISO-8859-5", "ISO-8859-7", "KOI8-R" };
#define NPFMT 7

struct pcase { int page, fmt, r0; };
static struct pcase *PC; static uint64_t nPC;

static uint64_t print_region_all_sizes(struct apage *a, const char *fmt, int c0, int r0, int w, int h)
{
        static char big[16384];
        vbi_page *pg = &a->pg;
        uint64_t evals = 0;
        mc_case("print_page_region table", "page '%s' format %s region %d,%d %dx%d", a->name, fmt, c0, r0, w, h);
        int needed = vbi_print_page_region(pg, big, sizeof big, fmt, TRUE, FALSE, c0, r0, w, h); evals++;
        if (needed <= 0) {
                mc_violation("print_page_region table: fails with an ample buffer", "page '%s' format %s region %d,%d %dx%d", a->name, fmt, c0, r0, w, h);
                return evals;
        }
        if (check_text("print_page_region", a, fmt, 0x20, 1, 0, c0, r0, w, h, big, needed, 0)) return evals;
        for (int s = 0; s <= needed + 1; s++) {
                char *blk = malloc(s ? s : 8), *buf = s ? blk : blk + 8;
                if (s) memset(buf, PAT, s);
                int r = vbi_print_page_region(pg, buf, s, fmt, TRUE, FALSE, c0, r0, w, h); evals++;
                if (r < 0 || r > s) {
                        mc_violation("print_page_region table: returns more bytes than the buffer size", "page '%s' format %s region %d,%d %dx%d size %d returns %d", a->name, fmt, c0, r0, w, h, s, r);
                        free(blk); return evals;
                }
                if (r > 0 && (r != needed || memcmp(buf, big, needed))) {
                        /* success reported with something else than the region's text */
                        const char *cls = s < needed ? "succeeds with altered text in a buffer that is too small" : "text differs between buffer sizes";
                        char key[160]; snprintf(key, sizeof key, "print_page_region table: %s", cls);
                        static uint16_t u[8192]; char got[300] = "";
                        long cnt = decode_ucs2(fmt, buf, r, u, 8192);
                        if (cnt > 0) row_to_ascii(u + (cnt > 24 ? cnt - 24 : 0), cnt > 24 ? 24 : (int) cnt, got, sizeof got);
                        mc_violation(key, "page '%s' format %s region %d,%d %dx%d: size %d (needed %d) returns %d, text ends [%s]", a->name, fmt, c0, r0, w, h, s, needed, r, got);
                        free(blk); return evals;
                }
                if (r == 0 && s >= needed) {
                        mc_violation("print_page_region table: fails although the buffer suffices", "page '%s' format %s region %d,%d %dx%d size %d needed %d", a->name, fmt, c0, r0, w, h, s, needed);
                        free(blk); return evals;
                }
                free(blk);
        }
        return evals;
}

static void print_case(uint64_t idx, void *arg)
{
        (void) arg;
        const struct pcase *pc = &PC[idx];
        struct apage *a = &PG[pc->page];
        const char *fmt = PFMT[pc->fmt];
        int C = a->pg.columns, R = a->pg.rows, r0 = pc->r0;
        uint64_t evals = 0, regions = 0;
        /* full width regions starting at r0 */
        for (int h = 1; h <= R - r0; h++) { if (mc_tier == MC_QUICK && h > 3 && h != R - r0) continue; evals += print_region_all_sizes(a, fmt, 0, r0, C, h); regions++; }
        /* small rectangles */
        for (int c0 = 0; c0 < C; c0++)
                for (int w = 1; w <= 3 && c0 + w <= C; w++)
                        for (int h = 1; h <= 3 && r0 + h <= R; h++) { evals += print_region_all_sizes(a, fmt, c0, r0, w, h); regions++; }
        /* thorough: every column interval of this row */
        if (mc_tier == MC_THOROUGH && a->quick)
                for (int c0 = 0; c0 < C; c0++)
                        for (int w = 4; c0 + w <= C; w++) { evals += print_region_all_sizes(a, fmt, c0, r0, w, 1); regions++; }
        /* full height columns */
        if (r0 == 0)
                for (int c0 = 0; c0 < C; c0++) { evals += print_region_all_sizes(a, fmt, c0, 0, 1, R); regions++; }
        mc_count("evaluations", evals); mc_count("print_regions", regions);
        mc_distinct(hstr(a->name) ^ (hstr(fmt) * 131) ^ ((uint64_t) r0 << 48) ^ 0x5052494E54ull);
        mc_outcome("print_region: sufficient buffer -> region text, row by row");
        mc_outcome("print_region: buffer too small -> 0");
        if (r0 == 1 && pc->fmt == 2 && pc->page < 2) mc_sample("print_page_region page '%s' %s rows from %d: %llu regions, every size 0..needed+1, %llu calls", a->name, fmt, r0, (unsigned long long) regions, (unsigned long long) evals);
}

/* ---- render phase ------------------------------------------------------------------- */

struct variant { int fmt, bpp, stride_kind, reveal, flash; };
struct rcase { int page; struct variant v; int c0; int full; };
static struct rcase *RC; static uint64_t nRC;
static const char *stride_name[] = { "-1", "exact", "exact+32" };

#define GUARD 4096

static void draw_region(struct apage *a, int fmt, void *canvas, int stride, int c0, int r0, int w, int h, int reveal, int flash)
{
        if (a->is_cc) vbi_draw_cc_page_region(&a->pg, fmt, canvas, stride, c0, r0, w, h);
        else vbi_draw_vt_page_region(&a->pg, fmt, canvas, stride, c0, r0, w, h, reveal, flash);
}

static void render_case(uint64_t idx, void *arg)
{
        (void) arg;
        const struct rcase *rc = &RC[idx];
        struct apage *a = &PG[rc->page];
        const vbi_page *pg = &a->pg;
        const struct variant *v = &rc->v;
        const int C = pg->columns, R = pg->rows, CW = a->is_cc ? 16 : 12, CH = a->is_cc ? 26 : 10, bpp = v->bpp, c0 = rc->c0;
        const char *fn = a->is_cc ? "draw_cc_page_region" : "draw_vt_page_region";
        char ck[200], key[240];
        uint64_t evals = 0, rects = 0, cutcells = 0;
        snprintf(ck, sizeof ck, "%s%s", fn, a->last_col_wide ? " page with a double-width cell in its last column" : "");
        mc_case(ck, "page '%s' fmt=%d stride=%s reveal=%d flash=%d full page", a->name, v->fmt, stride_name[v->stride_kind], v->reveal, v->flash);

        /* full page rendering: the reference, itself checked against its arena */
        const int Fstride = C * CW * bpp;
        const size_t Fbytes = (size_t) Fstride * R * CH;
        uint8_t *Fa = malloc(GUARD + Fbytes + GUARD);
        memset(Fa, PAT, GUARD + Fbytes + GUARD);
        uint8_t *F = Fa + GUARD;
        draw_region(a, v->fmt, F, -1, 0, 0, C, R, v->reveal, v->flash); evals++;
        if (!all_pat(Fa, GUARD) || !all_pat(F + Fbytes, GUARD)) {
                int wide = 0; for (int r = 0; r < R; r++) wide |= cell_is_wide(&pg->text[r * C + C - 1]);
                snprintf(key, sizeof key, "%s: %s", fn, wide ? "last column of the region is the left half of a double width/size character: pixels written right of the rectangle"
                                                              : "full page rendering writes outside the canvas");
                mc_violation(key, "page '%s' fmt=%d full page %dx%d: bytes %s the canvas of %zu bytes changed", a->name, v->fmt, C, R,
                             all_pat(Fa, GUARD) ? "after" : "before", Fbytes);
                /* with a wide last column the damage is confined to the cells (r,0) the overflow wraps into,
                 * which are not used as reference below; anything else makes the reference useless */
                if (!wide) { free(Fa); mc_count("evaluations", evals); return; }
        }

        size_t maxbytes = (size_t)(C * CW * bpp + 32) * R * CH;
        uint8_t *arena = malloc(GUARD + maxbytes + GUARD);
        int quickset = !rc->full;

        for (int r0 = 0; r0 < R; r0++)
        for (int w = 1; c0 + w <= C; w++)
        for (int h = 1; r0 + h <= R; h++) {
                if (quickset && !((w <= 3 && h <= 3) || (c0 == 0 && w == C) || (r0 == 0 && h == R))) continue;
                const int rectb = w * CW * bpp;
                const int stride = v->stride_kind == 0 ? Fstride : v->stride_kind == 1 ? rectb : rectb + 32;
                const size_t cbytes = (size_t) stride * h * CH;           /* the documented canvas size */
                memset(arena, PAT, GUARD + cbytes + GUARD);
                uint8_t *cv = arena + GUARD;
                mc_case(NULL, "page '%s' fmt=%d stride=%s reveal=%d flash=%d region col=%d row=%d %dx%d", a->name, v->fmt, stride_name[v->stride_kind], v->reveal, v->flash, c0, r0, w, h);
                draw_region(a, v->fmt, cv, v->stride_kind == 0 ? -1 : stride, c0, r0, w, h, v->reveal, v->flash);
                evals++; rects++;

                /* cut cells */
                int wide_edge = 0;
                for (int r = r0; r < r0 + h; r++) wide_edge |= cell_is_wide(&pg->text[r * C + c0 + w - 1]);

                const char *bad = NULL; long badpos = 0; int badrow = -1, badcol = -1;
                if (!all_pat(arena, GUARD)) { bad = "bytes before the canvas changed"; }
                else if (!all_pat(cv + cbytes, GUARD)) { bad = "bytes after the canvas changed"; }
                else {
                        /* between the pixel lines of the rectangle */
                        if (stride > rectb)
                                for (int y = 0; y < h * CH && !bad; y++)
                                        if (!all_pat(cv + (size_t) y * stride + rectb, stride - rectb)) { bad = "pixels right of the rectangle changed"; badpos = y; }
                }
                if (!bad) {
                        /* inside: every cell not cut equals the full page rendering */
                        for (int r = r0; r < r0 + h && !bad; r++) {
                                int skip_first = 0, skip_last = 0;
                                const vbi_char *fc = &pg->text[r * C + c0], *lc = &pg->text[r * C + c0 + w - 1];
                                if (!a->is_cc && (fc->size == VBI_OVER_TOP || fc->size == VBI_OVER_BOTTOM)) skip_first = 1;
                                if (!a->is_cc && cell_is_wide(lc)) skip_last = 1;
                                /* the reference cell (r,0) is not trustworthy when the page's own last column is wide */
                                if (a->last_col_wide && c0 == 0 && cell_is_wide(&pg->text[r * C + C - 1])) skip_first = 1;
                                cutcells += skip_first + skip_last;
                                int xa = skip_first ? CW * bpp : 0, xb = rectb - (skip_last ? CW * bpp : 0);
                                if (xb <= xa) continue;
                                for (int y = 0; y < CH; y++) {
                                        const uint8_t *p = cv + (size_t)((r - r0) * CH + y) * stride + xa;
                                        const uint8_t *q = F + (size_t)(r * CH + y) * Fstride + (size_t) c0 * CW * bpp + xa;
                                        if (memcmp(p, q, xb - xa)) {
                                                int d = 0; while (p[d] == q[d]) d++;
                                                bad = "pixels differ from the full page rendering"; badrow = r; badcol = c0 + (xa + d) / (CW * bpp); badpos = y;
                                                break;
                                        }
                                }
                        }
                }
                if (bad) {
                        if (wide_edge)
                                snprintf(key, sizeof key, "%s: last column of the region is the left half of a double width/size character: pixels written right of the rectangle", fn);
                        else
                                snprintf(key, sizeof key, "%s: %s", fn, bad);
                        mc_violation(key, "page '%s' fmt=%s rowstride=%s reveal=%d flash=%d region col=%d row=%d %dx%d: %s (line/row %ld, cell %d,%d)", a->name,
                                     v->fmt == VBI_PIXFMT_PAL8 ? "PAL8" : "RGBA32_LE", stride_name[v->stride_kind], v->reveal, v->flash, c0, r0, w, h, bad, badpos, badcol, badrow);
                        if (!wide_edge) goto done;      /* an unexpected kind: one report is enough for this case */
                        continue;
                }
                /* unsupported formats draw nothing (once per rectangle, first variant only) */
                if (v->stride_kind == 1 && v->reveal && v->flash && bpp == 4) {
                        static const int unsup[] = { VBI_PIXFMT_YUV420, VBI_PIXFMT_YUYV, VBI_PIXFMT_BGRA32_LE, VBI_PIXFMT_RGB16_LE, VBI_PIXFMT_RGB24 };
                        memset(arena, PAT, GUARD + cbytes + GUARD);
                        int f = unsup[(c0 + r0 + w + h) % 5];
                        draw_region(a, f, cv, stride, c0, r0, w, h, v->reveal, v->flash); evals++;
                        if (!all_pat(arena, GUARD + cbytes + GUARD)) {
                                snprintf(key, sizeof key, "%s: unsupported pixel format draws", fn);
                                mc_violation(key, "page '%s' fmt=%d region col=%d row=%d %dx%d", a->name, f, c0, r0, w, h);
                                goto done;
                        }
                }
        }
        mc_outcome("render: region cells equal the full page rendering, nothing outside the rectangle touched");
        if (cutcells) mc_outcome("render: cut double width/size cells exempt from the pixel comparison");
        if (v->stride_kind == 1 && v->reveal && v->flash && bpp == 4) mc_outcome("render: unsupported pixel format leaves the arena untouched");
        if (c0 == 0 && rc->page < 2 && v->stride_kind == 2) mc_sample("render page '%s' fmt=%d rowstride=%s reveal=%d flash=%d column0=%d: %llu rectangles", a->name, v->fmt, stride_name[v->stride_kind], v->reveal, v->flash, c0, (unsigned long long) rects);
done:
        mc_count("evaluations", evals); mc_count("rectangles", rects); mc_count("cut_cells_exempted", cutcells);
        mc_distinct(hstr(a->name) ^ ((uint64_t) v->fmt << 8) ^ ((uint64_t) v->stride_kind << 16) ^ ((uint64_t) v->reveal << 20) ^ ((uint64_t) v->flash << 21) ^ ((uint64_t) c0 << 24) ^ 0x52454E44ull << 32);
        free(arena); free(Fa);
}

/* ---- enumeration --------------------------------------------------------------------- */

static void build_cases(void)
{
        int thorough = mc_tier == MC_THOROUGH;
        /* export */
        EC = malloc(sizeof *EC * (size_t) nPG * nOPT * 16);
        for (int p = 0; p < nPG; p++)
                for (int o = 0; o < nOPT; o++) {
                        if (!thorough && !(PG[p].quick && OPT[o].quick)) continue;
                        int gfx = OPT[o].mod == M_PNG || OPT[o].mod == M_PPM || OPT[o].mod == M_XPM;
                        int nch = 1;
                        if (OPT[o].mod == M_HTML) nch = thorough ? 4 : 2;
                        if (gfx && thorough) nch = OPT[o].full_k ? 16 : 2;
                        if (gfx && !thorough) nch = 2;
                        /* fewer option vectors on the pages outside the quick subset */
                        if (thorough && !PG[p].quick && !OPT[o].quick) continue;
                        /* combinations known to crash in the first call: once each (the engine stops a phase after 40 crashes) */
                        if (OPT[o].crashy && p != 0) continue;
                        if (gfx && PG[p].last_col_wide) { if (!OPT[o].full_k) continue; nch = 1; }
                        for (int c = 0; c < nch; c++) EC[nEC++] = (struct ecase){ p, o, c, nch };
                }
        /* print */
        PC = malloc(sizeof *PC * (size_t) nPG * NPFMT * 25);
        for (int p = 0; p < nPG; p++)
                for (int f = 0; f < NPFMT; f++) {
                        if (!thorough && (!PG[p].quick || f > 3)) continue;
                        if (f > 3 && !strstr(PG[p].name, "cyrillic") && !strstr(PG[p].name, "greek") && !strstr(PG[p].name, "national option 1")) continue;
                        for (int r = 0; r < PG[p].pg.rows; r++) PC[nPC++] = (struct pcase){ p, f, r };
                }
        /* render */
        RC = malloc(sizeof *RC * (size_t) nPG * 24 * 41);
        for (int p = 0; p < nPG; p++) {
                if (!thorough && !PG[p].quick) continue;
                for (int f = 0; f < 2; f++)
                        for (int sk = 0; sk < 3; sk++)
                                for (int fl = 0; fl < 4; fl++) {
                                        int reveal = !(fl & 1), flash = !(fl & 2);
                                        if (PG[p].is_cc && fl) continue;
                                        if (fl && !(PG[p].has_conceal || PG[p].has_flash)) continue;
                                        if (fl && !(f == 0 && sk == 1) && !(f == 1 && sk == 0)) continue;
                                        struct variant v = { f ? VBI_PIXFMT_PAL8 : VBI_PIXFMT_RGBA32_LE, f ? 1 : 4, sk, reveal, flash };
                                        for (int c0 = 0; c0 < PG[p].pg.columns; c0++)
                                                RC[nRC++] = (struct rcase){ p, v, c0, thorough && PG[p].quick };
                                }
        }
}

int main(int argc, char **argv)
{
        for (int i = 1; i + 1 < argc; i++) if (!strcmp(argv[i], "--out")) snprintf(outdir, sizeof outdir, "%s", argv[i + 1]);
        build_teletext_pages();
        build_caption_pages();
        if (argc > 1 && !strcmp(argv[1], "--dump-pages")) { dump_pages(); return 0; }
        mc_init(argc, argv, "C16");
        mc_set_budget(300, 2400);
        build_options();
        K_gfx = mc_tier == MC_THOROUGH ? 256 : 48;
        K_gfx_full = mc_tier == MC_THOROUGH ? 4096 : 48;
        build_cases();

        mc_meta("level", "exploration");
        mc_meta("technique", "bounded-exhaustive enumeration of (page, export module, option vector, target, buffer size), (page, format, region, buffer size) and (page, pixel format, rowstride, reveal, flash, rectangle) on pages produced by the real decoders; relational oracle between the four export targets, independent text model, patterned arena around canvases, ASan red zones right after caller buffers");
        mc_meta("rule", "one case = one (page, module, option vector[, size chunk]) / (page, format, first row) / (page, render variant, first column); every case calls the library and is non-trivial; distinct counts these work units; evaluations counts library calls whose result was checked");
        mc_meta("bound", "%d pages (%d Teletext, 41x25/41x12/41x1; %d caption 34x15) x 5 modules x %d option vectors; mem sizes: text/html all 0..needed+1, images {0..K} + {needed-K..needed+1} + write boundaries +-1 (K=%d, default vector K=%d); print: %d formats, full-width, small (<=3x3), column%s regions, all sizes; render: %s rectangles x 2 formats x 3 rowstrides x reveal x flash",
                nPG, nPG - 4, 4, nOPT, K_gfx, K_gfx_full, NPFMT, mc_tier == MC_THOROUGH ? ", every column interval of a row" : "",
                mc_tier == MC_THOROUGH ? "all (quick-subset pages) / small+full-row+full-column (others)" : "small (<=3x3) + full-row + full-column");
        mc_meta("assume", "iconv of the C library is correct (used by the oracle with its own descriptors)");
        mc_meta("assume", "libpng/zlib are deterministic for identical input (PNG bytes are only compared between targets)");
        mc_meta("assume", "pages outside the alphabet (Level 3.5 side panels, Arabic/Hebrew sets, object pages) are not covered");
        {
                int nq = 0, nqo = 0;
                for (int i = 0; i < nPG; i++) nq += PG[i].quick;
                for (int i = 0; i < nOPT; i++) nqo += OPT[i].quick;
                if (mc_tier != MC_THOROUGH) mc_meta("assume", "quick tier: %d of %d pages, %d of %d option vectors, rectangles <= 3x3 plus full rows/columns, print formats ASCII/ISO-8859-1/UTF-8/UCS-2", nq, nPG, nqo, nOPT);
                else mc_meta("assume", "thorough tier: the %d pages outside the quick subset get the %d quick option vectors, the small + full-row + full-column rectangle set and no column-interval print regions; reveal x flash other than (1,1) only for (RGBA32_LE, exact) and (PAL8, -1) on pages with concealed or flashing cells", nPG - nq, nqo);
        }

        mc_pool("export", nEC, export_case, NULL, 300);
        mc_pool("print", nPC, print_case, NULL, 120);
        mc_pool("render", nRC, render_case, NULL, 300);
        return mc_finish();
}
