VARIANT_C14 := fast
HLINK_C14 := -Wl,--wrap=time
